------------------------------ MODULE DumpInv ------------------------------
(***************************************************************************)
(* C14 - "Dump output is well-formed and self-consistent".                 *)
(*                                                                         *)
(* This module has no behaviour.  Its "state" is ONE configuration         *)
(* (<dump cfg="...">) of ONE file written by `cppcheck --dump`, given as a  *)
(* graph: element lists (tokens in token order, scopes, functions,          *)
(* variables, types, value lists, containers) in which every reference to   *)
(* another element is still the raw id string of the XML file.  The module  *)
(* states what a self-consistent dump is (the invariants below) and what    *)
(* it means that the shipped addon library rebuilt the same graph           *)
(* (SameGraph).                                                             *)
(*                                                                         *)
(* Input  IOEnv.DUMPS : ndjson, one line per (file, configuration):         *)
(*    name        label of the input (file#cfg-index)                       *)
(*    wf          TRUE iff a plain XML parser accepted the FILE             *)
(*    xmlerror    parser message otherwise                                  *)
(*    ncfgA/ncfgB number of configurations seen by projection (a) / (b)     *)
(*    addonerror  "" or the exception raised by cppcheckdata.parsedump /    *)
(*                iterconfigurations                                        *)
(*    a           projection (a): plain XML reader   (drivers/dump2nd.py,   *)
(*    b           projection (b): cppcheckdata.py     see there for fields) *)
(*    hasA/hasB   FALSE when that projection has no such configuration      *)
(* Output IOEnv.OUT : ndjson of [name, bad (names of the violated           *)
(*    invariants), why (a few witnesses)] for every line with a violation.  *)
(*                                                                         *)
(* Python only converts XML / Python objects into these records; every     *)
(* resolution of an id and every comparison is done here.                   *)
(***************************************************************************)
EXTENDS Integers, Sequences, FiniteSets, TLC, Json, IOUtils, SequencesExt

In == ndJsonDeserialize(IOEnv.DUMPS)

(***************************************************************************)
(* Basic vocabulary.                                                       *)
(***************************************************************************)
\* cppcheck prints the null pointer as "0"; an absent attribute is "" in the records.
Null(x) == x = "" \/ x = "0"

IdSeq(s) == [i \in DOMAIN s |-> s[i].id]
IdSet(s) == {s[i].id : i \in DOMAIN s}
\* Range(s) == {s[i] : i \in DOMAIN s} comes from the community module Functions

\* position of the (first) element with a given id
PosMap(s) == [id \in IdSet(s) |-> CHOOSE i \in DOMAIN s : s[i].id = id]

\* a reference resolves if it is null or the id of an element of the expected kind (a set of ids of THIS configuration)
Res(x, ids) == Null(x) \/ x \in ids

Open  == {"(", "[", "{", "<"}
Close == {")", "]", "}", ">"}
Partner(s) == CASE s = "(" -> ")" [] s = "[" -> "]" [] s = "{" -> "}" [] s = "<" -> ">"
                [] s = ")" -> "(" [] s = "]" -> "[" [] s = "}" -> "{" [] s = ">" -> "<" [] OTHER -> "?"

\* at most k witnesses of a set, as a sequence (for the report only)
Some(S) == LET q == SetToSeq(S) IN SubSeq(q, 1, IF Len(q) < 4 THEN Len(q) ELSE 4)

(***************************************************************************)
(* The invariants.  Each one is given as the set of its counterexamples     *)
(* (strings naming the offending element) so that a violation can be       *)
(* reported with a witness; the invariant proper is "this set is empty".   *)
(***************************************************************************)
Judge(a) ==
  LET tok  == a.tokens
      T    == IdSet(tok)
      S    == IdSet(a.scopes)
      F    == IdSet(a.functions)
      V    == IdSet(a.variables)
      Y    == IdSet(a.types)
      L    == IdSet(a.valuelists)
      pos  == PosMap(tok)
      Tok(id) == tok[pos[id]]
      spos == PosMap(a.scopes)
      n    == Len(tok)

      (* IdsUnique: an id names one element.  Within a kind, and across the kinds that the addon library keeps  *)
      (* in one id map (tokens, scopes, functions, variables, value lists, containers).                          *)
      allIds == IdSeq(tok) \o IdSeq(a.scopes) \o IdSeq(a.functions) \o IdSeq(a.variables) \o IdSeq(a.valuelists) \o a.containers
      IdsUnique == IF Cardinality(Range(allIds)) = Len(allIds) /\ Cardinality(Y) = Len(a.types) /\ (\A i \in DOMAIN allIds : ~Null(allIds[i]))
                   THEN {} ELSE {"duplicate or null element id"}

      (* RefsResolve: every reference is null or the id of an element of the right kind of this configuration.   *)
      BadTokRef(t) ==
           ~Res(t.link, T) \/ ~Res(t.astParent, T) \/ ~Res(t.astOperand1, T) \/ ~Res(t.astOperand2, T)
        \/ ~Res(t.scope, S) \/ ~Res(t.function, F) \/ ~Res(t.variable, V) \/ ~Res(t.typeScope, S) \/ ~Res(t.values, L)
      BadScopeRef(s) ==
           ~Res(s.bodyStart, T) \/ ~Res(s.bodyEnd, T) \/ ~Res(s.nestedIn, S) \/ ~Res(s.function, F) \/ ~Res(s.definedType, Y)
        \/ (\E i \in DOMAIN s.varlist : ~Res(s.varlist[i], V))
      BadFuncRef(f) ==
           ~Res(f.token, T) \/ ~Res(f.tokenDef, T) \/ ~Res(f.overriddenFunction, F) \/ ~Res(f.scope, S)
        \/ (\E i \in DOMAIN f.args : ~Res(f.args[i].variable, V))
      BadVarRef(v) ==
           ~Res(v.nameToken, T) \/ ~Res(v.typeStartToken, T) \/ ~Res(v.typeEndToken, T) \/ ~Res(v.scope, S)
      BadTypeRef(y) ==
           ~Res(y.classScope, S) \/ (\E i \in DOMAIN y.derivedFrom : ~Res(y.derivedFrom[i].type, Y) \/ ~Res(y.derivedFrom[i].nameTok, T))
      BadValRef(l) ==
           \E i \in DOMAIN l.values : ~Res(l.values[i].tokvalue, T) \/ ~Res(l.values[i].lifetime, T) \/ ~Res(l.values[i].symbolic, T)
      RefsResolve ==
              {"token " \o t.id \o " '" \o t.str \o "'" : t \in {u \in Range(tok) : BadTokRef(u)}}
        \cup  {"scope " \o s.id : s \in {u \in Range(a.scopes) : BadScopeRef(u)}}
        \cup  {"function " \o f.id \o " " \o f.name : f \in {u \in Range(a.functions) : BadFuncRef(u)}}
        \cup  {"variable " \o v.id : v \in {u \in Range(a.variables) : BadVarRef(u)}}
        \cup  {"type " \o y.id : y \in {u \in Range(a.types) : BadTypeRef(u)}}
        \cup  {"values " \o l.id : l \in {u \in Range(a.valuelists) : BadValRef(u)}}

      (* LinksSymmetric: link(link(t)) = t, a token is not linked to itself, the two ends are a bracket pair.    *)
      Linked == {i \in DOMAIN tok : ~Null(tok[i].link) /\ tok[i].link \in T}
      LinksSymmetric ==
        {"token " \o tok[i].id \o " '" \o tok[i].str \o "'" :
            i \in {j \in Linked : LET t == tok[j]  u == Tok(t.link)
                                  IN  u.link # t.id \/ u.id = t.id \/ t.str \notin (Open \cup Close) \/ u.str # Partner(t.str)}}

      (* LinksNested: in token order the linked brackets form a well-nested word: every closing bracket closes  *)
      (* the most recently opened one that is still open (so no two pairs cross), and nothing stays open.       *)
      (* One left-to-right scan with a stack of open bracket ids.                                               *)
      Step(acc, t) ==
        IF ~acc.ok \/ Null(t.link) THEN acc
        ELSE IF t.str \in Open THEN [ok |-> TRUE, st |-> <<t.id>> \o acc.st, at |-> acc.at]
        ELSE IF acc.st # <<>> /\ acc.st[1] = t.link THEN [ok |-> TRUE, st |-> Tail(acc.st), at |-> acc.at]
        ELSE [ok |-> FALSE, st |-> acc.st, at |-> t.id]
      scan == FoldLeft(Step, [ok |-> TRUE, st |-> <<>>, at |-> ""], tok)
      LinksNested == IF ~scan.ok THEN {"crossing link at token " \o scan.at}
                     ELSE IF scan.st # <<>> THEN {"bracket never closed: token " \o scan.st[1]} ELSE {}

      (* AstForest: operand and parent edges are the same relation, a node is not both operands of its parent,  *)
      (* and following astParent always ends at a root (no cycle).  "At most one parent" is then implied: a      *)
      (* token has one astParent attribute and every node that lists it as an operand must be that parent.       *)
      (* NOT demanded: "a second operand only together with a first one".  cppcheck's own convention breaks it   *)
      (* for "for ( ; ; )" (the first ';' has the second ';' as astOperand2 and no astOperand1: test/cfg/qt.cpp) *)
      (* and the property statement does not ask for it.                                                         *)
      InAst == {i \in DOMAIN tok : ~Null(tok[i].astParent) \/ ~Null(tok[i].astOperand1) \/ ~Null(tok[i].astOperand2)}
      OperandBack(t, x) == Null(x) \/ (x \in T /\ Tok(x).astParent = t.id)
      ParentBack(t) == Null(t.astParent) \/ (t.astParent \in T /\ (Tok(t.astParent).astOperand1 = t.id \/ Tok(t.astParent).astOperand2 = t.id))
      RECURSIVE Climb(_, _)
      Climb(id, fuel) == IF Null(id) \/ id \notin T THEN TRUE ELSE IF fuel = 0 THEN FALSE ELSE Climb(Tok(id).astParent, fuel - 1)
      AstForest ==
        {"token " \o tok[i].id \o " '" \o tok[i].str \o "'" :
            i \in {j \in InAst : LET t == tok[j]
                                 IN  ~OperandBack(t, t.astOperand1) \/ ~OperandBack(t, t.astOperand2) \/ ~ParentBack(t)
                                     \/ (~Null(t.astOperand1) /\ t.astOperand1 = t.astOperand2)
                                     \/ t.astParent = t.id
                                     \/ ~Climb(t.astParent, n)}}

      (* ScopeTree: nestedIn is acyclic; a scope body starts before it ends (both ends present or both absent); *)
      (* and the scope attribute of the tokens agrees with the body ranges: a token strictly between bodyStart   *)
      (* and bodyEnd of a scope belongs to that scope or to a scope nested (transitively) in it.                 *)
      RECURSIVE Up(_, _), Inside(_, _, _)
      Up(id, fuel) == IF Null(id) \/ id \notin S THEN TRUE ELSE IF fuel = 0 THEN FALSE ELSE Up(a.scopes[spos[id]].nestedIn, fuel - 1)
      Inside(id, sc, fuel) == IF id = sc THEN TRUE ELSE IF Null(id) \/ id \notin S \/ fuel = 0 THEN FALSE
                              ELSE Inside(a.scopes[spos[id]].nestedIn, sc, fuel - 1)
      HasBody(u) == ~Null(u.bodyStart) /\ ~Null(u.bodyEnd) /\ u.bodyStart \in T /\ u.bodyEnd \in T
      ScopeTree ==
        {"scope " \o s.id \o " " \o s.type :
            s \in {u \in Range(a.scopes) :
                     \/ ~Up(u.nestedIn, Len(a.scopes))
                     \/ Null(u.bodyStart) # Null(u.bodyEnd)
                     \/ (HasBody(u) /\ ~(pos[u.bodyStart] < pos[u.bodyEnd]))
                     \/ (HasBody(u) /\ \E i \in (pos[u.bodyStart] + 1)..(pos[u.bodyEnd] - 1) : ~Inside(tok[i].scope, u.id, Len(a.scopes)))}}

      (* VarDeclUse: a token that refers to a variable carries a variable id, and tokens with the same id refer   *)
      (* to the same variable.  All tokens of one variable carry the id of its declaration (the id of the name   *)
      (* token), except member accesses "x . m": there cppcheck deliberately numbers every (object, member) pair *)
      (* with an id of its own (Tokenizer::setVarIdStructMembers).  NOT demanded: that two <var> elements never  *)
      (* share the id of their name tokens - invalid code that cppcheck accepts ("int f(int p, int p)") yields   *)
      (* two variables for one id, and all tokens then refer to one of them.                                     *)
      withVar == {i \in DOMAIN tok : ~Null(tok[i].variable)}
      uses    == {<<tok[i].variable, tok[i].varId>> : i \in withVar}
      direct  == {<<tok[i].variable, tok[i].varId>> : i \in {k \in withVar : k = 1 \/ tok[k-1].str # "."}}
      decl    == {<<v.id, Tok(v.nameToken).varId>> : v \in {u \in Range(a.variables) : ~Null(u.nameToken) /\ u.nameToken \in T}}
      declNz  == {p \in decl : p[2] # 0}
      VarDeclUse ==
        IF \E p \in uses : p[2] <= 0 THEN {"token with a variable but without varId: variable " \o (CHOOSE p \in uses : p[2] <= 0)[1]}
        ELSE IF Cardinality({p[1] : p \in direct \cup declNz}) # Cardinality(direct \cup declNz)
             THEN {"one variable, two variable ids: " \o (CHOOSE p \in direct \cup declNz : \E q \in direct \cup declNz : q[1] = p[1] /\ q[2] # p[2])[1]}
        ELSE IF Cardinality({p[2] : p \in uses}) # Cardinality(uses)
             THEN {"one variable id, two variables: " \o ToString((CHOOSE p \in uses : \E q \in uses : q[2] = p[2] /\ q[1] # p[1])[2])}
        ELSE {}
  IN  [IdsUnique |-> IdsUnique, RefsResolve |-> RefsResolve, LinksSymmetric |-> LinksSymmetric, LinksNested |-> LinksNested,
       AstForest |-> AstForest, ScopeTree |-> ScopeTree, VarDeclUse |-> VarDeclUse]

(***************************************************************************)
(* SameGraph(a, b): the object graph built by the addon library            *)
(* (projection b: every object reference rendered as "Class:Id") is        *)
(* exactly the graph of the file (projection a): same elements in the same *)
(* order, and every reference the library models points to the object of   *)
(* the right class whose id is the id written in the file.                  *)
(* The library has no objects for <types> / <derivedFrom> and containers   *)
(* of a token's value type, keeps Scope.definedType as a plain string and   *)
(* turns Function.overriddenFunction into a boolean: those references are   *)
(* judged on the file only (RefsResolve), not here.                         *)
(***************************************************************************)
Ref(class, x) == IF Null(x) THEN "" ELSE class \o ":" \o x

SameGraph(a, b) ==
  LET vl == a.valuelists
      vpos == PosMap(vl)
      \* the values of a token as the library presents them: the non-impossible ones and the impossible ones, each in file order
      ValsOf(t, imp) == IF Null(t.values) \/ t.values \notin DOMAIN vpos THEN <<>>
                        ELSE SelectSeq(vl[vpos[t.values]].values, LAMBDA v : (v.valueKind = "impossible") = imp)
      SameVals(av, bv) == /\ Len(av) = Len(bv)
                          /\ \A k \in DOMAIN av : /\ bv[k].tokvalue = Ref("Token", av[k].tokvalue)
                                                  /\ bv[k].lifetime = Ref("Token", av[k].lifetime)
                                                  /\ bv[k].symbolic = Ref("Token", av[k].symbolic)
                                                  /\ bv[k].valueKind = av[k].valueKind
                                                  /\ bv[k].intvalue = av[k].intvalue
      n == Len(a.tokens)
      TokSame(i) == LET t == a.tokens[i]  u == b.tokens[i]
                    IN /\ u.id = t.id /\ u.str = t.str /\ u.varId = t.varId
                       /\ u.scope = Ref("Scope", t.scope) /\ u.link = Ref("Token", t.link)
                       /\ u.variable = Ref("Variable", t.variable) /\ u.function = Ref("Function", t.function)
                       /\ u.typeScope = Ref("Scope", t.typeScope)
                       /\ u.astParent = Ref("Token", t.astParent)
                       /\ u.astOperand1 = Ref("Token", t.astOperand1) /\ u.astOperand2 = Ref("Token", t.astOperand2)
                       /\ u.previous = (IF i = 1 THEN "" ELSE Ref("Token", a.tokens[i-1].id))
                       /\ u.next = (IF i = n THEN "" ELSE Ref("Token", a.tokens[i+1].id))
                       /\ SameVals(ValsOf(t, FALSE), u.values) /\ SameVals(ValsOf(t, TRUE), u.impossible)
      ScopeSame(i) == LET s == a.scopes[i]  u == b.scopes[i]
                      IN /\ u.id = s.id /\ u.type = s.type
                         /\ u.bodyStart = Ref("Token", s.bodyStart) /\ u.bodyEnd = Ref("Token", s.bodyEnd)
                         /\ u.nestedIn = Ref("Scope", s.nestedIn) /\ u.function = Ref("Function", s.function)
                         /\ u.varlist = [k \in DOMAIN s.varlist |-> Ref("Variable", s.varlist[k])]
                         \* nestedList is the inverse of nestedIn, in file order
                         /\ u.nestedList = [k \in DOMAIN SelectSeq(a.scopes, LAMBDA c : c.nestedIn = s.id) |->
                                              Ref("Scope", SelectSeq(a.scopes, LAMBDA c : c.nestedIn = s.id)[k].id)]
      FuncSame(i) == LET f == a.functions[i]  u == b.functions[i]
                     IN /\ u.id = f.id /\ u.name = f.name
                        /\ u.token = Ref("Token", f.token) /\ u.tokenDef = Ref("Token", f.tokenDef)
                        /\ u.scope = Ref("Scope", f.scope)
                        /\ Len(u.args) = Len(f.args)
                        /\ \A k \in DOMAIN f.args : u.args[k].nr = f.args[k].nr /\ u.args[k].variable = Ref("Variable", f.args[k].variable)
      VarSame(i) == LET v == a.variables[i]  u == b.variables[i]
                    IN /\ u.id = v.id /\ u.access = v.access
                       /\ u.nameToken = Ref("Token", v.nameToken)
                       /\ u.typeStartToken = Ref("Token", v.typeStartToken) /\ u.typeEndToken = Ref("Token", v.typeEndToken)
                       /\ u.scope = Ref("Scope", v.scope)
      Diff(kind, na, nb, Same(_), label(_)) ==
        IF na # nb THEN {kind \o " count differs"}
        ELSE {kind \o " " \o label(i) : i \in {j \in 1..na : ~Same(j)}}
  IN  IF a.cfg # b.cfg THEN {"configuration name differs"}
      ELSE Diff("token", Len(a.tokens), Len(b.tokens), TokSame, LAMBDA i : a.tokens[i].id \o " '" \o a.tokens[i].str \o "'")
      \cup Diff("scope", Len(a.scopes), Len(b.scopes), ScopeSame, LAMBDA i : a.scopes[i].id)
      \cup Diff("function", Len(a.functions), Len(b.functions), FuncSame, LAMBDA i : a.functions[i].id)
      \cup Diff("variable", Len(a.variables), Len(b.variables), VarSame, LAMBDA i : a.variables[i].id)

(***************************************************************************)
(* Verdict per input line.                                                 *)
(***************************************************************************)
InvNames == <<"IdsUnique", "RefsResolve", "LinksSymmetric", "LinksNested", "AstForest", "ScopeTree", "VarDeclUse">>

Verdict(d) ==
  IF ~d.wf THEN [bad |-> <<"WellFormedXml">>, why |-> <<d.xmlerror>>]
  ELSE LET j == IF d.hasA THEN Judge(d.a) ELSE [x \in {} |-> {}]
           badInv == IF d.hasA THEN SelectSeq(InvNames, LAMBDA nm : j[nm] # {}) ELSE <<>>
           whyInv == IF d.hasA THEN [k \in DOMAIN badInv |-> badInv[k] \o ": " \o Some(j[badInv[k]])[1]] ELSE <<>>
           \* the addon library must load the file and see the same configurations
           loads == d.addonerror = "" /\ d.ncfgA = d.ncfgB /\ d.hasA = d.hasB
           sg    == IF loads /\ d.hasA THEN SameGraph(d.a, d.b) ELSE {}
       IN  [bad |-> badInv \o (IF ~loads THEN <<"AddonLoads">> ELSE <<>>) \o (IF sg # {} THEN <<"SameGraph">> ELSE <<>>),
            why |-> whyInv \o (IF ~loads THEN <<"AddonLoads: " \o d.addonerror \o " configurations " \o ToString(d.ncfgA) \o "/" \o ToString(d.ncfgB)>> ELSE <<>>)
                           \o [k \in DOMAIN Some(sg) |-> "SameGraph: " \o Some(sg)[k]]]

Verdicts == [k \in DOMAIN In |-> Verdict(In[k])]
BadIdx == SelectSeq([k \in DOMAIN In |-> k], LAMBDA k : Verdicts[k].bad # <<>>)

ASSUME PrintT(<<"DUMPS", Len(In), "BAD", Len(BadIdx)>>)
ASSUME ndJsonSerialize(IOEnv.OUT, [k \in DOMAIN BadIdx |->
          [name |-> In[BadIdx[k]].name, bad |-> Verdicts[BadIdx[k]].bad, why |-> Verdicts[BadIdx[k]].why]])
=============================================================================
