------------------------------ MODULE MiniCConf ------------------------------
(***************************************************************************)
(* Conformance of the MiniC semantics with the native compiler (second      *)
(* witness, gcc -O0 with UBSan + ASan).  Python records, for a sample of     *)
(* executions, what the model concluded and what the native run did; TLC     *)
(* evaluates the agreement relation and writes the disagreeing rows.         *)
(*                                                                         *)
(* Input IOEnv.OBS (ndjson): [id, s, w, res, nat, ret]                        *)
(*    s, w, res  outcome of the model (status, reason, <<returned value>>)    *)
(*    nat        wait status of the native child (0 = clean exit)             *)
(*    ret        <<value printed by the native run>> or <<>>                  *)
(* Agreement:                                                               *)
(*    model "done"  =>  native clean and same returned value                  *)
(*    model "ub" with a reason the sanitizers detect  =>  native not clean    *)
(*    anything else (abandoned, step budget, uninitialised read) is open.     *)
(***************************************************************************)
EXTENDS Integers, Sequences, FiniteSets, TLC, Json, IOUtils, SequencesExt

Obs == ndJsonDeserialize(IOEnv.OBS)

Detectable == {"signed overflow", "division by zero", "shift count out of range", "left shift of a negative value",
               "left shift overflows", "array index out of bounds", "null pointer dereference"}

Agrees(o) ==
  CASE o.s = "done" -> o.nat = 0 /\ o.ret = o.res
    [] o.s = "ub" /\ o.w \in Detectable -> o.nat # 0
    [] OTHER -> TRUE

Judged(o) == o.s = "done" \/ (o.s = "ub" /\ o.w \in Detectable)

Bad == SelectSeq(Obs, LAMBDA o : ~Agrees(o))
ASSUME PrintT(<<"CONF", Len(Obs), "JUDGED", Len(SelectSeq(Obs, Judged)), "BAD", Len(Bad)>>)
ASSUME ndJsonSerialize(IOEnv.OUT, Bad)
=============================================================================
