------------------------------- MODULE Contain -------------------------------
(***************************************************************************)
(* C21 judge: a run of the process executor in which the worker of one     *)
(* file was made to die at a chosen point (fault injection) is compared    *)
(* with the fault-free run of the same project.                            *)
(*                                                                         *)
(* Input IOEnv.OBS: line 1 = [ref |-> findings of the fault-free run,      *)
(*                            exitcode |-> --error-exitcode value]         *)
(*   other lines = [fault |-> [file, k, how], died (the fault fired),      *)
(*                  timeout, exit, findings]   finding = [id, file, key]   *)
(* Output IOEnv.OUT: the runs violating the property with the reason.      *)
(***************************************************************************)
EXTENDS Integers, Sequences, FiniteSets, TLC, Json, IOUtils, SequencesExt

In == ndJsonDeserialize(IOEnv.OBS)
Ref == In[1]
Obs == SubSeq(In, 2, Len(In))

RefKeysNotOf(f) == {Ref.ref[i].key : i \in {j \in DOMAIN Ref.ref : Ref.ref[j].file # f /\ Ref.ref[j].id # "checkersReport"}}
KeysNotOf(o, f) == {o.findings[i].key : i \in {j \in DOMAIN o.findings :
                       o.findings[j].file # f /\ o.findings[j].id \notin {"checkersReport", "cppcheckError"}}}

\* the four obligations of the statement
Terminates(o)    == ~o.timeout
CrashReported(o) == \E i \in DOMAIN o.findings : o.findings[i].id = "cppcheckError" /\ o.findings[i].file = o.fault.file
OthersIntact(o)  == KeysNotOf(o, o.fault.file) = RefKeysNotOf(o.fault.file)
ExitIsError(o)   == o.exit = Ref.exitcode

Reasons(o) ==
  IF ~o.died THEN <<>>                       \* the fault point was not reached: nothing to judge
  ELSE (IF Terminates(o) THEN <<>> ELSE <<"hang">>)
       \o (IF ~Terminates(o) \/ CrashReported(o) THEN <<>> ELSE <<"crash-not-reported">>)
       \o (IF ~Terminates(o) \/ OthersIntact(o) THEN <<>> ELSE <<"other-files-differ">>)
       \o (IF ~Terminates(o) \/ ExitIsError(o) THEN <<>> ELSE <<"exit-status">>)

BadIdx == {i \in DOMAIN Obs : Reasons(Obs[i]) # <<>>}
Judged == Cardinality({i \in DOMAIN Obs : Obs[i].died})

ASSUME PrintT(<<"JUDGED", Judged, "BAD", Cardinality(BadIdx)>>)
ASSUME ndJsonSerialize(IOEnv.OUT, [i \in 1..Cardinality(BadIdx) |->
          LET o == Obs[SetToSeq(BadIdx)[i]] IN
            [fault |-> o.fault, reasons |-> Reasons(o), exit |-> o.exit,
             missing |-> SetToSeq(RefKeysNotOf(o.fault.file) \ KeysNotOf(o, o.fault.file)),
             extra |-> SetToSeq(KeysNotOf(o, o.fault.file) \ RefKeysNotOf(o.fault.file))]])
=============================================================================
