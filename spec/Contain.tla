------------------------------- MODULE Contain -------------------------------
(***************************************************************************)
(* C21 judge: a run of the process executor in which the worker of one     *)
(* file was made to die at a chosen point (fault injection) is compared    *)
(* with the fault-free run of the same project.                            *)
(*                                                                         *)
(* Input IOEnv.OBS: line 1 = [ref |-> findings of the fault-free run,      *)
(*                            exitcode |-> --error-exitcode value]         *)
(*   other lines = [fault |-> [file, k, how], died (the fault fired),      *)
(*                  dead (files whose worker died), timeout, exit,         *)
(*                  findings]   finding = [id, file, key]                  *)
(* Output IOEnv.OUT: the runs violating the property with the reason.      *)
(***************************************************************************)
EXTENDS Integers, Sequences, FiniteSets, TLC, Json, IOUtils, SequencesExt

In == ndJsonDeserialize(IOEnv.OBS)
Ref == In[1]
Obs == SubSeq(In, 2, Len(In))

\* o.dead = the files whose worker process died (measured: the last event of the worker's log is marked `dies');
\* with a fault that names one file this is that file, a fault matching every worker kills several at the same step
Dead(o) == ToSet(o.dead)
\* "every finding of the other files": findings located in a file whose worker did not die. Reports without a file
\* ("nofile": e.g. the whole-program stage saying that it cannot load the cache file the dead worker left behind) are
\* not findings of another file and are not judged.
RefKeysNotOf(D) == {Ref.ref[i].key : i \in {j \in DOMAIN Ref.ref : Ref.ref[j].file \notin (D \cup {"nofile"}) /\ Ref.ref[j].id # "checkersReport"}}
KeysNotOf(o, D) == {o.findings[i].key : i \in {j \in DOMAIN o.findings :
                       o.findings[j].file \notin (D \cup {"nofile"}) /\ o.findings[j].id \notin {"checkersReport", "cppcheckError"}}}

\* the four obligations of the statement
Terminates(o)    == ~o.timeout
CrashReported(o) == \A f \in Dead(o) : \E i \in DOMAIN o.findings : o.findings[i].id = "cppcheckError" /\ o.findings[i].file = f
OthersIntact(o)  == KeysNotOf(o, Dead(o)) = RefKeysNotOf(Dead(o))
ExitIsError(o)   == o.exit = Ref.exitcode

Reasons(o) ==
  IF ~o.died THEN <<>>                       \* the fault point was not reached: nothing to judge
  ELSE (IF Terminates(o) THEN <<>> ELSE <<"hang">>)
       \o (IF ~Terminates(o) \/ CrashReported(o) THEN <<>> ELSE <<"crash-not-reported">>)
       \o (IF ~Terminates(o) \/ OthersIntact(o) THEN <<>> ELSE <<"other-files-differ">>)
       \o (IF ~Terminates(o) \/ ExitIsError(o) THEN <<>> ELSE <<"exit-status">>)

BadIdx == {i \in DOMAIN Obs : Reasons(Obs[i]) # <<>>}
Judged == Cardinality({i \in DOMAIN Obs : Obs[i].died})

ASSUME PrintT(<<"JUDGED", Judged, "BAD", Cardinality(BadIdx)>>)
ASSUME ndJsonSerialize(IOEnv.OUT, [i \in 1..Cardinality(BadIdx) |->
          LET o == Obs[SetToSeq(BadIdx)[i]] IN
            [fault |-> o.fault, reasons |-> Reasons(o), exit |-> o.exit,
             missing |-> SetToSeq(RefKeysNotOf(Dead(o)) \ KeysNotOf(o, Dead(o))),
             extra |-> SetToSeq(KeysNotOf(o, Dead(o)) \ RefKeysNotOf(Dead(o)))]])
=============================================================================
