
