-------------------------------- MODULE C09 ---------------------------------
(***************************************************************************)
(* C09: for every expression to which cppcheck assigns a type, that type   *)
(* (base type, signedness, pointer depth) is the type the language gives   *)
(* the expression on the selected platform.                                *)
(*                                                                         *)
(* One TLC run handles one (platform, language) pair, selected by the      *)
(* environment:                                                            *)
(*   C09_MODE = gen    write the case list (IOEnv.C09_CASES, ndjson): line  *)
(*                     1 = the two translation-unit preambles, then one     *)
(*                     line per case with the statement probed by cppcheck  *)
(*                     and the assertion compiled by the second witness     *)
(*   C09_MODE = judge  enumerate the same cases, read the observations      *)
(*                     (IOEnv.C09_OBS: what cppcheck's dump says about the  *)
(*                     root token of each case, whether the witness         *)
(*                     accepted the assertion) and write the verdict of     *)
(*                     every case that is not plainly "ok" (IOEnv.C09_OUT)  *)
(*   C09_MODE = run    gen, then the probe driver (IOEnv.C09_DRIVER, runs    *)
(*                     cppcheck and the witness on the rendered files and   *)
(*                     writes the observations), then judge - in one run    *)
(* The expected type is computed here, from CTypes / CLit, in every mode.  *)
(***************************************************************************)
EXTENDS CLit, TLC, Json, IOUtils, SequencesExt

PlatName == IOEnv.C09_PLAT
Lang == IOEnv.C09_LANG
P == Platform(PlatName)

--------------------------------------------------------------------------
(* The case space *)

OperandBases == StdInts \cup {"bool", "float", "double", "ldouble", "enum"} \cup (IF Lang = "c++" THEN {"wchar_t"} ELSE {})
PtrOperands == {PtrTo(Ty("ushort")), PtrTo(PtrTo(Ty("long")))}
Operands == {Ty(b) : b \in OperandBases} \cup PtrOperands
CastTargets == {Ty(b) : b \in OperandBases \ {"enum"}}

None == Ty("-")     \* absent second operand

OpCases ==
  LET bin == {[op |-> op, a |-> a, b |-> b] : op \in BinaryOps \ {"cast"}, a \in Operands, b \in Operands}
      cast == {[op |-> "cast", a |-> a, b |-> b] : a \in Operands, b \in CastTargets}
      un == {[op |-> op, a |-> a, b |-> None] : op \in UnaryOps, a \in Operands}
  IN  {c \in bin \cup cast \cup un : ResultType(c.op, c.a, c.b, Lang, P).ok}

(* Literal cases: the token of a literal carries the literal's type.  Integer *)
(* literals at the boundaries of every integer type of the platform, in every *)
(* base, with every suffix kind (canonical lower-case spelling).              *)
Boundaries ==
  LET maxes == {IMax(Bits(b, P), IsSigned(b, P)).mag : b \in {"int", "uint", "long", "ulong", "llong", "ullong"}}
  IN  {<<>>, <<1>>} \cup UNION {{NSub(m, <<1>>), m, NAdd(m, <<1>>)} : m \in maxes}
BaseForms == {[base |-> 10, prefix |-> <<>>], [base |-> 8, prefix |-> <<"0">>],
              [base |-> 16, prefix |-> <<"0", "x">>], [base |-> 2, prefix |-> <<"0", "b">>]}
SuffixForms == {<<>>, <<"u">>, <<"l">>, <<"u", "l">>, <<"l", "l">>, <<"u", "l", "l">>}
               \cup (IF Lang = "c++" THEN {<<"z">>, <<"u", "z">>} ELSE {})
DigitChars(n, base) == LET d == NToDigits(n, base) IN [i \in 1..Len(d) |-> DigitCh[d[i] + 1]]
IntLits ==
  {l \in {[base |-> f.base, prefix |-> f.prefix, digits |-> DigitChars(n, f.base), sep |-> "none", suffix |-> s] :
            f \in BaseForms, n \in Boundaries, s \in SuffixForms} : IntLitType(l, P) # "?"}

Ch(c) == ElCh(c)
Hex(ds) == ElHex(ds)
CharLits ==
  {l \in {[prefix |-> p, elems |-> es] :
            p \in {<<>>, <<"L">>},
            es \in {<<Ch("a")>>, <<Hex(<<"f", "f">>)>>, <<Ch("a"), Ch("b")>>, <<Ch("a"), Ch("b"), Ch("c"), Ch("d")>>}} :
     /\ CharLitWellFormed(l, Lang, P)
     /\ ~(l.prefix = <<"L">> /\ Lang = "c" /\ P.wcharTypeOpen)}

FloatLits ==
  {[base |-> 10, ip |-> <<"1">>, fp |-> <<"5">>, dot |-> TRUE, hasExp |-> FALSE, exp |-> 0, suffix |-> s] : s \in {<<>>, <<"f">>, <<"F">>, <<"l">>, <<"L">>}}
  \cup {[base |-> 10, ip |-> <<"1">>, fp |-> <<>>, dot |-> FALSE, hasExp |-> TRUE, exp |-> 3, suffix |-> s] : s \in {<<>>, <<"f">>, <<"L">>}}
  \cup {[base |-> 16, ip |-> <<"1">>, fp |-> <<"8">>, dot |-> TRUE, hasExp |-> TRUE, exp |-> 1, suffix |-> s] : s \in {<<>>, <<"f">>, <<"L">>}}

BoolLits == IF Lang = "c++" THEN {TRUE, FALSE} ELSE {}

\* the cases as one sequence; the index is the case id
Tagged(kind, seq) == [i \in 1..Len(seq) |-> [kind |-> kind, c |-> seq[i]]]
OpSeq == SetToSeq(OpCases)
IntSeq == SetToSeq(IntLits)
ChrSeq == SetToSeq(CharLits)
FltSeq == SetToSeq(FloatLits)
BoolSeq == SetToSeq(BoolLits)
CaseSeq == Tagged("op", OpSeq) \o Tagged("int", IntSeq) \o Tagged("chr", ChrSeq) \o Tagged("flt", FltSeq) \o Tagged("bool", BoolSeq)

--------------------------------------------------------------------------
(* Expected type of a case: [t, rule] *)

Expected(x) ==
  CASE x.kind = "op" -> LET r == ResultType(x.c.op, x.c.a, x.c.b, Lang, P) IN [t |-> r.t, rule |-> r.rule]
    [] x.kind = "int" -> [t |-> Ty(IntLitType(x.c, P)), rule |-> "int-literal"]
    [] x.kind = "chr" -> [t |-> Ty(CharLitType(x.c, Lang, P)), rule |-> "char-literal"]
    [] x.kind = "flt" -> [t |-> Ty(FloatLitType(x.c)), rule |-> "float-literal"]
    [] x.kind = "bool" -> [t |-> Ty("bool"), rule |-> "bool-literal"]

\* not judged: implementation-defined (enumerated type in C), and enumeration-typed results (cppcheck's
\* dump has no notion of an enumeration type; it reports the underlying type)
NotJudged(t) == IsOpen(t) \/ t.b = "enum"

--------------------------------------------------------------------------
(* Rendering *)

VarA(t) == "a_" \o TypeId(t)
VarB(t) == "b_" \o TypeId(t)

Expr(x) ==
  CASE x.kind = "op" ->
         LET op == x.c.op
             a == VarA(x.c.a)
             b == IF x.c.b = None THEN "" ELSE VarB(x.c.b)
         IN  CASE op = "?:" -> "c_int ? " \o a \o " : " \o b
               [] op = "[]" -> a \o "[" \o b \o "]"
               [] op = "cast" -> "(" \o Spelling(x.c.b, Lang) \o ")" \o a
               [] op = "u+" -> "+" \o a
               [] op = "u-" -> "-" \o a
               [] op \in {"~", "!"} -> op \o a
               [] op = "++x" -> "++" \o a
               [] op = "--x" -> "--" \o a
               [] op = "x++" -> a \o "++"
               [] op = "x--" -> a \o "--"
               [] op = "*x" -> "*" \o a
               [] op = "&x" -> "&" \o a
               [] op = "sizeof" -> "sizeof " \o a
               [] op = "sizeof()" -> "sizeof(" \o a \o ")"
               [] OTHER -> a \o " " \o op \o " " \o b
    [] x.kind = "int" -> Join(IntLitChars(x.c))
    [] x.kind = "chr" -> Join(CharLitChars(x.c))
    [] x.kind = "flt" -> Join(FloatLitChars(x.c))
    [] x.kind = "bool" -> IF x.c THEN "true" ELSE "false"

\* the token at the root of the expression's syntax tree in cppcheck
Tok(x) ==
  CASE x.kind = "op" ->
         LET op == x.c.op
         IN  CASE op = "?:" -> "?"
               [] op = "[]" -> "["
               [] op \in {"cast", "sizeof", "sizeof()"} -> "("
               [] op = "u+" -> "+"
               [] op = "u-" -> "-"
               [] op \in {"++x", "x++"} -> "++"
               [] op \in {"--x", "x--"} -> "--"
               [] op = "*x" -> "*"
               [] op = "&x" -> "&"
               [] OTHER -> op
    [] x.kind = "int" -> Join(IntLitCharsNoSep(x.c))
    [] OTHER -> Expr(x)

Key(x) ==
  CASE x.kind = "op" -> x.c.op \o ":" \o TypeId(x.c.a) \o ":" \o (IF x.c.b = None THEN "-" ELSE TypeId(x.c.b))
    [] OTHER -> x.kind \o ":" \o Expr(x)

\* cc: statement given to cppcheck: the expression is the operand of a cast to void starting in column 1
\* w: assertion given to the second witness (TYPE_IS is defined in the preamble); empty if nothing is asserted

Decls ==
  LET ts == SetToSeq(Operands)
  IN  <<"enum E { E0, E1 };", "extern int c_int;">>
      \o [i \in 1..Len(ts) |-> "extern " \o Spelling(ts[i], Lang) \o " " \o VarA(ts[i]) \o ";"]
      \o [i \in 1..Len(ts) |-> "extern " \o Spelling(ts[i], Lang) \o " " \o VarB(ts[i]) \o ";"]

WitnessMacros ==
  IF Lang = "c"
  THEN <<"#define TYPE_IS(e, ...) _Static_assert(_Generic((e), __VA_ARGS__: 1, default: 0), \"type\")">>
  ELSE <<"template<class T> struct RR { typedef T t; };",
         "template<class T> struct RR<T&> { typedef T t; };",
         "template<class T> struct RR<T&&> { typedef T t; };",
         "#define TYPE_IS(e, ...) static_assert(__is_same(RR<decltype(e)>::t, __VA_ARGS__), \"type\")">>

Header == [preamble_cc |-> Decls \o <<"void f(void) {">>,
           preamble_w |-> WitnessMacros \o Decls \o <<"void f(void) {">>,
           epilogue |-> <<"}">>,
           platform |-> PlatName, lang |-> Lang, triple |-> P.triple, ncases |-> Len(CaseSeq)]

CaseLine(i) == LET x == CaseSeq[i]
                   e == Expr(x)
                   t == Expected(x)
               IN  [id |-> i, key |-> Key(x), expr |-> e, tok |-> Tok(x), cc |-> "(void)(" \o e \o ");",
                    w |-> IF NotJudged(t.t) THEN "" ELSE "TYPE_IS((" \o e \o "), " \o Spelling(t.t, Lang) \o ");",
                    rule |-> t.rule]

\* (the parameter keeps TLC from evaluating the side-effecting definitions while it preprocesses constants)
Gen(u) == ndJsonSerialize(IOEnv.C09_CASES, <<Header>> \o [i \in 1..Len(CaseSeq) |-> CaseLine(i)])

--------------------------------------------------------------------------
(* Judge.  Observation of case i: [id, expr, has, tok, type, sign, pointer,  *)
(* clang] with has = the dump has a root token with a valueType; clang in    *)
(* "ok" (assertion accepted), "fail", "skip" (nothing asserted).             *)

Describe(t) == IF NotJudged(t) THEN "(open)" ELSE Spelling(t, Lang)

Row(i, o) ==
  LET x == CaseSeq[i]
      e == Expected(x)
      v == IF o.expr # Expr(x) THEN "desync"
           ELSE IF ~o.has THEN "untyped"
           ELSE IF o.tok # Tok(x) THEN "unmapped"
           ELSE IF NotJudged(e.t) THEN "open"
           ELSE IF Agrees([type |-> o.type, sign |-> o.sign, pointer |-> o.pointer], e.t, Lang, P) THEN "ok"
           ELSE IF o.clang # "ok" THEN "model_disagreement"
           ELSE "violation"
  IN  IF v = "ok" /\ o.clang # "fail" THEN [verdict |-> "ok", plain |-> TRUE]
      ELSE [id |-> i, key |-> Key(x), expr |-> Expr(x), verdict |-> v, rule |-> e.rule, plain |-> FALSE,
            expected |-> Describe(e.t), clang |-> o.clang,
            got |-> IF o.has THEN o.type \o "/" \o o.sign \o "/" \o ToString(o.pointer) ELSE "-"]

Judge(u) ==
  LET obs == ndJsonDeserialize(IOEnv.C09_OBS)
  IN
  /\ Assert(Len(obs) = Len(CaseSeq), <<"observations do not match the case list", Len(obs), Len(CaseSeq)>>)
  /\ LET \* SelectSeq evaluates every row exactly once; rows that are plainly ok are dropped
         notable == SelectSeq([i \in 1..Len(CaseSeq) |-> Row(i, obs[i])], LAMBDA r : ~r.plain)
         count(v) == Cardinality({i \in 1..Len(notable) : notable[i].verdict = v})
         nonok == Cardinality({i \in 1..Len(notable) : notable[i].verdict # "ok"})
     IN  /\ ndJsonSerialize(IOEnv.C09_OUT, notable)
         /\ PrintT(<<"C09VERDICT", "cases", Len(CaseSeq), "ok", Len(CaseSeq) - nonok, "violation", count("violation"),
                     "model_disagreement", Cardinality({i \in 1..Len(notable) : notable[i].clang = "fail"}),
                     "untyped", count("untyped"), "unmapped", count("unmapped"), "open", count("open"),
                     "desync", count("desync")>>)

Probe(u) == LET r == IOExec(<<"python3", IOEnv.C09_DRIVER, IOEnv.C09_WORK>>)
         IN  Assert(r.exitValue = 0, <<"probe driver failed", r.exitValue, r.stderr>>)

ASSUME CASE IOEnv.C09_MODE = "gen" -> Gen(1)
         [] IOEnv.C09_MODE = "judge" -> Judge(1)
         [] IOEnv.C09_MODE = "run" -> Gen(1) /\ Probe(1) /\ Judge(1)

--------------------------------------------------------------------------
(* Laws of the type rules themselves (guards against a wrong specification) *)
Ints == IF IOEnv.C09_MODE # "judge" THEN {b \in OperandBases : IsInt(Ty(b))} \ {"enum"} ELSE {}
ASSUME \A a, b \in Ints : Usual(a, b, Lang, P) = Usual(b, a, Lang, P)
ASSUME \A a \in Ints : LET p == Promote(a, Lang, P)
                       IN  /\ Promote(p, Lang, P) = p /\ Rank(p) >= 3 /\ CanRepresent(p, a, P)
                           /\ Usual(a, a, Lang, P) = p
ASSUME \A a, b \in Ints : LET u == Usual(a, b, Lang, P)
                          IN  /\ Rank(u) >= 3
                              /\ Bits(u, P) >= Bits(Promote(a, Lang, P), P) /\ Bits(u, P) >= Bits(Promote(b, Lang, P), P)
                              \* the result is signed only if it can hold every value of both promoted operands
                              /\ (IsSigned(u, P) => CanRepresent(u, Promote(a, Lang, P), P) /\ CanRepresent(u, Promote(b, Lang, P), P))
ASSUME \A a, b, c \in Ints : Usual(Usual(a, b, Lang, P), c, Lang, P) = Usual(a, Usual(b, c, Lang, P), Lang, P)
=============================================================================
