------------------------------ MODULE PathMatch ------------------------------
(***************************************************************************)
(* The documented path-pattern rules of cppcheck (class comment of          *)
(* lib/pathmatch.h, man/manual.md "Ignore files matching a given pattern",  *)
(* "Check files matching a given file filter"), unix syntax.                *)
(*                                                                         *)
(* Strings are sequences of 1-character strings: "a/b" is <<"a","/","b">>.  *)
(*                                                                         *)
(* The definition is declarative: a pattern matches a path iff THERE IS a   *)
(* part of the canonical path, delimited as the rules say, that belongs to  *)
(* the language of the canonical pattern.  Nothing here follows the         *)
(* reverse-iterating backtracking matcher of lib/pathmatch.cpp.             *)
(*                                                                         *)
(* Where the documentation leaves an outcome open the verdict is Open and   *)
(* the judge does not compare (see Verdict).                                *)
(*                                                                         *)
(* This module is pure (no ASSUME, no IO); PathMatchMC.tla enumerates the   *)
(* case space, judges the observations of the real PathMatch::match and     *)
(* lets TLC check the laws stated at the end of this module.                *)
(***************************************************************************)
EXTENDS Integers, Sequences, FiniteSets, SequencesExt   \* SequencesExt: Last, Front, ToSet, SetToSeq

Sep   == "/"
Dot   == <<".">>
DotDot == <<".", ".">>

RECURSIVE Flatten(_, _)
\* Flatten(<<c1,...,cn>>, first) = c1 / c2 / ... / cn   (a separator before every component but the first)
Flatten(cs, first) ==
  IF cs = <<>> THEN <<>>
  ELSE (IF first THEN <<>> ELSE <<Sep>>) \o Head(cs) \o Flatten(Tail(cs), FALSE)

(***************************************************************************)
(* Components: the maximal separator-free pieces of a string, empty pieces  *)
(* (from '//', a leading or a trailing separator) dropped.                  *)
(***************************************************************************)
RECURSIVE CompsAcc(_, _, _)
CompsAcc(s, cur, acc) ==
  IF s = <<>> THEN (IF cur = <<>> THEN acc ELSE Append(acc, cur))
  ELSE IF Head(s) = Sep THEN CompsAcc(Tail(s), <<>>, IF cur = <<>> THEN acc ELSE Append(acc, cur))
  ELSE CompsAcc(Tail(s), Append(cur, Head(s)), acc)
Comps(s) == CompsAcc(s, <<>>, <<>>)

IsAbs(s) == Len(s) > 0 /\ s[1] = Sep

(***************************************************************************)
(* Canonical form.  Documented rules: '/./' => '/', '/dir/../' => '/',      *)
(* '//' => '/', trailing separators removed, the root is preserved, and     *)
(* (PathIterator comment) "double-dots at the root level are removed".      *)
(* A '..' that has nothing to cancel in a path WITHOUT root is not covered  *)
(* by the documentation: it is kept and makes the canonical form "loose"    *)
(* (cases with a loose form are not judged).                                *)
(***************************************************************************)
RECURSIVE Resolve(_, _, _)
Resolve(cs, stack, rooted) ==
  IF cs = <<>> THEN stack
  ELSE LET c == Head(cs) IN
       IF c = Dot THEN Resolve(Tail(cs), stack, rooted)
       ELSE IF c = DotDot THEN
              IF stack # <<>> /\ Last(stack) # DotDot THEN Resolve(Tail(cs), Front(stack), rooted)
              ELSE IF rooted THEN Resolve(Tail(cs), stack, rooted)
              ELSE Resolve(Tail(cs), Append(stack, c), rooted)
       ELSE Resolve(Tail(cs), Append(stack, c), rooted)

CanonComps(s) == Resolve(Comps(s), <<>>, IsAbs(s))
Canon(s) == (IF IsAbs(s) THEN <<Sep>> ELSE <<>>) \o Flatten(CanonComps(s), TRUE)
Loose(s) == CanonComps(s) # <<>> /\ CanonComps(s)[1] = DotDot

(***************************************************************************)
(* Pattern classes.                                                         *)
(*  absolute : looks like an absolute path (starts with the separator)      *)
(*  relative : is '.' or '..' or starts with './' or '../'; it is           *)
(*             interpreted relative to the base path                        *)
(*  free     : everything else; may match at any component boundary         *)
(***************************************************************************)
IsRelPattern(p) ==
  \/ p = Dot \/ p = DotDot
  \/ (Len(p) >= 2 /\ p[1] = "." /\ p[2] = Sep)
  \/ (Len(p) >= 3 /\ p[1] = "." /\ p[2] = "." /\ p[3] = Sep)

IsReal(p) == IsAbs(p) \/ IsRelPattern(p)
Trailing(p) == Len(p) > 0 /\ Last(p) = Sep

\* base path and a path relative to it; an empty base leaves the path as it is
Join(base, s) == IF base = <<>> THEN s ELSE IF s = <<>> THEN base ELSE base \o <<Sep>> \o s

PatString(p, base)  == IF IsRelPattern(p) THEN Join(base, p) ELSE p
PathString(t, base) == IF IsAbs(t) THEN t ELSE Join(base, t)

(***************************************************************************)
(* The language of a canonical pattern (a set of strings, given by its      *)
(* membership predicate), with NS = any character but the separator:        *)
(*    L[empty]  = {empty}                                                   *)
(*    L[c p]    = c L[p]             for a literal character c              *)
(*    L[? p]    = NS L[p]                                                   *)
(*    L[star p] = NS^n L[p]          for any n >= 0                         *)
(*    L[star star p] = Char^n L[p]   for any n >= 0                         *)
(* A run of three or more stars denotes Char^n under every way of reading.  *)
(***************************************************************************)
\* InLangAt(p, r, i, j): the rest of r from position j is in the language of the rest of p from position i
RECURSIVE InLangAt(_, _, _, _)
InLangAt(p, r, i, j) ==
  IF i > Len(p) THEN j > Len(r)
  ELSE IF p[i] = "*" THEN
         IF i < Len(p) /\ p[i + 1] = "*"
         THEN \E k \in j..(Len(r) + 1) : InLangAt(p, r, i + 2, k)
         ELSE \E k \in j..(Len(r) + 1) : (\A n \in j..(k - 1) : r[n] # Sep) /\ InLangAt(p, r, i + 1, k)
  ELSE IF j > Len(r) THEN FALSE
  ELSE IF p[i] = "?" THEN r[j] # Sep /\ InLangAt(p, r, i + 1, j + 1)
  ELSE p[i] = r[j] /\ InLangAt(p, r, i + 1, j + 1)

InLang(p, r) == InLangAt(p, r, 1, 1)

(***************************************************************************)
(* Where a match may lie in the canonical path t.                           *)
(*  - it ends at the end of t or directly before a separator ("up until a   *)
(*    path separator or the end of the pathname"): a pattern that names a   *)
(*    directory matches everything below it;                                *)
(*  - absolute / relative pattern: it starts at the start of t;             *)
(*  - free pattern: it directly follows a separator; in a path without root *)
(*    (only possible with an empty base path) it may also start the path.   *)
(* lax = TRUE additionally lets a free pattern start at the very start of   *)
(* a rooted path (in front of the root separator, where the root            *)
(* directory's empty name sits) and lets a match end with the root          *)
(* separator itself ("up until a path separator" read inclusively, so that  *)
(* the pattern '/' names the root directory and matches everything below);  *)
(* the documentation does not decide these two points.                      *)
(***************************************************************************)
EndOK(t, j, lax) == j = Len(t) \/ t[j + 1] = Sep \/ (lax /\ j = 1 /\ t[1] = Sep)
StartOK(t, i, real, lax) ==
  IF real THEN i = 1
  ELSE \/ (i > 1 /\ t[i - 1] = Sep)
       \/ (i = 1 /\ (lax \/ ~IsAbs(t)))

\* the parts of t in which a match may lie
Regions(t, real, lax) ==
  LET starts == {i \in 1..(Len(t) + 1) : StartOK(t, i, real, lax)}
      ends   == {j \in 0..Len(t) : EndOK(t, j, lax)}
  IN {SubSeq(t, x[1], x[2]) : x \in {y \in starts \X ends : y[2] >= y[1] - 1}}

(***************************************************************************)
(* Trailing separator: "the final path component of the pattern only        *)
(* matches the final path component of the file path if the file is a       *)
(* directory".  For a regular file the match therefore lies in the path     *)
(* without its final component.  DirOf removes the final component and the  *)
(* separator in front of it (not the root); DirOfSep keeps that separator - *)
(* whether a '**' may swallow it is not decided by the documentation.       *)
(***************************************************************************)
DirOf(t) ==
  LET cs == Comps(t) IN
  IF cs = <<>> THEN t
  ELSE (IF IsAbs(t) THEN <<Sep>> ELSE <<>>) \o Flatten(Front(cs), TRUE)
DirOfSep(t) ==
  LET cs == Comps(t) IN
  IF Len(cs) <= 1 THEN DirOf(t) ELSE DirOf(t) \o <<Sep>>

(***************************************************************************)
(* Verdict of match(pattern, path, base, mode): "T", "F" or "Open".         *)
(* mode: "reg" (regular file) or "dir" (directory).                         *)
(* The verdict depends on the pattern only through PatInfo and on the path  *)
(* only through PathInfo (the judge evaluates each distinct pair once).     *)
(***************************************************************************)
PatInfo(p, base) ==
  LET ps == PatString(p, base) IN
  [pc    |-> Canon(ps),            \* canonical pattern
   real  |-> IsReal(p),            \* absolute or relative: anchored at the start of the path
   trail |-> Trailing(p),          \* ended with a separator before canonicalisation
   \* outside the documented domain: no pattern, a pattern that denotes nothing after
   \* canonicalisation, an unresolvable '..' in a rootless pattern
   undoc |-> (p = <<>> \/ Canon(ps) = <<>> \/ Loose(ps))]

PathInfoOf(tc, loose) ==
  [tc     |-> tc,              \* canonical path
   dir    |-> DirOf(tc),       \* ... without its final component
   dirsep |-> DirOfSep(tc),    \* ... without its final component, keeping the separator in front of it
   undoc  |-> loose]           \* outside the documented domain: an unresolvable '..' in a rootless path
PathInfo(t, base) == PathInfoOf(Canon(PathString(t, base)), Loose(PathString(t, base)))

\* The verdict, given the regions Rg(t, real, lax) of a path string and the language membership In(pc, r)
\* (PathMatchMC passes tabulated versions of Regions and InLang; the definition is this one).
VerdictWith(Rg(_, _, _), In(_, _), pi, ti, mode) ==
  LET shortened == pi.trail /\ mode = "reg"     \* the final component of the path is out of reach
      must == IF shortened THEN Rg(ti.dir, pi.real, FALSE) ELSE Rg(ti.tc, pi.real, FALSE)
      may  == IF shortened THEN Rg(ti.dir, pi.real, TRUE) \cup Rg(ti.dirsep, pi.real, TRUE)
              ELSE Rg(ti.tc, pi.real, TRUE)
  IN IF pi.undoc \/ ti.undoc THEN "Open"
     ELSE IF \E r \in must : In(pi.pc, r) THEN "T"
     ELSE IF \E r \in may : In(pi.pc, r) THEN "Open"
     ELSE "F"

VerdictI(pi, ti, mode) == VerdictWith(Regions, InLang, pi, ti, mode)

\* the two bounds of the verdict separately, without the domain restriction (used by the laws)
MustI(pi, ti, mode) ==
  \E r \in Regions(IF pi.trail /\ mode = "reg" THEN ti.dir ELSE ti.tc, pi.real, FALSE) : InLang(pi.pc, r)
MayI(pi, ti, mode) ==
  IF pi.trail /\ mode = "reg"
  THEN \E r \in Regions(ti.dir, pi.real, TRUE) \cup Regions(ti.dirsep, pi.real, TRUE) : InLang(pi.pc, r)
  ELSE \E r \in Regions(ti.tc, pi.real, TRUE) : InLang(pi.pc, r)

Must(p, t, base, mode)    == MustI(PatInfo(p, base), PathInfo(t, base), mode)
May(p, t, base, mode)     == MayI(PatInfo(p, base), PathInfo(t, base), mode)
Verdict(p, t, base, mode) == VerdictI(PatInfo(p, base), PathInfo(t, base), mode)
Undocumented(p, t, base)  == PatInfo(p, base).undoc \/ PathInfo(t, base).undoc
RootPattern(p, base)      == PatInfo(p, base).pc = <<Sep>>

(***************************************************************************)
(* Windows syntax ("case insensitive, forward and backward slashes"): the   *)
(* rules above applied to the strings with every backslash read as the      *)
(* separator and every letter in lower case.  Roots other than a single     *)
(* leading separator (drive letters, UNC) are not modelled: PathMatchMC     *)
(* does not judge strings that start with a backslash, and its alphabets    *)
(* contain no ':'.                                                          *)
(***************************************************************************)
UpperCase == <<"A","B","C","D","E","F","G","H","I","J","K","L","M","N","O","P","Q","R","S","T","U","V","W","X","Y","Z">>
LowerCase == <<"a","b","c","d","e","f","g","h","i","j","k","l","m","n","o","p","q","r","s","t","u","v","w","x","y","z">>
Lower(c) == IF \E i \in DOMAIN UpperCase : UpperCase[i] = c THEN LowerCase[CHOOSE i \in DOMAIN UpperCase : UpperCase[i] = c] ELSE c
LowerStr(s) == [i \in DOMAIN s |-> Lower(s[i])]
WinNorm(s) == [i \in DOMAIN s |-> IF s[i] = "\\" THEN Sep ELSE Lower(s[i])]

(***************************************************************************)
(* Laws of the definition (checked by TLC in PathMatchMC for all strings up *)
(* to a bound); they guard against a wrong specification.                   *)
(***************************************************************************)
RECURSIVE StringsOfLen(_, _)
StringsOfLen(A, n) == IF n = 0 THEN {<<>>} ELSE {Append(s, c) : s \in StringsOfLen(A, n - 1), c \in A}
\* all strings over alphabet A of length <= n
Strings(A, n) == UNION {StringsOfLen(A, k) : k \in 0..n}

\* positions at which a component starts (1, and directly after a separator)
CompStarts(s) == {i \in 1..(Len(s) + 1) : i = 1 \/ s[i - 1] = Sep}
Insert(s, i, x) == SubSeq(s, 1, i - 1) \o x \o SubSeq(s, i, Len(s))

\* the re-spellings of s: './', '/' or 'x/../' inserted where a component starts (not in front of a
\* rooted or empty string: that would change what the string is relative to), '/' or '/.' appended
NotFirst(s) == IF s = <<>> \/ IsAbs(s) THEN {1} ELSE {}
Respellings(s) ==
  {Insert(s, i, <<".", Sep>>) : i \in CompStarts(s) \ NotFirst(s)}
    \cup {Insert(s, i, <<Sep>>) : i \in CompStarts(s) \ {1}}
    \cup {Insert(s, i, <<"x", Sep, ".", ".", Sep>>) : i \in CompStarts(s) \ NotFirst(s)}
    \cup (IF s = <<>> THEN {} ELSE {s \o <<Sep>>, s \o <<Sep, ".">>})

\* L1 canonical forms are normal forms, canonicalisation is idempotent and blind to re-spelling
LawCanon(s) ==
    /\ Canon(Canon(s)) = Canon(s)
    /\ IsAbs(Canon(s)) = IsAbs(s)
    /\ \A c \in ToSet(CanonComps(s)) : c # <<>> /\ c # Dot /\ (c = DotDot => Loose(s))
    /\ (Len(Canon(s)) > 1 => Last(Canon(s)) # Sep)
    /\ \A k \in 1..(Len(Canon(s)) - 1) : ~(Canon(s)[k] = Sep /\ Canon(s)[k + 1] = Sep)
    /\ \A r \in Respellings(s) : Canon(r) = Canon(s)

Modes == {"reg", "dir"}

\* L2 the verdict does not depend on how the path or the pattern is spelled: Verdict is a function of
\*    PatInfo and PathInfo, and these are blind to re-spelling (a trailing separator of the pattern and its
\*    class are significant, so re-spellings that change them are not required to be neutral)
LawRespellPath(t, base) ==
  \A t2 \in Respellings(t) : IsAbs(t2) = IsAbs(t) => PathInfo(t2, base) = PathInfo(t, base)
LawRespellPat(p, base) ==
  \A p2 \in Respellings(p) :
     (IsAbs(p2) = IsAbs(p) /\ IsRelPattern(p2) = IsRelPattern(p) /\ Trailing(p2) = Trailing(p))
        => PatInfo(p2, base) = PatInfo(p, base)

\* L3 widening a wildcard never loses a match: '?' -> '*', '*' -> '**'
Widen(p) == {SubSeq(p, 1, i - 1) \o <<"*">> \o SubSeq(p, i + 1, Len(p)) : i \in {k \in DOMAIN p : p[k] = "?"}}
              \cup {Insert(p, i, <<"*">>) : i \in {k \in DOMAIN p : p[k] = "*"}}
LawWiden(p, t, base) ==
  \A mode \in Modes : Must(p, t, base, mode) => \A q \in Widen(p) : Must(q, t, base, mode)

\* L4 a pattern without wildcards is a comparison of canonical forms: absolute/relative = the pattern's
\*    components are a prefix of the path's, free = they occur in it as a contiguous run
IsLiteral(p) == \A k \in DOMAIN p : p[k] \notin {"*", "?"}
RunAt(pc, tc, k) == Len(tc) >= k + Len(pc) /\ SubSeq(tc, k + 1, k + Len(pc)) = pc
LawLiteral(p, t, base) ==
    (IsLiteral(p) /\ ~Trailing(p) /\ ~Undocumented(p, t, base) /\ ~RootPattern(p, base)
       /\ IsAbs(PathString(t, base))) =>
      LET pc == CanonComps(PatString(p, base))
          tc == CanonComps(PathString(t, base))
      IN Must(p, t, base, "reg") =
           IF IsReal(p) THEN IsAbs(PatString(p, base)) /\ RunAt(pc, tc, 0)
           ELSE \E k \in 0..Len(tc) : RunAt(pc, tc, k)

\* L5 a pattern that matches a directory matches everything below it (this is what lets the file lister
\*    prune ignored directories); mode matters only for patterns with a trailing separator; Must => May
LawBelow(p, t, base) ==
    /\ (t # <<>> /\ Last(t) # Sep /\ ~RootPattern(p, base) /\ ~Undocumented(p, t, base) /\ Must(p, t, base, "dir")) =>
          \A mode \in Modes : Must(p, t \o <<Sep, "x">>, base, mode)
    /\ (t # <<>> /\ Last(t) # Sep /\ ~Undocumented(p, t, base) /\ May(p, t, base, "dir")) =>
          \A mode \in Modes : May(p, t \o <<Sep, "x">>, base, mode)
    /\ ~Trailing(p) => Verdict(p, t, base, "reg") = Verdict(p, t, base, "dir")
    /\ (~Undocumented(p, t, base) /\ Must(p, t, base, "reg")) => May(p, t, base, "dir")
    /\ \A mode \in Modes : Must(p, t, base, mode) => May(p, t, base, mode)

\* the counterexamples of a law over a domain
Refuting1(L(_), S) == {s \in S : ~L(s)}
Refuting2(L(_, _), S, B) == {x \in S \X B : ~L(x[1], x[2])}
Refuting3(L(_, _, _), P, T, B) == {x \in P \X T \X B : ~L(x[1], x[2], x[3])}
=============================================================================
