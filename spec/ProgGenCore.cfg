
