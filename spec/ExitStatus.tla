----------------------------- MODULE ExitStatus -----------------------------
(***************************************************************************)
(* C25: the exit status as a function of what was reported.                *)
(*                                                                         *)
(*   gen   (IOEnv.MODE = "gen")   TLC enumerates the case space and writes  *)
(*         it to IOEnv.OUT                                                  *)
(*   judge (IOEnv.MODE = "judge") TLC reads the observations IOEnv.OBS      *)
(*         (case + reported findings + exit status of the real binary) and  *)
(*         writes the cases whose exit status is not the one the property   *)
(*         demands to IOEnv.OUT                                             *)
(*                                                                         *)
(* The expectation is stated over the findings that were REPORTED (that is  *)
(* what the property says), not over what should have been reported.        *)
(***************************************************************************)
EXTENDS Integers, Sequences, FiniteSets, TLC, Json, IOUtils, SequencesExt

\* ---------------------------------------------------------------- case space
ExitCodes == {-1, 0, 1, 7}                       \* -1: option absent (default 0)
\* --exitcode-suppressions entries  [id, file, line]  ("" / -1 = not given)
NoFailForms == { [id |-> "zerodiv", file |-> "", line |-> -1],
                 [id |-> "nullPointer", file |-> "f1.c", line |-> -1],
                 [id |-> "zerodiv", file |-> "f1.c", line |-> -1],          \* other file: matches nothing
                 [id |-> "nullPointer", file |-> "f1.c", line |-> 1],
                 [id |-> "unmatchedSuppression", file |-> "", line |-> -1],
                 [id |-> "ctunullpointer", file |-> "", line |-> -1] }
\* --suppress entries
NoMsgForms == { [id |-> "zerodiv", file |-> "", line |-> -1],
                [id |-> "nullPointer", file |-> "f1.c", line |-> -1],
                [id |-> "uninitvar", file |-> "", line |-> -1] }            \* never matches: unmatched with information
Executors == {"single", "thread", "process"}
Projects == {"plain",      \* f0.c: zerodiv, f1.c: nullPointer, f2.c: clean
             "clean",      \* no findings at all
             "wp"}         \* only a cross translation unit finding (ctunullpointer)

SubsetsUpTo(S, n) == {T \in SUBSET S : Cardinality(T) <= n}

Cases ==
  { [proj |-> p, exitcode |-> e, nofail |-> SetToSeq(nf), nomsg |-> SetToSeq(nm), info |-> i, exec |-> x, builddir |-> b, invalid |-> ""] :
      p \in Projects, e \in ExitCodes, nf \in SubsetsUpTo(NoFailForms, 2), nm \in SubsetsUpTo(NoMsgForms, 2),
      i \in BOOLEAN, x \in Executors, b \in BOOLEAN }

\* malformed command lines: the run must end with status 1
InvalidArgs == { "--error-exitcode=", "--error-exitcode=foo", "-j0", "-jx", "--enable=doesnotexist", "--std=c++0", "--platform=nosuch",
                 "--template", "--suppress=", "--xml-version=9", "--max-configs=0", "--no-such-option", "--file-list",
                 "--check-level=nosuch", "--executor=nosuch", "--max-ctu-depth=x", "--output-format=nosuch" }
InvalidCases ==
  { [proj |-> "plain", exitcode |-> e, nofail |-> <<>>, nomsg |-> <<>>, info |-> FALSE, exec |-> "single", builddir |-> FALSE, invalid |-> a] :
      a \in InvalidArgs, e \in {-1, 7} }

\* ---------------------------------------------------------------- the property

\* an exit-code suppression matches a reported finding (exact id / file / line forms only are generated)
NoFailMatch(s, f) == /\ s.id = f.id
                     /\ s.file = "" \/ s.file = f.file
                     /\ s.line = -1 \/ s.line = f.line

Counts(c, f) == /\ f.id # "checkersReport"
                /\ ~\E s \in ToSet(c.nofail) : NoFailMatch(s, f)

E(c) == IF c.exitcode = -1 THEN 0 ELSE c.exitcode

Expected(o) ==
  IF o.case.invalid # "" THEN 1
  ELSE IF \E f \in ToSet(o.findings) : Counts(o.case, f) THEN E(o.case) ELSE 0

\* ---------------------------------------------------------------- gen / judge
Mode == IOEnv.MODE

AllCases == SetToSeq(Cases) \o SetToSeq(InvalidCases)

Obs == IF Mode = "judge" THEN ndJsonDeserialize(IOEnv.OBS) ELSE <<>>
BadIdx == {i \in DOMAIN Obs : Obs[i].exit # Expected(Obs[i])}
\* classification of a deviation (used as the identity of a known finding): would the exit status be right if
\* unmatchedSuppression reports were never exempted by an exit-code suppression?
CountsAlt(c, f) == Counts(c, f) \/ f.id = "unmatchedSuppression"
ExpectedAlt(o) ==
  IF o.case.invalid # "" THEN 1
  ELSE IF \E f \in ToSet(o.findings) : CountsAlt(o.case, f) THEN E(o.case) ELSE 0
Class(o) == IF o.exit = ExpectedAlt(o) THEN "unmatchedSuppression-not-exempted-by-exitcode-suppressions" ELSE "other"

Bad == [i \in 1..Cardinality(BadIdx) |->
          LET o == Obs[SetToSeq(BadIdx)[i]] IN [case |-> o.case, findings |-> o.findings, exit |-> o.exit, expected |-> Expected(o), class |-> Class(o)]]

ASSUME Mode = "gen" =>
         /\ PrintT(<<"CASES", Len(AllCases)>>)
         /\ ndJsonSerialize(IOEnv.OUT, AllCases)
ASSUME Mode = "judge" =>
         /\ PrintT(<<"JUDGED", Len(Obs), "BAD", Cardinality(BadIdx)>>)
         /\ ndJsonSerialize(IOEnv.OUT, Bad)
=============================================================================
