-------------------------------- MODULE CInt --------------------------------
(***************************************************************************)
(* Unbounded integers for the C/C++ value specifications (C10, C09).       *)
(*                                                                         *)
(* TLC's integers are 32 bit, C's are up to 64 bit and intermediate        *)
(* results (products, 2^64) are larger.  A natural number is therefore a   *)
(* little-endian sequence of byte limbs (0..255) without leading zero      *)
(* limbs (<<>> is 0); every primitive step stays below 2^31: the largest   *)
(* intermediate is limb*k + carry with k < 2^23.                           *)
(* An integer is [neg, mag] with mag a natural and no negative zero.       *)
(*                                                                         *)
(* The operators are defined by the school-book algorithms; the ASSUMEs of *)
(* CIntLaws.tla check them against TLC's own arithmetic on a small range   *)
(* and against known 64-bit constants.                                     *)
(***************************************************************************)
EXTENDS Integers, Sequences

--------------------------------------------------------------------------
(* naturals *)

RECURSIVE NNorm(_)
NNorm(a) == IF a = <<>> THEN <<>>
            ELSE IF a[Len(a)] = 0 THEN NNorm(SubSeq(a, 1, Len(a) - 1)) ELSE a

RECURSIVE NFromSmall(_)
NFromSmall(n) == IF n = 0 THEN <<>> ELSE <<n % 256>> \o NFromSmall(n \div 256)

\* only for values below 2^31
RECURSIVE NToSmall(_)
NToSmall(a) == IF a = <<>> THEN 0 ELSE a[1] + 256 * NToSmall(Tail(a))

NFitsSmall(a) == Len(a) <= 3 \/ (Len(a) = 4 /\ a[4] < 128)

Limb(a, i) == IF i <= Len(a) THEN a[i] ELSE 0
TailE(a) == IF a = <<>> THEN <<>> ELSE Tail(a)

RECURSIVE NAddC(_, _, _)
NAddC(a, b, c) ==
  IF a = <<>> /\ b = <<>> THEN (IF c = 0 THEN <<>> ELSE <<c>>)
  ELSE LET s == Limb(a, 1) + Limb(b, 1) + c
       IN  <<s % 256>> \o NAddC(TailE(a), TailE(b), s \div 256)
NAdd(a, b) == NAddC(a, b, 0)

RECURSIVE NCmpAt(_, _, _)
NCmpAt(a, b, i) == IF i = 0 THEN 0
                   ELSE IF a[i] < b[i] THEN -1
                   ELSE IF a[i] > b[i] THEN 1
                   ELSE NCmpAt(a, b, i - 1)
\* -1, 0, 1
NCmp(a, b) == IF Len(a) < Len(b) THEN -1
              ELSE IF Len(a) > Len(b) THEN 1
              ELSE NCmpAt(a, b, Len(a))
NLe(a, b) == NCmp(a, b) <= 0
NLt(a, b) == NCmp(a, b) < 0

\* a - b for a >= b
RECURSIVE NSubB(_, _, _)
NSubB(a, b, br) ==
  IF a = <<>> THEN <<>>
  ELSE LET d == a[1] - Limb(b, 1) - br
       IN  <<IF d < 0 THEN d + 256 ELSE d>> \o NSubB(Tail(a), TailE(b), IF d < 0 THEN 1 ELSE 0)
NSub(a, b) == NNorm(NSubB(a, b, 0))

\* a * k + c for 0 <= k < 2^23, 0 <= c < 2^23
RECURSIVE NMulS(_, _, _)
NMulS(a, k, c) ==
  IF a = <<>> THEN NFromSmall(c)
  ELSE LET s == a[1] * k + c
       IN  <<s % 256>> \o NMulS(Tail(a), k, s \div 256)
NMulSmall(a, k) == NNorm(NMulS(a, k, 0))
NMulAdd(a, k, c) == NNorm(NMulS(a, k, c))

RECURSIVE NMul(_, _)
NMul(a, b) == IF b = <<>> \/ a = <<>> THEN <<>>
              ELSE NNorm(NAdd(NMulSmall(a, b[1]), <<0>> \o NMul(a, Tail(b))))

\* quotient and remainder by a small divisor 0 < k < 2^23
RECURSIVE NDivS(_, _, _)
NDivS(a, k, i) ==
  IF i > Len(a) THEN [q |-> <<>>, r |-> 0]
  ELSE LET h   == NDivS(a, k, i + 1)
           cur == h.r * 256 + a[i]
       IN  [q |-> <<cur \div k>> \o h.q, r |-> cur % k]
NDivSmall(a, k) == LET x == NDivS(a, k, 1) IN [q |-> NNorm(x.q), r |-> x.r]

Pow2Small == <<1, 2, 4, 8, 16, 32, 64, 128, 256>>   \* Pow2Small[i+1] = 2^i

BitLen8(x) == IF x >= 128 THEN 8 ELSE IF x >= 64 THEN 7 ELSE IF x >= 32 THEN 6 ELSE IF x >= 16 THEN 5
              ELSE IF x >= 8 THEN 4 ELSE IF x >= 4 THEN 3 ELSE IF x >= 2 THEN 2 ELSE IF x >= 1 THEN 1 ELSE 0
NBits(a) == IF a = <<>> THEN 0 ELSE 8 * (Len(a) - 1) + BitLen8(a[Len(a)])
\* bit i (i >= 0, bit 0 is the least significant)
NBit(a, i) == (Limb(a, i \div 8 + 1) \div Pow2Small[(i % 8) + 1]) % 2

Zeros(n) == [i \in 1..n |-> 0]
NShl(a, n) == IF a = <<>> THEN <<>> ELSE Zeros(n \div 8) \o NMulSmall(a, Pow2Small[(n % 8) + 1])
NShr(a, n) == IF n \div 8 >= Len(a) THEN <<>>
              ELSE NDivSmall(SubSeq(a, n \div 8 + 1, Len(a)), Pow2Small[(n % 8) + 1]).q
NPow2(n) == NShl(<<1>>, n)

\* a mod 2^bits
NTrunc(a, bits) ==
  LET full == bits \div 8
      part == bits % 8
  IN  IF Len(a) <= full THEN a
      ELSE NNorm(SubSeq(a, 1, full) \o (IF part = 0 THEN <<>> ELSE <<a[full + 1] % Pow2Small[part + 1]>>))

\* general division: binary long division, b # 0
RECURSIVE NDM(_, _, _)
NDM(a, b, i) ==
  IF i >= NBits(a) THEN [q |-> <<>>, r |-> <<>>]
  ELSE LET h  == NDM(a, b, i + 1)
           r2 == NMulAdd(h.r, 2, NBit(a, i))
           ge == NCmp(r2, b) >= 0
       IN  [q |-> NMulAdd(h.q, 2, IF ge THEN 1 ELSE 0), r |-> IF ge THEN NSub(r2, b) ELSE r2]
NDivMod(a, b) == NDM(a, b, 0)

\* bitwise operations limb by limb
RECURSIVE Bw(_, _, _, _)
Bw(op, x, y, n) ==
  IF n = 0 THEN 0
  ELSE LET bx == x % 2
           by == y % 2
           r  == CASE op = "and" -> bx * by
                   [] op = "or"  -> IF bx + by > 0 THEN 1 ELSE 0
                   [] op = "xor" -> (bx + by) % 2
       IN  r + 2 * Bw(op, x \div 2, y \div 2, n - 1)
NBitwise(op, a, b) ==
  LET n == IF Len(a) > Len(b) THEN Len(a) ELSE Len(b)
  IN  NNorm([i \in 1..n |-> Bw(op, Limb(a, i), Limb(b, i), 8)])

\* digits (most significant first) in a base <= 256
RECURSIVE NFromDigitsAcc(_, _, _)
NFromDigitsAcc(ds, base, acc) ==
  IF ds = <<>> THEN acc ELSE NFromDigitsAcc(Tail(ds), base, NMulAdd(acc, base, ds[1]))
NFromDigits(ds, base) == NFromDigitsAcc(ds, base, <<>>)

RECURSIVE NToDigitsRev(_, _)
NToDigitsRev(a, base) ==
  IF a = <<>> THEN <<>> ELSE LET d == NDivSmall(a, base) IN <<d.r>> \o NToDigitsRev(d.q, base)
Rev(s) == [i \in 1..Len(s) |-> s[Len(s) + 1 - i]]
NToDigits(a, base) == IF a = <<>> THEN <<0>> ELSE Rev(NToDigitsRev(a, base))

--------------------------------------------------------------------------
(* integers *)

IMk(neg, mag) == [neg |-> neg /\ mag # <<>>, mag |-> mag]
INat(mag) == [neg |-> FALSE, mag |-> mag]
IZero == INat(<<>>)
IOne == INat(<<1>>)
IFromSmall(n) == IF n < 0 THEN IMk(TRUE, NFromSmall(0 - n)) ELSE INat(NFromSmall(n))
IToSmall(x) == IF x.neg THEN 0 - NToSmall(x.mag) ELSE NToSmall(x.mag)
IIsZero(x) == x.mag = <<>>

INeg(x) == IMk(~x.neg, x.mag)
IAdd(x, y) ==
  IF x.neg = y.neg THEN IMk(x.neg, NAdd(x.mag, y.mag))
  ELSE IF NCmp(x.mag, y.mag) >= 0 THEN IMk(x.neg, NSub(x.mag, y.mag))
  ELSE IMk(y.neg, NSub(y.mag, x.mag))
ISub(x, y) == IAdd(x, INeg(y))
IMul(x, y) == IMk(x.neg # y.neg, NMul(x.mag, y.mag))
\* C semantics: quotient truncated towards zero, remainder has the sign of the dividend; y # 0
IDiv(x, y) == IMk(x.neg # y.neg, NDivMod(x.mag, y.mag).q)
IRem(x, y) == IMk(x.neg, NDivMod(x.mag, y.mag).r)
ICmp(x, y) ==
  IF x.neg /\ ~y.neg THEN -1
  ELSE IF ~x.neg /\ y.neg THEN 1
  ELSE IF x.neg THEN NCmp(y.mag, x.mag) ELSE NCmp(x.mag, y.mag)
ILt(x, y) == ICmp(x, y) < 0
ILe(x, y) == ICmp(x, y) <= 0

\* the value of x modulo 2^bits as a natural (two's complement bit pattern)
IBits(x, bits) ==
  LET m == NTrunc(x.mag, bits)
  IN  IF x.neg /\ m # <<>> THEN NSub(NPow2(bits), m) ELSE m
\* the integer a bit pattern of the given width denotes
IOfBits(u, bits, signed) ==
  IF signed /\ NBit(u, bits - 1) = 1 THEN IMk(TRUE, NSub(NPow2(bits), u)) ELSE INat(u)
\* conversion to an integer type of the given width: reduction modulo 2^bits
IWrap(x, bits, signed) == IOfBits(IBits(x, bits), bits, signed)
IFits(x, bits, signed) == IWrap(x, bits, signed) = x
IMax(bits, signed) == INat(NSub(NPow2(IF signed THEN bits - 1 ELSE bits), <<1>>))
IMin(bits, signed) == IF signed THEN IMk(TRUE, NPow2(bits - 1)) ELSE IZero

--------------------------------------------------------------------------
(* decimal text: sequences of one-character strings *)

DigitCh == <<"0", "1", "2", "3", "4", "5", "6", "7", "8", "9", "a", "b", "c", "d", "e", "f">>
DigitOf(c) ==
  CASE c = "0" -> 0 [] c = "1" -> 1 [] c = "2" -> 2 [] c = "3" -> 3 [] c = "4" -> 4
    [] c = "5" -> 5 [] c = "6" -> 6 [] c = "7" -> 7 [] c = "8" -> 8 [] c = "9" -> 9
    [] c \in {"a", "A"} -> 10 [] c \in {"b", "B"} -> 11 [] c \in {"c", "C"} -> 12
    [] c \in {"d", "D"} -> 13 [] c \in {"e", "E"} -> 14 [] c \in {"f", "F"} -> 15
IsDecDigit(c) == c \in {"0", "1", "2", "3", "4", "5", "6", "7", "8", "9"}

NToDecChars(a) == LET d == NToDigits(a, 10) IN [i \in 1..Len(d) |-> DigitCh[d[i] + 1]]
IToDecChars(x) == (IF x.neg THEN <<"-">> ELSE <<>>) \o NToDecChars(x.mag)
NFromDecChars(cs) == NFromDigits([i \in 1..Len(cs) |-> DigitOf(cs[i])], 10)
\* "-123" / "123"
IFromDecChars(cs) == IF cs # <<>> /\ cs[1] = "-" THEN IMk(TRUE, NFromDecChars(Tail(cs)))
                     ELSE INat(NFromDecChars(cs))
IsDecChars(cs) == /\ cs # <<>>
                  /\ LET d == IF cs[1] = "-" THEN Tail(cs) ELSE cs
                     IN  d # <<>> /\ \A i \in 1..Len(d) : IsDecDigit(d[i])

RECURSIVE Join(_)
Join(s) == IF s = <<>> THEN "" ELSE s[1] \o Join(Tail(s))
IToDecStr(x) == Join(IToDecChars(x))
=============================================================================
