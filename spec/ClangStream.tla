------------------------------ MODULE ClangStream ------------------------------
(***************************************************************************)
(* C35, "never crashes", the part in front of the importer: how the text   *)
(* that CppCheck::checkClang (lib/cppcheck.cpp) hands to                   *)
(* clangimport::parseClangAstDump comes about.                             *)
(*                                                                         *)
(* checkClang starts `clang -fsyntax-only -Xclang -ast-dump ...` through    *)
(* popen and reads the pipe that is clang's fd 1.  Without a build         *)
(* directory the command ends in "2>&1": fd 2 leads into the same pipe     *)
(* (merged); with a build directory fd 2 is a file of its own.             *)
(*                                                                         *)
(* The clang process, one action per write(2) it makes:                    *)
(*   Diag          a piece of a diagnostic, written to fd 2 unbuffered     *)
(*                 while the translation unit is parsed / analysed         *)
(*   BeginDump     the AST consumer starts to print (internal)             *)
(*   FillAndFlush  the dump filled the stdout buffer (bufsize bytes, or a   *)
(*                 multiple for one long item): one write to fd 1          *)
(*   EndDump(r)    the dump is complete, r < bufsize bytes of it are       *)
(*                 still in the buffer (internal)                          *)
(*   SummaryWrite  a piece of "N warnings generated.", written to fd 2     *)
(*                 - clang prints it only when carets are shown            *)
(*                 (CompilerInstance::ExecuteAction), i.e. unless it was   *)
(*                 started with -fno-caret-diagnostics                     *)
(*   SummaryDone   (internal)                                              *)
(*   Exit          the rest of the buffer is written to fd 1 at exit       *)
(*                                                                         *)
(* pipe is what cppcheck reads (adjacent writes of the same kind are one   *)
(* element).  The importer                                                 *)
(* takes every line that contains a '-' for an AST node whose depth is     *)
(* the column of that '-'; it is only defined on an undisturbed dump:      *)
(*   Intact   the bytes of the dump are contiguous in the pipe.            *)
(* Intact holds for every buffer size and every dump length iff the        *)
(* summary is not printed or fd 2 is not merged (ClangStream.cfg: the      *)
(* command line of the code; ClangStreamNeg.cfg: with carets, the          *)
(* invariant is violated - the stream of the defect fixed in 3d9c4e6).     *)
(***************************************************************************)
EXTENDS Integers, Sequences, TLC

CONSTANTS CaretsSet,   \* subset of BOOLEAN: clang started without -fno-caret-diagnostics ?
          MergedSet,   \* subset of BOOLEAN: "2>&1" ?
          BufSet,      \* possible sizes of clang's stdout buffer
          MaxDump,     \* bound: bytes of AST dump
          MaxDiag,     \* bound: writes of diagnostics
          MaxSum       \* bound: writes of the summary line

VARIABLES carets, merged, bufsize,   \* fixed per run
          phase,                     \* "parse" | "dump" | "summary" | "exit" | "done"
          flushed,                   \* bytes of the dump written to fd 1
          tail,                      \* bytes of the dump in the buffer after EndDump
          ndiag, nsum,               \* writes of diagnostics / of the summary so far
          pipe,                      \* what cppcheck reads: <<[k |-> "ast" | "diag", n |-> bytes]>>, run-length form
          errw                       \* writes that went to the separate stderr file

svars == <<carets, merged, bufsize, phase, flushed, tail, ndiag, nsum, pipe, errw>>

\* one more write of kind k arrives in the pipe
Put(q, k, n) == IF q # <<>> /\ q[Len(q)].k = k
                THEN [q EXCEPT ![Len(q)].n = @ + n]
                ELSE Append(q, [k |-> k, n |-> n])

Start(c, m, b) ==
  /\ carets' = c /\ merged' = m /\ bufsize' = b
  /\ phase' = "parse" /\ flushed' = 0 /\ tail' = 0 /\ ndiag' = 0 /\ nsum' = 0 /\ pipe' = <<>> /\ errw' = 0

Init ==
  /\ carets \in CaretsSet /\ merged \in MergedSet /\ bufsize \in BufSet
  /\ phase = "parse" /\ flushed = 0 /\ tail = 0 /\ ndiag = 0 /\ nsum = 0 /\ pipe = <<>> /\ errw = 0

\* a write to fd 2
Err == IF merged THEN pipe' = Put(pipe, "diag", 0) /\ errw' = errw
                 ELSE pipe' = pipe /\ errw' = errw + 1

Diag ==
  /\ phase = "parse" /\ ndiag < MaxDiag
  /\ ndiag' = ndiag + 1 /\ Err
  /\ UNCHANGED <<carets, merged, bufsize, phase, flushed, tail, nsum>>

BeginDump ==
  /\ phase = "parse" /\ phase' = "dump"
  /\ UNCHANGED <<carets, merged, bufsize, flushed, tail, ndiag, nsum, pipe, errw>>

\* k = 1: the buffer is full.  k > 1: an item longer than the buffer arrives while the buffer is empty and
\* llvm::raw_ostream::write hands the largest multiple of the buffer size straight to write(2).
FillAndFlush(k) ==
  /\ phase = "dump" /\ k >= 1 /\ flushed + k * bufsize <= MaxDump
  /\ flushed' = flushed + k * bufsize /\ pipe' = Put(pipe, "ast", k * bufsize)
  /\ UNCHANGED <<carets, merged, bufsize, phase, tail, ndiag, nsum, errw>>

EndDump(r) ==
  /\ phase = "dump" /\ r >= 0 /\ r < bufsize /\ flushed + r <= MaxDump
  /\ tail' = r /\ phase' = "summary"
  /\ UNCHANGED <<carets, merged, bufsize, flushed, ndiag, nsum, pipe, errw>>

SummaryWrite ==
  /\ phase = "summary" /\ carets /\ ndiag > 0 /\ nsum < MaxSum
  /\ nsum' = nsum + 1 /\ Err
  /\ UNCHANGED <<carets, merged, bufsize, phase, flushed, tail, ndiag>>

SummaryDone ==
  /\ phase = "summary" /\ (carets /\ ndiag > 0 => nsum > 0)
  /\ phase' = "exit"
  /\ UNCHANGED <<carets, merged, bufsize, flushed, tail, ndiag, nsum, pipe, errw>>

Exit ==
  /\ phase = "exit" /\ phase' = "done"
  /\ pipe' = IF tail > 0 THEN Put(pipe, "ast", tail) ELSE pipe
  /\ flushed' = flushed + tail /\ tail' = 0
  /\ UNCHANGED <<carets, merged, bufsize, ndiag, nsum, errw>>

Next == \/ Diag \/ BeginDump \/ (\E k \in 1..2 : FillAndFlush(k)) \/ (\E r \in 0..(bufsize - 1) : EndDump(r))
        \/ SummaryWrite \/ SummaryDone \/ Exit

Spec == Init /\ [][Next]_svars

-----------------------------------------------------------------------------
TypeOK ==
  /\ carets \in BOOLEAN /\ merged \in BOOLEAN /\ bufsize \in Nat \ {0}
  /\ phase \in {"parse", "dump", "summary", "exit", "done"}
  /\ flushed \in Nat /\ tail \in Nat /\ tail < bufsize /\ ndiag \in Nat /\ nsum \in Nat /\ errw \in Nat
  /\ \A i \in 1..Len(pipe) : pipe[i].k \in {"ast", "diag"}

\* the bytes of the dump are contiguous in what cppcheck reads
Intact == \A i, j, k \in 1..Len(pipe) :
            (i < j /\ j < k /\ pipe[i].k = "ast" /\ pipe[k].k = "ast") => pipe[j].k = "ast"

RECURSIVE AstBytes(_)
AstBytes(q) == IF q = <<>> THEN 0 ELSE (IF Head(q).k = "ast" THEN Head(q).n ELSE 0) + AstBytes(Tail(q))

\* nothing of the dump is lost or duplicated; a separate stderr never shows up in the pipe
Delivered ==
  /\ AstBytes(pipe) = flushed
  /\ ~merged => \A i \in 1..Len(pipe) : pipe[i].k = "ast"
  /\ merged => errw = 0

=============================================================================
