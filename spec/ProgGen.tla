------------------------------- MODULE ProgGen -------------------------------
(***************************************************************************)
(* The program format of the MiniC checks (C01-C04) and the exhaustive     *)
(* small core of programs.                                                  *)
(*                                                                         *)
(* A program is a record                                                    *)
(*    [name, plat, funcs, nodes, consts]                                    *)
(*    funcs[i] = [name, ret, np, vars, body]   funcs[1] is the entry         *)
(*    vars[j]  = [name, ty, n, pt]   ty: an integer type, "ptr" (pt pointee) *)
(*                                    or "arr" (pt element type, n length)   *)
(*    nodes[id] = [k, op, a, b, c, d, v, ty, fn, ss]   the AST as a table    *)
(* Children are referenced by id and always have a smaller id than their    *)
(* parent, so every recursion over the table terminates.  0 = "no child".    *)
(*                                                                         *)
(*  expressions   num(v, op = suffix)  var(v = variable)  un(op, a)          *)
(*                bin(op, a, b)  land(a, b)  lor(a, b)  cond(a, b, c)        *)
(*                asg(op, a = lvalue, b)  inc(op, v = 1 prefix / 0 postfix, a)*)
(*                deref(a)  idx(a = array variable, b)  addr(a)  cast(a)      *)
(*                callx(v = function, ss = arguments)                        *)
(*  statements    expr(a)  block(ss)  if(a, b, c)  while(a, b)                *)
(*                dowhile(a = condition, b = body)                           *)
(*                for(a = init, b = condition, c = step, d = body)           *)
(*                switch(a, ss = cases)  case(op = "case"|"default", v, ss)  *)
(*                break  continue  ret(a)  call(a = asg node or 0, b = callx)*)
(*                                                                         *)
(* Larger programs come from the seeded generator drivers/minic_gen.py;     *)
(* TLC checks WFProg and TypesOK for every program of a batch before it      *)
(* executes it (MiniC.tla), so the generator cannot silently leave the       *)
(* format, and the types it wrote on the nodes are re-derived here.          *)
(* The core (ProgGenCore.tla, CorePrograms) is enumerated by TLC itself and      *)
(* written as trees; Python only numbers the nodes.                          *)
(***************************************************************************)
EXTENDS MiniCTypes, FiniteSets, TLC

ExprKinds == {"num", "var", "un", "bin", "land", "lor", "cond", "asg", "inc", "deref", "idx", "addr", "cast", "callx"}
StmtKinds == {"expr", "block", "if", "while", "dowhile", "for", "switch", "case", "break", "continue", "ret", "call"}
LvalKinds == {"var", "deref", "idx"}
ArithOps  == {"+", "-", "*", "/", "%", "&", "|", "^"}
ShiftOps  == {"<<", ">>"}
CmpOps    == {"<", "<=", ">", ">=", "==", "!="}
AsgOps    == {"=", "+=", "-=", "*=", "/=", "%=", "&=", "|=", "^=", "<<=", ">>="}

\* the binary operator a compound assignment applies
BaseOp(op) == CASE op = "+=" -> "+" [] op = "-=" -> "-" [] op = "*=" -> "*" [] op = "/=" -> "/" [] op = "%=" -> "%"
                [] op = "&=" -> "&" [] op = "|=" -> "|" [] op = "^=" -> "^" [] op = "<<=" -> "<<" [] op = ">>=" -> ">>"

Nd(p, id)  == p.nodes[id]
Fn(p, id)  == p.funcs[Nd(p, id).fn]
VarRec(p, id) == Fn(p, id).vars[Nd(p, id).v]          \* for var nodes

-----------------------------------------------------------------------------
(* Static type of an expression node, derived from the leaves (6.5).        *)
RECURSIVE TypeOf(_, _)
TypeOf(p, id) ==
  LET n == Nd(p, id) pl == p.plat IN
  CASE n.k = "num"   -> LitType(pl, Abs(n.v), n.op)
    [] n.k = "var"   -> VarRec(p, id).ty
    [] n.k = "un"    -> IF n.op = "!" THEN "int" ELSE Promote(pl, TypeOf(p, n.a))
    [] n.k = "bin"   -> IF n.op \in CmpOps THEN "int"
                        ELSE IF n.op \in ShiftOps THEN Promote(pl, TypeOf(p, n.a))
                        ELSE Common(pl, TypeOf(p, n.a), TypeOf(p, n.b))
    [] n.k \in {"land", "lor"} -> "int"
    [] n.k = "cond"  -> Common(pl, TypeOf(p, n.b), TypeOf(p, n.c))
    [] n.k \in {"asg", "inc"} -> TypeOf(p, n.a)
    [] n.k = "deref" -> Fn(p, id).vars[Nd(p, n.a).v].pt
    [] n.k = "idx"   -> Fn(p, id).vars[Nd(p, n.a).v].pt
    [] n.k = "addr"  -> "ptr"
    [] n.k = "cast"  -> n.ty
    [] n.k = "callx" -> p.funcs[n.v].ret

IsExpr(p, id) == id # 0 /\ Nd(p, id).k \in ExprKinds
IsStmt(p, id) == id # 0 /\ Nd(p, id).k \in StmtKinds
IntTyped(p, id) == Nd(p, id).ty \in IntTypes

\* Local well-formedness of one node.
WFNode(p, id) ==
  LET n == Nd(p, id)
      child(c) == c \in 1..(id - 1) /\ Nd(p, c).fn = n.fn
      expr(c)  == child(c) /\ IsExpr(p, c)
      stmt(c)  == child(c) /\ IsStmt(p, c)
      lval(c)  == child(c) /\ Nd(p, c).k \in LvalKinds
      f == p.funcs[n.fn]
  IN /\ n.fn \in 1..Len(p.funcs)
     /\ CASE n.k = "num"   -> n.op \in {"", "u", "L", "uL"} /\ (n.v < 0 => n.op = "") /\ n.v >= -TMAX /\ n.v <= TMAX
          [] n.k = "var"   -> n.v \in 1..Len(f.vars)
          [] n.k = "un"    -> n.op \in {"-", "~", "!", "+"} /\ expr(n.a) /\ (n.op # "!" => IntTyped(p, n.a))
          [] n.k = "bin"   -> /\ n.op \in ArithOps \cup ShiftOps \cup CmpOps /\ expr(n.a) /\ expr(n.b)
                              /\ \/ IntTyped(p, n.a) /\ IntTyped(p, n.b)
                                 \/ n.op \in {"==", "!="}               \* pointer against pointer / null
          [] n.k \in {"land", "lor"} -> expr(n.a) /\ expr(n.b)
          [] n.k = "cond"  -> expr(n.a) /\ expr(n.b) /\ expr(n.c) /\ IntTyped(p, n.b) /\ IntTyped(p, n.c)
          [] n.k = "asg"   -> n.op \in AsgOps /\ lval(n.a) /\ expr(n.b) /\ (Nd(p, n.a).ty = "ptr" => n.op = "=")
          [] n.k = "inc"   -> n.op \in {"++", "--"} /\ n.v \in {0, 1} /\ lval(n.a) /\ IntTyped(p, n.a)
          [] n.k = "deref" -> child(n.a) /\ Nd(p, n.a).k = "var" /\ Nd(p, n.a).ty = "ptr"
          [] n.k = "idx"   -> child(n.a) /\ Nd(p, n.a).k = "var" /\ Nd(p, n.a).ty = "arr" /\ expr(n.b) /\ IntTyped(p, n.b)
          [] n.k = "addr"  -> lval(n.a) /\ Nd(p, n.a).k # "deref"
          [] n.k = "cast"  -> n.ty \in IntTypes /\ expr(n.a) /\ IntTyped(p, n.a)
          [] n.k = "callx" -> /\ n.v \in 2..Len(p.funcs) /\ n.v # n.fn
                              /\ Len(n.ss) = p.funcs[n.v].np
                              /\ \A i \in 1..Len(n.ss) : expr(n.ss[i])
          [] n.k = "expr"  -> expr(n.a)
          [] n.k = "block" -> \A i \in 1..Len(n.ss) : stmt(n.ss[i])
          [] n.k = "if"    -> expr(n.a) /\ stmt(n.b) /\ (n.c # 0 => stmt(n.c))
          [] n.k \in {"while", "dowhile"} -> expr(n.a) /\ stmt(n.b)
          [] n.k = "for"   -> (n.a # 0 => expr(n.a)) /\ (n.b # 0 => expr(n.b)) /\ (n.c # 0 => expr(n.c)) /\ stmt(n.d)
          [] n.k = "switch" -> expr(n.a) /\ IntTyped(p, n.a) /\ \A i \in 1..Len(n.ss) : child(n.ss[i]) /\ Nd(p, n.ss[i]).k = "case"
          [] n.k = "case"  -> n.op \in {"case", "default"} /\ \A i \in 1..Len(n.ss) : stmt(n.ss[i])
          [] n.k \in {"break", "continue"} -> TRUE
          [] n.k = "ret"   -> IF f.ret = "void" THEN n.a = 0 ELSE expr(n.a)
          [] n.k = "call"  -> /\ child(n.b) /\ Nd(p, n.b).k = "callx"
                              /\ (n.a # 0 => child(n.a) /\ Nd(p, n.a).k = "asg" /\ Nd(p, n.a).op = "=" /\ Nd(p, n.a).b = n.b)
          [] OTHER -> FALSE
     /\ (n.k \in ExprKinds => n.ty = TypeOf(p, id))          \* TypesOK: the annotation is the derived type

WFVar(p, v) == \/ v.ty \in IntTypes /\ v.n = 0
               \/ v.ty = "ptr" /\ v.pt \in IntTypes /\ v.n = 0
               \/ v.ty = "arr" /\ v.pt \in IntTypes /\ v.n \in 1..8

WFProg(p) ==
  /\ p.plat \in {"p16", "p32"}
  /\ Len(p.funcs) >= 1 /\ Len(p.funcs) <= 4
  /\ \A i \in 1..Len(p.funcs) :
        LET f == p.funcs[i] IN
        /\ f.np \in 0..Len(f.vars) /\ Len(f.vars) <= 60
        /\ \A j \in 1..Len(f.vars) : WFVar(p, f.vars[j])
        /\ \A j \in 1..f.np : f.vars[j].ty # "arr"
        /\ f.body \in 1..Len(p.nodes) /\ Nd(p, f.body).k = "block" /\ Nd(p, f.body).fn = i
        /\ (i = 1 => f.ret \in IntTypes /\ \A j \in 1..f.np : f.vars[j].ty \in IntTypes)
        /\ f.ret \in IntTypes \cup {"void"}
  /\ \A id \in 1..Len(p.nodes) : WFNode(p, id)

=============================================================================
