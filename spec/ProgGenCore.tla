----------------------------- MODULE ProgGenCore -----------------------------
(* The exhaustive core of the program space, enumerated by TLC and written as   *)
(* trees to IOEnv.OUT (one program per line).  Python numbers the nodes;        *)
(* MiniC.tla re-checks the result (WFProg, derived types) before executing it.  *)
EXTENDS ProgGen, Json, IOUtils, SequencesExt
-----------------------------------------------------------------------------
(* The exhaustive core: int f(int a) { int x;  x = P;  S1;  [S2;]  return x; } *)
(* over the two variables a (parameter, variable 1) and x (local, variable 2)  *)
(* and the constants 0, 1, 3.  Programs are written as trees (children        *)
(* nested instead of referenced).                                             *)
Num(v)         == [k |-> "num", v |-> v]
Var(x)         == [k |-> "var", v |-> x]
Un(op, e)      == [k |-> "un", op |-> op, a |-> e]
Bin(op, l, r)  == [k |-> "bin", op |-> op, a |-> l, b |-> r]
Asg(op, l, r)  == [k |-> "asg", op |-> op, a |-> l, b |-> r]
Inc(op, pre, l) == [k |-> "inc", op |-> op, v |-> pre, a |-> l]
SExpr(e)       == [k |-> "expr", a |-> e]
Block(ss)      == [k |-> "block", ss |-> ss]
IfS(c, s)      == [k |-> "if", a |-> c, b |-> Block(<<s>>)]
WhileS(c, s)   == [k |-> "while", a |-> c, b |-> Block(<<s>>)]
Ret(e)         == [k |-> "ret", a |-> e]

A == Var(1)
X == Var(2)
CoreTerms == {A, X, Num(0), Num(1), Num(3), Bin("+", X, Num(1)), Bin("+", A, Num(1)), Bin("-", A, X), Bin("*", X, Num(3)),
              Bin("&", A, Num(1)), Bin("+", X, A), Un("-", A)}
CoreConds == {Bin("<", A, Num(1)), Bin("==", A, Num(3)), Bin("<", X, A), Bin("==", X, Num(0)), Bin("!=", X, A), A,
              Un("!", X), Bin(">", X, Num(1))}
CoreStmts ==
       {SExpr(Asg("=", v, t)) : v \in {A, X}, t \in CoreTerms}
  \cup {SExpr(Inc(op, 0, v)) : op \in {"++", "--"}, v \in {A, X}}
  \cup {SExpr(Asg("+=", X, A)), SExpr(Asg("-=", A, Num(1)))}
  \cup {IfS(c, SExpr(Asg("=", X, t))) : c \in CoreConds, t \in {Num(0), Num(3), A, Bin("+", X, Num(1))}}
  \cup {IfS(c, Ret(t)) : c \in {Bin("<", A, Num(1)), Bin("==", X, Num(0)), Bin("<", X, A), A}, t \in {X, Num(1)}}
  \cup {WhileS(Bin("<", X, Num(3)), SExpr(Inc("++", 0, X))), WhileS(Bin("<", X, Bin("&", A, Num(3))), SExpr(Inc("++", 1, X)))}
CorePrologues == {Num(0), A}

\* (operators with a parameter: TLC evaluates zero-arity definitions at startup whether they are used or not)
CoreBodies(maxlen) == {<<s>> : s \in CoreStmts} \cup (IF maxlen < 2 THEN {} ELSE {<<s1, s2>> : s1 \in CoreStmts, s2 \in CoreStmts})

CoreProgram(pro, body) == Block(<<SExpr(Asg("=", X, pro))>> \o body \o <<Ret(X)>>)

CorePrograms(maxlen) == {CoreProgram(pro, b) : pro \in CorePrologues, b \in CoreBodies(maxlen)}
\* IOEnv.MAXLEN = "1": all programs with one statement between prologue and return; "2": one or two statements
ASSUME LET core == SetToSeq(CorePrograms(atoi(IOEnv.MAXLEN))) IN
       /\ PrintT(<<"CORE", Len(core), "statements", Cardinality(CoreStmts)>>)
       /\ ndJsonSerialize(IOEnv.OUT, core)
=============================================================================
