----------------------------- MODULE ProgGenCore -----------------------------
(* Enumerates the exhaustive core of ProgGen.tla and writes the programs (as   *)
(* trees) to IOEnv.OUT, one per line.  Python numbers the nodes; MiniC.tla      *)
(* re-checks the result (WFProg, derived types) before executing it.            *)
EXTENDS ProgGen, Json, IOUtils, SequencesExt
Core == SetToSeq(CorePrograms)
ASSUME PrintT(<<"CORE", Len(Core), "statements", Cardinality(CoreStmts)>>)
ASSUME ndJsonSerialize(IOEnv.OUT, Core)
=============================================================================
