INIT Init
NEXT Next
INVARIANT FactsHold
