---------------------------- MODULE ContainersConf ----------------------------
(* Agreement of the Containers semantics with libstdc++ (g++ -D_GLIBCXX_ASSERTIONS, *)
(* ASan + UBSan): Python records, TLC judges.  Row: [s, size, nat, nsize]            *)
(*   model "done" => native exit status 0 and the same final size of the returned    *)
(*   container; model "ub" => native run does not exit cleanly.                       *)
EXTENDS Integers, Sequences, TLC, Json, IOUtils
Obs == ndJsonDeserialize(IOEnv.OBS)
Agrees(o) == CASE o.s = "done" -> o.nat = 0 /\ o.nsize = <<o.size>>
               [] o.s = "ub"   -> o.nat # 0
               [] OTHER        -> TRUE
Bad == SelectSeq(Obs, LAMBDA o : ~Agrees(o))
ASSUME PrintT(<<"CONF", Len(Obs), "BAD", Len(Bad)>>)
ASSUME ndJsonSerialize(IOEnv.OUT, Bad)
=============================================================================
