\* clang's default (carets shown) with a stderr file of its own: the dump stays intact
SPECIFICATION Spec
CONSTANTS
  CaretsSet = {TRUE}
  MergedSet = {FALSE}
  BufSet = {1, 2, 3, 4}
  MaxDump = 9
  MaxDiag = 3
  MaxSum = 2
INVARIANT TypeOK
INVARIANT Intact
INVARIANT Delivered
CHECK_DEADLOCK FALSE
