-------------------------------- MODULE CLit --------------------------------
(***************************************************************************)
(* Literals and integer constant expressions of C11 / C++20(23) and their  *)
(* types and values per platform (C10; the literal types are also used by  *)
(* C09).  References: C11 6.4.4.1 (integer constants), 6.4.4.4 (character  *)
(* constants), 6.6 (constant expressions), 6.5.x; C++ [lex.icon],          *)
(* [lex.ccon], [lex.bool], [lex.fcon], [expr.*], [conv.integral].          *)
(*                                                                         *)
(* Text is a sequence of one-character strings.  Values are CInt integers. *)
(* Wherever the standards leave a result undefined or unspecified (signed  *)
(* overflow, shifting by too much or of negative values, division by zero) *)
(* evaluation yields ok = FALSE and nothing is judged.  Implementation-    *)
(* defined results that all compilers of the modelled platforms define the *)
(* same way and document (conversion to a signed type reduces modulo 2^N;  *)
(* a multi-character constant packs the low 8 bits of each character,      *)
(* first character most significant, into int) are specified that way and  *)
(* confirmed case by case by the second witness.                           *)
(***************************************************************************)
EXTENDS CTypes, CInt

--------------------------------------------------------------------------
(* Integer literals.                                                        *)
(* [base, prefix, digits, sep, suffix]: prefix in <<>>, <<"0">> (octal),    *)
(* <<"0","x">>, <<"0","X">>, <<"0","b">>, <<"0","B">>; digits as written    *)
(* (most significant first, either case); sep names the placement of digit  *)
(* separators ' (C++14); suffix as written.                                 *)

Lower(c) == CASE c = "U" -> "u" [] c = "L" -> "l" [] c = "Z" -> "z" [] OTHER -> c

\* separator after digit i (1 <= i < n)?   "first": after the first digit; "last": before the last digit;
\* "group": every 3 (decimal, octal) or 4 (hex, binary) digits counted from the right; "all": between all digits
SepAfter(style, base, n, i) ==
  CASE style = "none" -> FALSE
    [] style = "first" -> i = 1
    [] style = "last" -> i = n - 1
    [] style = "all" -> TRUE
    [] style = "group" -> LET g == IF base \in {10, 8} THEN 3 ELSE 4 IN (n - i) % g = 0

RECURSIVE DigitsWithSeps(_, _, _, _)
DigitsWithSeps(ds, style, base, i) ==
  IF i > Len(ds) THEN <<>>
  ELSE <<ds[i]>> \o (IF i < Len(ds) /\ SepAfter(style, base, Len(ds), i) THEN <<"'">> ELSE <<>>)
       \o DigitsWithSeps(ds, style, base, i + 1)

IntLitChars(l) == l.prefix \o DigitsWithSeps(l.digits, l.sep, l.base, 1) \o l.suffix
\* the token without separators (what a tokenizer keeps)
IntLitCharsNoSep(l) == l.prefix \o l.digits \o l.suffix

IntLitValue(l) == NFromDigits([i \in 1..Len(l.digits) |-> DigitOf(l.digits[i])], l.base)

\* suffix -> [u, len] with len in "", "l", "ll", "z"; [bad |-> TRUE] if it is not a suffix
SuffixKind(sfx) ==
  LET s == [i \in 1..Len(sfx) |-> Lower(sfx[i])]
      sameCaseLL == \A i \in 1..(Len(sfx) - 1) : (s[i] = "l" /\ s[i + 1] = "l") => sfx[i] = sfx[i + 1]
      K(u, len) == [bad |-> FALSE, u |-> u, len |-> len]
  IN  IF ~sameCaseLL THEN [bad |-> TRUE, u |-> FALSE, len |-> ""]
      ELSE CASE s = <<>> -> K(FALSE, "")
             [] s = <<"u">> -> K(TRUE, "")
             [] s = <<"l">> -> K(FALSE, "l")
             [] s = <<"l", "l">> -> K(FALSE, "ll")
             [] s = <<"z">> -> K(FALSE, "z")
             [] s \in {<<"u", "l">>, <<"l", "u">>} -> K(TRUE, "l")
             [] s \in {<<"u", "l", "l">>, <<"l", "l", "u">>} -> K(TRUE, "ll")
             [] s \in {<<"u", "z">>, <<"z", "u">>} -> K(TRUE, "z")
             [] OTHER -> [bad |-> TRUE, u |-> FALSE, len |-> ""]

(* C11 6.4.4.1p5 / C++ [lex.icon] table: the type of an integer literal is   *)
(* the first of the list in which its value can be represented.              *)
IntLitCandidates(l, P) ==
  LET k == SuffixKind(l.suffix)
      dec == l.base = 10
  IN  CASE k.len = "" /\ ~k.u -> IF dec THEN <<"int", "long", "llong">> ELSE <<"int", "uint", "long", "ulong", "llong", "ullong">>
        [] k.len = "" /\ k.u -> <<"uint", "ulong", "ullong">>
        [] k.len = "l" /\ ~k.u -> IF dec THEN <<"long", "llong">> ELSE <<"long", "ulong", "llong", "ullong">>
        [] k.len = "l" /\ k.u -> <<"ulong", "ullong">>
        [] k.len = "ll" /\ ~k.u -> IF dec THEN <<"llong">> ELSE <<"llong", "ullong">>
        [] k.len = "ll" /\ k.u -> <<"ullong">>
        [] k.len = "z" /\ ~k.u -> IF dec THEN <<SignedOf(P.sizeT)>> ELSE <<SignedOf(P.sizeT), P.sizeT>>
        [] k.len = "z" /\ k.u -> <<P.sizeT>>

ValFits(v, b, P) == IFits(v, Bits(b, P), IsSigned(b, P))

RECURSIVE FirstHolding(_, _, _)
FirstHolding(list, v, P) == IF list = <<>> THEN "?"
                            ELSE IF ValFits(v, list[1], P) THEN list[1]
                            ELSE FirstHolding(Tail(list), v, P)
\* "?" : no type of the list can represent the value (ill-formed / extended type): never generated.
\* Microsoft's compiler (and clang in its compatibility mode) keeps a non-decimal literal with suffix ll / i64 signed
\* even if only unsigned long long can represent it - a documented deviation from the ISO table: left open.
IntLitType(l, P) ==
  LET t == FirstHolding(IntLitCandidates(l, P), INat(IntLitValue(l)), P)
      k == SuffixKind(l.suffix)
  IN  IF P.msvc /\ k.len = "ll" /\ ~k.u /\ t = "ullong" THEN "?" ELSE t

--------------------------------------------------------------------------
(* Character literals: [prefix, elems]; prefix in <<>>, <<"L">>, <<"u">>,    *)
(* <<"U">>, <<"u","8">>.  An element is                                      *)
(*   [k |-> "ch",  c |-> a basic source character]                           *)
(*   [k |-> "esc", c |-> one of n t v b r f a \ ? ' " ]    simple escape      *)
(*   [k |-> "oct", ds |-> 1..3 octal digits]  [k |-> "hex", ds |-> hex digits]*)
(* (all three fields k, c, ds are always present; the unused one is empty)   *)
ElCh(c) == [k |-> "ch", c |-> c, ds |-> <<>>]
ElEsc(c) == [k |-> "esc", c |-> c, ds |-> <<>>]
ElOct(ds) == [k |-> "oct", c |-> "", ds |-> ds]
ElHex(ds) == [k |-> "hex", c |-> "", ds |-> ds]

Ascii(c) ==
  CASE c = " " -> 32 [] c = "!" -> 33 [] c = "#" -> 35 [] c = "%" -> 37 [] c = "0" -> 48 [] c = "1" -> 49
    [] c = "9" -> 57 [] c = "A" -> 65 [] c = "B" -> 66 [] c = "Z" -> 90 [] c = "_" -> 95
    [] c = "a" -> 97 [] c = "b" -> 98 [] c = "c" -> 99 [] c = "d" -> 100 [] c = "z" -> 122 [] c = "~" -> 126
PlainChars == {" ", "!", "#", "%", "0", "1", "9", "A", "B", "Z", "_", "a", "b", "c", "d", "z", "~"}
EscCode(c) ==
  CASE c = "n" -> 10 [] c = "t" -> 9 [] c = "v" -> 11 [] c = "b" -> 8 [] c = "r" -> 13 [] c = "f" -> 12
    [] c = "a" -> 7 [] c = "\\" -> 92 [] c = "?" -> 63 [] c = "'" -> 39 [] c = "\"" -> 34
SimpleEscapes == {"n", "t", "v", "b", "r", "f", "a", "\\", "?", "'", "\""}

ElemCode(e) ==
  CASE e.k = "ch" -> NFromSmall(Ascii(e.c))
    [] e.k = "esc" -> NFromSmall(EscCode(e.c))
    [] e.k = "oct" -> NFromDigits([i \in 1..Len(e.ds) |-> DigitOf(e.ds[i])], 8)
    [] e.k = "hex" -> NFromDigits([i \in 1..Len(e.ds) |-> DigitOf(e.ds[i])], 16)
ElemChars(e) ==
  CASE e.k = "ch" -> <<e.c>>
    [] e.k = "esc" -> <<"\\", e.c>>
    [] e.k = "oct" -> <<"\\">> \o e.ds
    [] e.k = "hex" -> <<"\\", "x">> \o e.ds

RECURSIVE ElemsChars(_)
ElemsChars(es) == IF es = <<>> THEN <<>> ELSE ElemChars(es[1]) \o ElemsChars(Tail(es))
CharLitChars(l) == l.prefix \o <<"'">> \o ElemsChars(l.elems) \o <<"'">>

\* the type of the code units of a character literal with the given prefix
CharLitUnit(prefix, lang, P) ==
  CASE prefix = <<>> -> "char"
    [] prefix = <<"L">> -> IF lang = "c" THEN P.wcharT ELSE "wchar_t"
    [] prefix = <<"u">> -> IF lang = "c" THEN "ushort" ELSE "char16_t"
    [] prefix = <<"U">> -> IF lang = "c" THEN "uint" ELSE "char32_t"
    [] prefix = <<"u", "8">> -> IF lang = "c" THEN "uchar" ELSE "char8_t"

(* C11 6.4.4.4p10: an integer character constant has type int (C) / char    *)
(* (C++, one character); prefixed ones have the unit type; a constant with  *)
(* several characters has type int.                                         *)
CharLitType(l, lang, P) ==
  IF l.prefix = <<>> THEN (IF Len(l.elems) > 1 \/ lang = "c" THEN "int" ELSE "char")
  ELSE CharLitUnit(l.prefix, lang, P)

\* an octal escape takes up to three octal digits, a hexadecimal one every following hex digit (6.4.4.4p7): an
\* element sequence is the literal's own decomposition only if no escape runs on into the next character
IsHexDigitCh(c) == c \in {"0", "1", "2", "3", "4", "5", "6", "7", "8", "9", "a", "b", "c", "d", "e", "f", "A", "B", "C", "D", "E", "F"}
IsOctDigitCh(c) == c \in {"0", "1", "2", "3", "4", "5", "6", "7"}
NoRunOn(es) ==
  \A i \in 1..(Len(es) - 1) :
     /\ ~(es[i].k = "hex" /\ es[i + 1].k = "ch" /\ IsHexDigitCh(es[i + 1].c))
     /\ ~(es[i].k = "oct" /\ Len(es[i].ds) < 3 /\ es[i + 1].k = "ch" /\ IsOctDigitCh(es[i + 1].c))

\* an escape must be in the range of the unsigned version of the unit type (6.4.4.4p9)
CharLitWellFormed(l, lang, P) ==
  LET w == Bits(CharLitUnit(l.prefix, lang, P), P)
  IN  /\ Len(l.elems) >= 1
      /\ NoRunOn(l.elems)
      /\ (l.prefix # <<>> => Len(l.elems) = 1)
      /\ Len(l.elems) <= 4
      /\ \A i \in 1..Len(l.elems) : NBits(ElemCode(l.elems[i])) <= w
      /\ (l.prefix = <<"u", "8">> => lang = "c++")

RECURSIVE PackChars(_, _)
PackChars(es, acc) ==
  IF es = <<>> THEN acc
  ELSE PackChars(Tail(es), NAdd(NShl(acc, 8), NTrunc(ElemCode(es[1]), 8)))

CharLitValue(l, lang, P) ==
  LET unit == CharLitUnit(l.prefix, lang, P)
  IN  IF Len(l.elems) = 1
      THEN \* the code converted to the unit type (plain char: sign as the platform's char), then to the literal's type
           IWrap(INat(ElemCode(l.elems[1])), Bits(unit, P), IsSigned(unit, P))
      ELSE IWrap(INat(PackChars(l.elems, <<>>)), Bits("int", P), TRUE)

--------------------------------------------------------------------------
(* Floating literals with exactly representable values:                     *)
(* [base (10 or 16), ip, fp (digit sequences), exp (small integer, "none" =  *)
(* absent -> 0), suffix].  Value = (ip.fp) * 10^exp  or  (ip.fp)_16 * 2^exp  *)
(* as a fraction [num, den] of naturals.                                    *)

RECURSIVE NPow(_, _)
NPow(b, n) == IF n = 0 THEN <<1>> ELSE NMulSmall(NPow(b, n - 1), b)

FloatLitFrac(l) ==
  LET ds == l.ip \o l.fp
      m == NFromDigits([i \in 1..Len(ds) |-> DigitOf(ds[i])], l.base)
      k == Len(l.fp)
      den0 == NPow(l.base, k)
      eb == IF l.base = 10 THEN 10 ELSE 2
  IN  IF l.exp >= 0 THEN [num |-> NMul(m, NPow(eb, l.exp)), den |-> den0]
      ELSE [num |-> m, den |-> NMul(den0, NPow(eb, 0 - l.exp))]
FloatLitType(l) == CASE l.suffix = <<>> -> "double" [] l.suffix \in {<<"f">>, <<"F">>} -> "float" [] l.suffix \in {<<"l">>, <<"L">>} -> "ldouble"
FracEq(x, y) == NMul(x.num, y.den) = NMul(y.num, x.den)
\* exactly representable in IEEE binary32 (hence in every floating type): x * 2^12 is an integer below 2^24
FracExactSmall(x) == LET s == NDivMod(NMul(x.num, NPow2(12)), x.den) IN s.r = <<>> /\ NBits(s.q) <= 24

RECURSIVE ExpChars(_)
ExpChars(n) == IF n < 10 THEN <<DigitCh[n + 1]>> ELSE ExpChars(n \div 10) \o <<DigitCh[(n % 10) + 1]>>
FloatLitChars(l) ==
  (IF l.base = 16 THEN <<"0", "x">> ELSE <<>>) \o l.ip \o (IF l.fp = <<>> /\ ~l.dot THEN <<>> ELSE <<".">> \o l.fp)
  \o (IF l.hasExp THEN <<IF l.base = 16 THEN "p" ELSE "e">> \o (IF l.exp < 0 THEN <<"-">> \o ExpChars(0 - l.exp) ELSE ExpChars(l.exp)) ELSE <<>>)
  \o l.suffix

(* Decimal text as printed by a tool ("0.5", "1000.0", "1e+20", "9.765625e-05", "-3.0") -> fraction.  *)
RECURSIVE SplitAt(_, _, _)
SplitAt(cs, c, i) == IF i > Len(cs) THEN 0 ELSE IF cs[i] = c THEN i ELSE SplitAt(cs, c, i + 1)
DecTextFrac(cs0) ==
  LET neg == cs0 # <<>> /\ cs0[1] = "-"
      cs == IF neg THEN Tail(cs0) ELSE cs0
      ePos == SplitAt(cs, "e", 1)
      mant == IF ePos = 0 THEN cs ELSE SubSeq(cs, 1, ePos - 1)
      expc == IF ePos = 0 THEN <<>> ELSE SubSeq(cs, ePos + 1, Len(cs))
      eNeg == expc # <<>> /\ expc[1] = "-"
      eDig == IF expc # <<>> /\ expc[1] \in {"-", "+"} THEN Tail(expc) ELSE expc
      e == IF eDig = <<>> THEN 0 ELSE NToSmall(NFromDecChars(eDig))
      dot == SplitAt(mant, ".", 1)
      ip == IF dot = 0 THEN mant ELSE SubSeq(mant, 1, dot - 1)
      fp == IF dot = 0 THEN <<>> ELSE SubSeq(mant, dot + 1, Len(mant))
      m == NFromDecChars(ip \o fp)
      den0 == NPow(10, Len(fp))
  IN  [neg |-> neg /\ m # <<>>,
       num |-> IF eNeg THEN m ELSE NMul(m, NPow(10, e)),
       den |-> IF eNeg THEN NMul(den0, NPow(10, e)) ELSE den0]
IsDecText(cs) == /\ cs # <<>>
                 /\ \A i \in 1..Len(cs) : IsDecDigit(cs[i]) \/ cs[i] \in {"-", "+", ".", "e"}
                 /\ \E i \in 1..Len(cs) : IsDecDigit(cs[i])

--------------------------------------------------------------------------
(* Integer constant expressions.  Nodes:                                     *)
(*   [k |-> "int",  l |-> integer literal]   [k |-> "chr", l |-> char lit]    *)
(*   [k |-> "bool", v |-> TRUE/FALSE]  (C++ true / false)                     *)
(*   [k |-> "un",  op, a]   op in - + ~ !                                     *)
(*   [k |-> "bin", op, a, b]                                                  *)
(*   [k |-> "cast", t, a]   t a base type name                                *)
(*   [k |-> "sizeofT", t]   t a type [b, p]      [k |-> "sizeofE", a]         *)
(*   [k |-> "cond", c, a, b]                                                  *)
(* Eval gives [ok, t (base type name), v (integer)].                          *)

V(t, v) == [ok |-> TRUE, t |-> t, v |-> v]
NoVal == [ok |-> FALSE, t |-> "?", v |-> IZero]

ConvTo(v, t, P) == IF t = "bool" THEN (IF IIsZero(v) THEN IZero ELSE IOne) ELSE IWrap(v, Bits(t, P), IsSigned(t, P))
Truth(b) == IF b THEN IOne ELSE IZero

\* the result of an arithmetic operation in type t: wraps for unsigned types, undefined on signed overflow
InType(x, t, P) == IF IsSigned(t, P) THEN (IF ValFits(x, t, P) THEN V(t, x) ELSE NoVal)
                   ELSE V(t, IWrap(x, Bits(t, P), FALSE))

EvalBin(op, x, y, lang, P) ==
  IF op \in LogicOps THEN
       V(TruthT(lang), Truth(IF op = "&&" THEN ~IIsZero(x.v) /\ ~IIsZero(y.v) ELSE ~IIsZero(x.v) \/ ~IIsZero(y.v)))
  ELSE IF op \in ShiftOps THEN
       LET t == Promote(x.t, lang, P)
           w == Bits(t, P)
           a == ConvTo(x.v, t, P)
           n == y.v
       IN  IF n.neg \/ ~NFitsSmall(n.mag) THEN NoVal
           ELSE IF NToSmall(n.mag) >= w THEN NoVal
           ELSE IF a.neg THEN NoVal        \* << undefined in C, >> implementation-defined
           ELSE IF op = ">>" THEN V(t, INat(NShr(a.mag, NToSmall(n.mag))))
           ELSE LET r == INat(NShl(a.mag, NToSmall(n.mag)))
                IN  IF IsSigned(t, P) THEN (IF ValFits(r, t, P) THEN V(t, r) ELSE NoVal)   \* 6.5.7p4: must be representable
                    ELSE V(t, IWrap(r, w, FALSE))
  ELSE LET t == Usual(x.t, y.t, lang, P)
           a == ConvTo(x.v, t, P)
           b == ConvTo(y.v, t, P)
           w == Bits(t, P)
       IN  CASE op = "+" -> InType(IAdd(a, b), t, P)
             [] op = "-" -> InType(ISub(a, b), t, P)
             [] op = "*" -> InType(IMul(a, b), t, P)
             [] op = "/" -> IF IIsZero(b) THEN NoVal ELSE InType(IDiv(a, b), t, P)
             [] op = "%" -> IF IIsZero(b) THEN NoVal
                            ELSE IF IsSigned(t, P) /\ ~ValFits(IDiv(a, b), t, P) THEN NoVal   \* 6.5.5p6
                            ELSE InType(IRem(a, b), t, P)
             [] op \in {"&", "|", "^"} ->
                  LET f == CASE op = "&" -> "and" [] op = "|" -> "or" [] op = "^" -> "xor"
                  IN  V(t, IOfBits(NBitwise(f, IBits(a, w), IBits(b, w)), w, IsSigned(t, P)))
             [] op = "<" -> V(TruthT(lang), Truth(ILt(a, b)))
             [] op = "<=" -> V(TruthT(lang), Truth(ILe(a, b)))
             [] op = ">" -> V(TruthT(lang), Truth(ILt(b, a)))
             [] op = ">=" -> V(TruthT(lang), Truth(ILe(b, a)))
             [] op = "==" -> V(TruthT(lang), Truth(a = b))
             [] op = "!=" -> V(TruthT(lang), Truth(a # b))

EvalUn(op, x, lang, P) ==
  IF op = "!" THEN V(TruthT(lang), Truth(IIsZero(x.v)))
  ELSE LET t == Promote(x.t, lang, P)
           a == ConvTo(x.v, t, P)
           w == Bits(t, P)
       IN  CASE op = "+" -> V(t, a)
             [] op = "-" -> InType(INeg(a), t, P)
             [] op = "~" -> V(t, IOfBits(NSub(NSub(NPow2(w), <<1>>), IBits(a, w)), w, IsSigned(t, P)))

\* types of the modelled fragment: only integer types take part in constant expressions
RECURSIVE Eval(_, _, _)
Eval(e, lang, P) ==
  CASE e.k = "int" -> LET t == IntLitType(e.l, P) IN IF t = "?" THEN NoVal ELSE V(t, INat(IntLitValue(e.l)))
    [] e.k = "chr" -> IF CharLitWellFormed(e.l, lang, P) THEN V(CharLitType(e.l, lang, P), CharLitValue(e.l, lang, P)) ELSE NoVal
    [] e.k = "bool" -> IF lang = "c++" THEN V("bool", Truth(e.v)) ELSE NoVal
    [] e.k = "un" -> LET x == Eval(e.a, lang, P) IN IF x.ok THEN EvalUn(e.op, x, lang, P) ELSE NoVal
    [] e.k = "bin" -> LET x == Eval(e.a, lang, P)
                          y == Eval(e.b, lang, P)
                      IN  IF x.ok /\ y.ok THEN EvalBin(e.op, x, y, lang, P) ELSE NoVal
    [] e.k = "cast" -> LET x == Eval(e.a, lang, P) IN IF x.ok THEN V(e.t, ConvTo(x.v, e.t, P)) ELSE NoVal
    [] e.k = "sizeofT" -> V(P.sizeT, IFromSmall(SizeOf(e.t, P)))
    [] e.k = "sizeofE" -> LET x == Eval(e.a, lang, P) IN IF x.ok THEN V(P.sizeT, IFromSmall(Bytes(x.t, P))) ELSE NoVal
    [] e.k = "cond" -> LET c == Eval(e.c, lang, P)
                           x == Eval(e.a, lang, P)
                           y == Eval(e.b, lang, P)
                       IN  IF c.ok /\ x.ok /\ y.ok
                           THEN LET t == IF lang = "c++" /\ x.t = y.t THEN x.t ELSE Usual(x.t, y.t, lang, P)
                                IN  V(t, ConvTo(IF IIsZero(c.v) THEN y.v ELSE x.v, t, P))
                           ELSE NoVal

--------------------------------------------------------------------------
(* Source text of expressions (sub-expressions parenthesised) *)

RECURSIVE ExprChars(_, _)
Paren(e, lang) == IF e.k \in {"int", "chr", "bool"} THEN ExprChars(e, lang) ELSE <<"(">> \o ExprChars(e, lang) \o <<")">>
ExprChars(e, lang) ==
  CASE e.k = "int" -> IntLitChars(e.l)
    [] e.k = "chr" -> CharLitChars(e.l)
    [] e.k = "bool" -> <<IF e.v THEN "true" ELSE "false">>
    [] e.k = "un" -> <<e.op>> \o Paren(e.a, lang)
    [] e.k = "bin" -> Paren(e.a, lang) \o <<" ", e.op, " ">> \o Paren(e.b, lang)
    [] e.k = "cast" -> <<"(", Spelling(Ty(e.t), lang), ")">> \o Paren(e.a, lang)
    [] e.k = "sizeofT" -> <<"sizeof(", Spelling(e.t, lang), ")">>
    [] e.k = "sizeofE" -> <<"sizeof ">> \o Paren(e.a, lang)
    [] e.k = "cond" -> Paren(e.c, lang) \o <<" ? ">> \o Paren(e.a, lang) \o <<" : ">> \o Paren(e.b, lang)

\* the token that carries the value of the expression in cppcheck's syntax tree
RootTok(e) ==
  CASE e.k = "int" -> Join(IntLitCharsNoSep(e.l))
    [] e.k = "chr" -> Join(CharLitChars(e.l))
    [] e.k = "bool" -> IF e.v THEN "true" ELSE "false"
    [] e.k \in {"un", "bin"} -> e.op
    [] e.k \in {"cast", "sizeofT", "sizeofE"} -> "("
    [] e.k = "cond" -> "?"

\* a literal of type t spelling the non-negative value n exactly (for the second witness)
WitnessLit(x, signed) ==
  IF signed
  THEN (IF x.neg THEN "(-" \o Join(NToDecChars(NSub(x.mag, <<1>>))) \o "LL-1)" ELSE Join(NToDecChars(x.mag)) \o "LL")
  ELSE Join(NToDecChars(x.mag)) \o "ULL"
=============================================================================
