------------------------------ MODULE Unmatched ------------------------------
(***************************************************************************)
(* C24 judge on final observations: the unmatchedSuppression reports of a  *)
(* run against the suppressions and the planted findings of the generated  *)
(* project.  Only what the statement fixes is demanded; where the           *)
(* documentation leaves the outcome open nothing is judged:                 *)
(*   O1 never for a suppression that (certainly) matched a finding          *)
(*   O2 every report is at the own location of a suppression with that id   *)
(*   O3 at most once per suppression                                        *)
(*   O4 a suppression that certainly applied to analysed code and certainly *)
(*      matched nothing is reported (information enabled)                   *)
(*                                                                         *)
(* IOEnv.OBS: one line per run: [name, info, sources, supprs, located,      *)
(*            reports]; supprs = [id, file, line, inline, glob];            *)
(*            located = [file, line, id, sev]; reports = [file, line, id]   *)
(* IOEnv.OUT: violating runs with the obligation and the witness.           *)
(***************************************************************************)
EXTENDS Integers, Sequences, FiniteSets, TLC, Json, IOUtils, SequencesExt

Obs == ndJsonDeserialize(IOEnv.OBS)

RFile(s) == IF s.file = "" THEN "nofile" ELSE s.file
RLine(s) == IF s.line = -1 THEN 0 ELSE s.line
Same(s, r) == s.id = r.id /\ RFile(s) = r.file /\ RLine(s) = r.line

Idx(q) == DOMAIN q

\* an error-severity finding is planted exactly where the suppression points, with exactly its id
DefMatched(o, s) ==
  /\ ~s.glob /\ s.file # "h.h"
  /\ \E i \in Idx(o.located) :
        LET f == o.located[i] IN
          /\ f.sev = "error" /\ f.id = s.id
          /\ s.file = "" \/ s.file = f.file
          /\ s.line = -1 \/ s.line = f.line
          /\ s.file = "" => f.file # "h.h"

\* an id no check can produce, not line specific, for analysed code
DefUnmatched(o, s) ==
  /\ o.info /\ ~s.glob /\ ~s.inline
  /\ s.id = "doesNotExist" /\ s.line = -1
  /\ s.file = "" \/ \E i \in Idx(o.sources) : o.sources[i] = s.file

Count(q, P(_)) == Cardinality({i \in Idx(q) : P(q[i])})

O1(o) == \A i \in Idx(o.supprs) : DefMatched(o, o.supprs[i]) =>
            \* unless another suppression with the same identity exists that did not match (then the report is its)
            \/ ~\E j \in Idx(o.reports) : Same(o.supprs[i], o.reports[j])
            \/ \E k \in Idx(o.supprs) : k # i /\ Same(o.supprs[k], [id |-> o.supprs[i].id, file |-> RFile(o.supprs[i]), line |-> RLine(o.supprs[i])]) /\ ~DefMatched(o, o.supprs[k])
O2(o) == \A j \in Idx(o.reports) : \E i \in Idx(o.supprs) : Same(o.supprs[i], o.reports[j])
O3(o) == \A j \in Idx(o.reports) :
            Count(o.reports, LAMBDA r : r = o.reports[j]) <= Count(o.supprs, LAMBDA s : Same(s, o.reports[j]))
O4(o) == \A i \in Idx(o.supprs) : DefUnmatched(o, o.supprs[i]) => \E j \in Idx(o.reports) : Same(o.supprs[i], o.reports[j])

\* reports without --enable=information / --check-config must not exist
O0(o) == o.info \/ o.reports = <<>>

Reasons(o) == (IF O0(o) THEN <<>> ELSE <<"reported-without-information">>)
           \o (IF O1(o) THEN <<>> ELSE <<"reported-although-matched">>)
           \o (IF O2(o) THEN <<>> ELSE <<"report-not-at-a-suppression">>)
           \o (IF O3(o) THEN <<>> ELSE <<"reported-more-than-once">>)
           \o (IF O4(o) THEN <<>> ELSE <<"unmatched-not-reported">>)

BadIdx == {i \in DOMAIN Obs : Reasons(Obs[i]) # <<>>}
NonTrivial == Cardinality({i \in DOMAIN Obs : Obs[i].reports # <<>> \/ \E k \in Idx(Obs[i].supprs) : DefMatched(Obs[i], Obs[i].supprs[k])})

ASSUME PrintT(<<"JUDGED", Len(Obs), "NONTRIVIAL", NonTrivial, "BAD", Cardinality(BadIdx)>>)
ASSUME ndJsonSerialize(IOEnv.OUT, [i \in 1..Cardinality(BadIdx) |->
          LET o == Obs[SetToSeq(BadIdx)[i]] IN [name |-> o.name, reasons |-> Reasons(o), reports |-> o.reports, supprs |-> o.supprs]])
=============================================================================
