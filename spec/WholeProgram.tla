---------------------------- MODULE WholeProgram ----------------------------
(***************************************************************************)
(* C22: whole-program (cross translation unit) analysis over summaries.    *)
(*                                                                         *)
(* Every file contributes a summary (calls with a value, nested calls that *)
(* pass an argument on, unsafe usages).  The result is a function of the   *)
(* union of the summaries.  Three ways to get the summaries to the         *)
(* analysis exist in the code:                                             *)
(*   mem      single job, no build dir: objects kept in memory             *)
(*   dir      several jobs + build dir: written as XML, parsed back        *)
(*   memdir   single job + build dir: BOTH passes run                      *)
(* The XML round trip is a parameter: Faithful, or LoseNested (nested-call *)
(* records do not survive: what the code did before the repair, see        *)
(* known-findings.txt).  TLC proves StoreIndependent and ReportedOnce for   *)
(* the faithful round trip and must find the counterexample otherwise.      *)
(***************************************************************************)
EXTENDS Integers, Sequences, FiniteSets, TLC

CONSTANTS Files, Funs, RoundTrip      \* RoundTrip \in {"Faithful", "LoseNested"}

\* a summary element
Call(f, g)    == [k |-> "call", file |-> f, callee |-> g]              \* g(0) somewhere in file f
Nested(f, g, h) == [k |-> "nested", file |-> f, in |-> g, callee |-> h] \* in file f, function g passes its argument to h
Unsafe(f, g)  == [k |-> "unsafe", file |-> f, fun |-> g]               \* function g (in file f) dereferences its argument

Elems == {Call(f, g) : f \in Files, g \in Funs} \cup {Nested(f, g, h) : f \in Files, g \in Funs, h \in Funs}
         \cup {Unsafe(f, g) : f \in Files, g \in Funs}

VARIABLES summ,     \* [file -> set of summary elements]   chosen nondeterministically: the program
          mode,     \* "mem" | "dir" | "memdir"
          reported, \* bag (sequence) of findings emitted
          pc

vars == <<summ, mode, reported, pc>>

\* which functions can receive a null argument: least fixed point over calls and nested calls
RECURSIVE Reach(_, _)
Reach(S, R) == LET R2 == R \cup {e.callee : e \in {e \in S : e.k = "nested" /\ e.in \in R}}
               IN IF R2 = R THEN R ELSE Reach(S, R2)
NullReach(S) == Reach(S, {e.callee : e \in {e \in S : e.k = "call"}})

\* the analysis: a finding for every unsafe usage in a function that null can reach
Analyse(S) == {[id |-> "ctunullpointer", fun |-> e.fun, file |-> e.file] : e \in {e \in S : e.k = "unsafe" /\ e.fun \in NullReach(S)}}

All == UNION {summ[f] : f \in Files}
Stored(S) == IF RoundTrip = "LoseNested" THEN {e \in S : e.k # "nested"} ELSE S

ElemsOf(f) == {e \in Elems : e.file = f}
Small(f) == {{}} \cup {{e} : e \in ElemsOf(f)} \cup {{e1, e2} : e1 \in ElemsOf(f), e2 \in ElemsOf(f)}

Init == /\ summ \in [Files -> UNION {Small(f) : f \in Files}]
        /\ \A f \in Files : summ[f] \in Small(f)
        /\ mode \in {"mem", "dir", "memdir"}
        /\ reported = <<>> /\ pc = "start"

\* findings go through the duplicate filter of the report: identical findings are shown once
Emit(F) == LET new == {x \in F : \A i \in DOMAIN reported : reported[i] # x}
               seq == CHOOSE s \in [1..Cardinality(new) -> new] : \A i, j \in 1..Cardinality(new) : i # j => s[i] # s[j]
           IN reported' = reported \o seq

MemPass == /\ pc = "start" /\ mode \in {"mem", "memdir"}
           /\ Emit(Analyse(All))
           /\ pc' = IF mode = "memdir" THEN "dirpass" ELSE "done"
           /\ UNCHANGED <<summ, mode>>
DirPass == /\ (pc = "start" /\ mode = "dir") \/ pc = "dirpass"
           /\ Emit(Analyse(Stored(All)))
           /\ pc' = "done"
           /\ UNCHANGED <<summ, mode>>
Next == MemPass \/ DirPass \/ (pc = "done" /\ UNCHANGED vars)
Spec == Init /\ [][Next]_vars

Range(s) == {s[i] : i \in DOMAIN s}
\* the report does not depend on the way the summaries travelled
StoreIndependent == pc = "done" => Range(reported) = Analyse(All)
\* and every finding is reported once
ReportedOnce == \A i, j \in DOMAIN reported : i # j => reported[i] # reported[j]
=============================================================================
