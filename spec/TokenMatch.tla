----------------------------- MODULE TokenMatch -----------------------------
(***************************************************************************)
(* The token-pattern language of cppcheck (property C33), as documented at  *)
(* Token::Match / Token::simpleMatch / Token::findmatch in lib/token.h.     *)
(*                                                                         *)
(* A pattern is a sequence of space separated ELEMENTS, matched against     *)
(* consecutive tokens of a token list:                                      *)
(*    a|b|c     the token is one of the alternatives; an alternative is a   *)
(*              literal ("someRandomText": the token's string equals it) or *)
(*              a command %any% %name% %type% %var% %varid% %num% %bool%    *)
(*              %char% %str% %op% %cop% %comp% %assign% %or% %oror%         *)
(*    a|b|      (empty last alternative) ... "or no token"                  *)
(*    !!x       "no tokens or any token that is not x"                      *)
(*    [abc]     a one-character token, one of the characters a b c          *)
(* simpleMatch patterns are plain words, no commands / alternatives.        *)
(*                                                                         *)
(* This module is pure: abstract syntax, concrete syntax (parser and        *)
(* renderer over sequences of one-character strings, TLA+ strings cannot be *)
(* indexed), the token model and the matching relation.  TokenMatchGrammar   *)
(* enumerates patterns from the grammar, TokenMatchPatterns writes them out, *)
(* TokenMatchGen derives the covering token lists and checks the laws,       *)
(* TokenMatchJudge compares the observations of the real code with Match.    *)
(*                                                                         *)
(* Where the documentation does not say what happens the parser REJECTS     *)
(* the pattern (ok = FALSE) and nothing is claimed about it: a literal "|"  *)
(* inside an element ("||", "|=", "|a", "a||b"), "!!" followed by nothing,  *)
(* by alternatives or by a command, words that start with "[" and contain   *)
(* "]" without being "[...]", unknown %commands%.                           *)
(***************************************************************************)
EXTENDS Integers, Sequences, FiniteSets, TLC

CmdNames == {"any", "name", "type", "var", "varid", "num", "bool", "char", "str",
             "op", "cop", "comp", "assign", "or", "oror"}

-----------------------------------------------------------------------------
(* Strings as sequences of one-character strings.                           *)

RECURSIVE Join(_)
Join(cs) == IF cs = <<>> THEN "" ELSE Head(cs) \o Join(Tail(cs))

RangeOf(f) == {f[i] : i \in DOMAIN f}

\* Split("a|b|", "|") = << "a", "b", "" >> (as character sequences): n separators give n+1 parts.
\* Not recursive over the characters (patterns are up to 200 characters long): part k lies between the
\* (k-1)-th and the k-th separator.
Split(cs, sep) ==
  LET at   == {i \in 1..Len(cs) : cs[i] = sep}
      n    == Cardinality(at)
      \* position of the k-th separator; 0 and Len(cs)+1 are the borders
      B(k) == IF k = 0 THEN 0 ELSE IF k = n + 1 THEN Len(cs) + 1
              ELSE CHOOSE i \in at : Cardinality({j \in at : j < i}) = k - 1
  IN [k \in 1..(n + 1) |-> SubSeq(cs, B(k - 1) + 1, B(k) - 1)]

RECURSIVE JoinWith(_, _)
JoinWith(parts, sep) ==
  IF parts = <<>> THEN <<>>
  ELSE IF Len(parts) = 1 THEN parts[1]
  ELSE parts[1] \o <<sep>> \o JoinWith(Tail(parts), sep)

-----------------------------------------------------------------------------
(* Abstract syntax.  All elements / alternatives are records with the same  *)
(* fields so that they can be compared and put into sets.                   *)

Lit(cs)  == [cmd |-> "lit", lit |-> Join(cs), cs |-> cs]      \* literal alternative, cs = its characters
Cmd(c)   == [cmd |-> c, lit |-> "", cs |-> <<>>]               \* %c%
AltE(alts, opt) == [k |-> "alt", alts |-> alts, opt |-> opt, lit |-> "", cs |-> <<>>]
NegE(cs) == [k |-> "neg", alts |-> <<>>, opt |-> FALSE, lit |-> Join(cs), cs |-> cs]
SetE(cs) == [k |-> "set", alts |-> <<>>, opt |-> FALSE, lit |-> "", cs |-> cs]

IsSimpleKind(k) == k \in {"simpleMatch", "findsimplematch"}
IsFindKind(k)   == k \in {"findmatch", "findsimplematch"}

HasVarid(p) == \E i \in DOMAIN p : p[i].k = "alt" /\ \E j \in DOMAIN p[i].alts : p[i].alts[j].cmd = "varid"

-----------------------------------------------------------------------------
(* Concrete syntax: parser.                                                 *)

CmdTable == ("%any%" :> "any") @@ ("%name%" :> "name") @@ ("%type%" :> "type") @@ ("%var%" :> "var") @@
            ("%varid%" :> "varid") @@ ("%num%" :> "num") @@ ("%bool%" :> "bool") @@ ("%char%" :> "char") @@
            ("%str%" :> "str") @@ ("%op%" :> "op") @@ ("%cop%" :> "cop") @@ ("%comp%" :> "comp") @@
            ("%assign%" :> "assign") @@ ("%or%" :> "or") @@ ("%oror%" :> "oror")

Bad == [ok |-> FALSE, e |-> SetE(<<>>)]
Good(e) == [ok |-> TRUE, e |-> e]

\* a literal word: no "|" inside; "%" only as the operators % and %=
LitOk(cs) == /\ cs # <<>>
             /\ "|" \notin RangeOf(cs)
             /\ (cs[1] = "%" => Join(cs) \in {"%", "%="})

ParseAlt(part) ==
  IF part = <<>> THEN [ok |-> FALSE, a |-> Cmd("any")]
  ELSE IF Join(part) \in DOMAIN CmdTable THEN [ok |-> TRUE, a |-> Cmd(CmdTable[Join(part)])]
  ELSE IF LitOk(part) THEN [ok |-> TRUE, a |-> Lit(part)]
  ELSE [ok |-> FALSE, a |-> Cmd("any")]

ParseElem(w) ==
  LET n == Len(w) IN
  IF w[1] = "[" /\ "]" \in RangeOf(w) THEN
       \* "[abc]": a set of the characters between the first "[" and the last "]" (which may include "]", "|", "[");
       \* anything else with "[" first and a "]" somewhere is not documented
       IF n > 2 /\ w[n] = "]" THEN Good(SetE(SubSeq(w, 2, n - 1))) ELSE Bad
  ELSE IF n >= 2 /\ w[1] = "!" /\ w[2] = "!" THEN
       \* "!!x"; the words "!" and "!=" are ordinary literals (n < 2 resp. w[2] = "=")
       IF n > 2 /\ LitOk(SubSeq(w, 3, n)) /\ Join(SubSeq(w, 3, n)) \notin DOMAIN CmdTable
       THEN Good(NegE(SubSeq(w, 3, n))) ELSE Bad
  ELSE LET parts == Split(w, "|")
           m     == Len(parts)
           opt   == m > 1 /\ parts[m] = <<>>                  \* documented form of optional: trailing "|"
           real  == IF opt THEN SubSeq(parts, 1, m - 1) ELSE parts
           pa    == [i \in 1..Len(real) |-> ParseAlt(real[i])]
       IN IF \A i \in 1..Len(real) : pa[i].ok
          THEN Good(AltE([i \in 1..Len(real) |-> pa[i].a], opt)) ELSE Bad

Words(cs) == SelectSeq(Split(cs, " "), LAMBDA w : w # <<>>)

\* Token::Match / Token::findmatch patterns
Parse(cs) ==
  LET ws == Words(cs)
      pe == [i \in 1..Len(ws) |-> ParseElem(ws[i])]
  IN [ok |-> \A i \in 1..Len(ws) : pe[i].ok, elems |-> [i \in 1..Len(ws) |-> pe[i].e]]

\* Token::simpleMatch / Token::findsimplematch patterns: words separated by single spaces, compared as text
ParseSimple(cs) ==
  LET ws == Split(cs, " ")
  IN [ok |-> cs # <<>> /\ \A i \in 1..Len(ws) : ws[i] # <<>>,
      elems |-> [i \in 1..Len(ws) |-> AltE(<<Lit(ws[i])>>, FALSE)]]

(* Concrete syntax: renderer (used for the patterns generated from the grammar). *)
RenderAlt(a) == IF a.cmd = "lit" THEN a.cs
                ELSE <<"%">> \o (CHOOSE w \in {<<"a","n","y">>, <<"n","a","m","e">>, <<"t","y","p","e">>, <<"v","a","r">>,
                                              <<"v","a","r","i","d">>, <<"n","u","m">>, <<"b","o","o","l">>, <<"c","h","a","r">>,
                                              <<"s","t","r">>, <<"o","p">>, <<"c","o","p">>, <<"c","o","m","p">>,
                                              <<"a","s","s","i","g","n">>, <<"o","r">>, <<"o","r","o","r">>} : Join(w) = a.cmd) \o <<"%">>

RenderElem(e) ==
  IF e.k = "set" THEN <<"[">> \o e.cs \o <<"]">>
  ELSE IF e.k = "neg" THEN <<"!", "!">> \o e.cs
  ELSE JoinWith([i \in 1..Len(e.alts) |-> RenderAlt(e.alts[i])], "|") \o (IF e.opt THEN <<"|">> ELSE <<>>)

Render(p) == JoinWith([i \in 1..Len(p) |-> RenderElem(p[i])], " ")

-----------------------------------------------------------------------------
(* Tokens.  A token is a record of what the pattern commands look at:       *)
(*   s (the string), varId, type (Token::Type as text), isName, isNumber,   *)
(*   isBoolean, isOp, isConstOp, isAssignmentOp, isComparisonOp.            *)
(* The real Token class only produces certain combinations (the type is a   *)
(* function of the spelling, the varId and the symbols attached):           *)

NameTypes == {"eVariable", "eType", "eFunction", "eKeyword", "eName", "eBoolean", "eEnumerator"}
ConstOpTypes == {"eArithmeticalOp", "eLogicalOp", "eComparisonOp", "eBitOp"}

TokenOK(t) ==
  /\ t.s # ""
  /\ t.isName = (t.type \in NameTypes)
  /\ t.isNumber = (t.type = "eNumber")
  /\ t.isBoolean = (t.type = "eBoolean")
  /\ t.isConstOp = (t.type \in ConstOpTypes)
  /\ t.isAssignmentOp = (t.type = "eAssignmentOp")
  /\ t.isComparisonOp = (t.type = "eComparisonOp")
  /\ t.isOp = (t.isConstOp \/ t.isAssignmentOp \/ t.type = "eIncDecOp")
  /\ (t.varId > 0 => t.type = "eVariable")
  /\ (t.isBoolean => t.s \in {"true", "false"})
  /\ (t.s = "|" => t.type = "eBitOp")
  /\ (t.s = "||" => t.type = "eLogicalOp")
  /\ (t.s \in {"=", "+=", "-=", "*=", "/=", "%=", "&=", "|=", "^=", "<<=", ">>="} => t.isAssignmentOp)

(* For the fixed spellings of the language (keywords, operators, brackets)   *)
(* the type is normally a function of the spelling (Token::update_property_ *)
(* info; "<" ">" are brackets when linked, "[" "]" start/end a lambda).  The *)
(* real Tokenizer also produces IRREGULAR tokens: "void" retyped to eName by *)
(* the symbol database, a C++ identifier spelled like a C keyword           *)
(* ("restrict"), a C variable called "true".  Matching is defined for them   *)
(* like for any token; the judge uses Regular only to name the shape of a    *)
(* difference, never to excuse one.                                          *)
KeywordSpellings == {"asm", "auto", "break", "case", "const", "continue", "default", "do", "else", "enum", "extern", "for",
                     "goto", "if", "inline", "register", "restrict", "return", "sizeof", "static", "struct", "switch",
                     "typedef", "union", "volatile", "while", "void"}
FixedSpellings == KeywordSpellings \cup {"true", "false", "+", "-", "*", "/", "%", ">>", "<<", "=", "+=", "-=", "*=", "/=", "%=", "&=", "|=",
                    "^=", "<<=", ">>=", "&", "|", "^", "~", "&&", "||", "!", "==", "!=", "<=", ">=", "<=>", "<", ">", "{", "}", "[", "]",
                    ",", "?", ":", "(", ")", "++", "--", "..."}
RegularTypes ==
  [s \in FixedSpellings |->
     IF s \in KeywordSpellings THEN {"eKeyword"} \cup (IF s \in {"auto", "void"} THEN {"eType"} ELSE {})
     ELSE IF s \in {"true", "false"} THEN {"eBoolean"}
     ELSE IF s \in {"+", "-", "*", "/", "%", ">>", "<<"} THEN {"eArithmeticalOp"}
     ELSE IF s \in {"=", "+=", "-=", "*=", "/=", "%=", "&=", "|=", "^=", "<<=", ">>="} THEN {"eAssignmentOp"}
     ELSE IF s \in {"&", "|", "^", "~"} THEN {"eBitOp"}
     ELSE IF s \in {"&&", "||", "!"} THEN {"eLogicalOp"}
     ELSE IF s \in {"==", "!=", "<=", ">=", "<=>"} THEN {"eComparisonOp"}
     ELSE IF s \in {"<", ">"} THEN {"eComparisonOp", "eBracket"}
     ELSE IF s \in {"{", "}"} THEN {"eBracket"}
     ELSE IF s \in {"[", "]"} THEN {"eExtendedOp", "eLambda"}
     ELSE IF s \in {",", "?", ":", "(", ")"} THEN {"eExtendedOp"}
     ELSE IF s \in {"++", "--"} THEN {"eIncDecOp"}
     ELSE {"eEllipsis"}]
Regular(t) == t.s \notin FixedSpellings \/ t.type \in RegularTypes[t.s]      \* no fixed spelling: nothing to say

-----------------------------------------------------------------------------
(* Matching.                                                                *)

\* does alternative a accept token t (v = the varid argument of the call)
AltMatches(a, t, v) ==
  IF a.cmd = "lit" THEN t.s = a.lit                         \* "someRandomText"
  ELSE IF a.cmd = "any" THEN TRUE                           \* any token
  ELSE IF a.cmd = "name" THEN t.isName                      \* a name, variable, type, keyword
  ELSE IF a.cmd = "type" THEN t.isName /\ t.varId = 0       \* anything that can be a type: a name that is no variable
  ELSE IF a.cmd = "var" THEN t.varId > 0                    \* token with varId > 0
  ELSE IF a.cmd = "varid" THEN t.varId = v                  \* token with the given varid (precondition v > 0)
  ELSE IF a.cmd = "num" THEN t.isNumber
  ELSE IF a.cmd = "bool" THEN t.isBoolean                   \* true or false
  ELSE IF a.cmd = "char" THEN t.type = "eChar"              \* enclosed in '
  ELSE IF a.cmd = "str" THEN t.type = "eString"             \* C string
  ELSE IF a.cmd = "op" THEN t.isOp
  ELSE IF a.cmd = "cop" THEN t.isConstOp
  ELSE IF a.cmd = "comp" THEN t.isComparisonOp
  ELSE IF a.cmd = "assign" THEN t.isAssignmentOp
  ELSE IF a.cmd = "or" THEN t.s = "|" /\ t.type = "eBitOp"      \* the bitwise-or operator
  ELSE IF a.cmd = "oror" THEN t.s = "||" /\ t.type = "eLogicalOp" \* the logical-or operator
  ELSE FALSE

\* does element e accept the (present) token t
ElemMatches(e, t, v) ==
  IF e.k = "set" THEN t.s \in RangeOf(e.cs)                   \* RangeOf(cs) are one-character strings
  ELSE IF e.k = "neg" THEN t.s # e.lit
  ELSE \E i \in 1..Len(e.alts) : AltMatches(e.alts[i], t, v)

(* The pattern matches at the front of toks.  Two readings of "or no token": *)
(* Exists: the optional element may be skipped whenever that helps;          *)
(* Greedy: a token that fits the optional element is taken by it.            *)
(* Greedy => Exists (law, checked by TLC); where they agree the result is    *)
(* determined, where they differ (e.g. "a| a" on the list <<a>>) the         *)
(* documentation is silent and the spec leaves the result open.              *)
RECURSIVE Greedy(_, _, _, _, _)
Greedy(p, toks, v, i, j) ==
  IF i > Len(p) THEN TRUE
  ELSE LET e == p[i]
           has == j <= Len(toks)
       IN IF e.k = "neg" THEN
               IF has THEN toks[j].s # e.lit /\ Greedy(p, toks, v, i + 1, j + 1)
               ELSE Greedy(p, toks, v, i + 1, j)                \* "no tokens": matches, consumes nothing
          ELSE IF e.k = "alt" /\ e.opt THEN
               IF has /\ ElemMatches(e, toks[j], v) THEN Greedy(p, toks, v, i + 1, j + 1)
               ELSE Greedy(p, toks, v, i + 1, j)                \* "or no token"
          ELSE has /\ ElemMatches(e, toks[j], v) /\ Greedy(p, toks, v, i + 1, j + 1)

RECURSIVE Exists(_, _, _, _, _)
Exists(p, toks, v, i, j) ==
  IF i > Len(p) THEN TRUE
  ELSE LET e == p[i]
           has == j <= Len(toks)
       IN IF e.k = "neg" THEN
               IF has THEN toks[j].s # e.lit /\ Exists(p, toks, v, i + 1, j + 1)
               ELSE Exists(p, toks, v, i + 1, j)
          ELSE IF e.k = "alt" /\ e.opt THEN
               \/ has /\ ElemMatches(e, toks[j], v) /\ Exists(p, toks, v, i + 1, j + 1)
               \/ Exists(p, toks, v, i + 1, j)
          ELSE has /\ ElemMatches(e, toks[j], v) /\ Exists(p, toks, v, i + 1, j + 1)

MatchGreedy(p, toks, v) == Greedy(p, toks, v, 1, 1)
MatchExists(p, toks, v) == Exists(p, toks, v, 1, 1)

\* the set of results the documentation allows for Match(p, toks, v)
Match(p, toks, v) == {MatchGreedy(p, toks, v), MatchExists(p, toks, v)}

\* does the greedy run arrive at an optional element after the last token?
RECURSIVE EndsAtOptional(_, _, _, _, _)
EndsAtOptional(p, toks, v, i, j) ==
  IF i > Len(p) THEN FALSE
  ELSE LET e == p[i]
           has == j <= Len(toks)
       IN IF e.k = "neg" THEN
               IF has THEN toks[j].s # e.lit /\ EndsAtOptional(p, toks, v, i + 1, j + 1)
               ELSE EndsAtOptional(p, toks, v, i + 1, j)
          ELSE IF e.k = "alt" /\ e.opt THEN
               IF ~has THEN TRUE
               ELSE IF ElemMatches(e, toks[j], v) THEN EndsAtOptional(p, toks, v, i + 1, j + 1)
               ELSE EndsAtOptional(p, toks, v, i + 1, j)
          ELSE has /\ ElemMatches(e, toks[j], v) /\ EndsAtOptional(p, toks, v, i + 1, j + 1)

\* number of leading elements the greedy run gets through (0 = the first element already fails)
RECURSIVE Progress(_, _, _, _, _)
Progress(p, toks, v, i, j) ==
  IF i > Len(p) THEN 0
  ELSE LET e == p[i]
           has == j <= Len(toks)
       IN IF e.k = "neg" THEN
               IF has THEN (IF toks[j].s # e.lit THEN 1 + Progress(p, toks, v, i + 1, j + 1) ELSE 0)
               ELSE 1 + Progress(p, toks, v, i + 1, j)
          ELSE IF e.k = "alt" /\ e.opt THEN
               IF has /\ ElemMatches(e, toks[j], v) THEN 1 + Progress(p, toks, v, i + 1, j + 1)
               ELSE 1 + Progress(p, toks, v, i + 1, j)
          ELSE IF has /\ ElemMatches(e, toks[j], v) THEN 1 + Progress(p, toks, v, i + 1, j + 1) ELSE 0

\* does the greedy run get past the first element (= Progress >= 1) on a non-empty token list
PassesFirst(p, toks, v) ==
  /\ p # <<>> /\ toks # <<>>
  /\ IF p[1].k = "neg" THEN toks[1].s # p[1].lit
     ELSE IF p[1].k = "alt" /\ p[1].opt THEN TRUE
     ELSE ElemMatches(p[1], toks[1], v)

(* findmatch(tok = toks[start+1], pattern, end): the first position in      *)
(* [start, end) (0-based; end = -1: to the end of the list) at which the     *)
(* pattern matches; result is the 1-based index, 0 = none.  The set of       *)
(* allowed results (open where a position's match result is open).           *)
Suffix(toks, i) == SubSeq(toks, i, Len(toks))

FindPositions(toks, start, end) ==
  {i \in 1..Len(toks) : i >= start + 1 /\ (end < 0 \/ i < end + 1)}

FindMatch(p, toks, v, start, end) ==
  LET pos  == FindPositions(toks, start, end)
      sure == {i \in pos : MatchGreedy(p, Suffix(toks, i), v)}       \* certainly a match
      may  == {i \in pos : MatchExists(p, Suffix(toks, i), v)}       \* possibly a match
      cand == {i \in may : \A k \in sure : i <= k}                   \* nothing certain before it
  IN cand \cup (IF sure = {} THEN {0} ELSE {})

=============================================================================
