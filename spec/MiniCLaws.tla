------------------------------ MODULE MiniCLaws ------------------------------
(* Algebraic laws of the integer model (MiniCTypes), checked by TLC on a grid   *)
(* of values; they guard against a wrong spec.  Kept out of MiniCTypes because  *)
(* TLC evaluates every constant definition of a loaded module at startup.       *)
EXTENDS MiniCTypes, TLC
-----------------------------------------------------------------------------
(* Laws of the definitions above, checked by TLC on a grid of values (they  *)
(* guard against a wrong spec; see MiniCLaws.cfg).                          *)
Grid == {-40000, -32769, -32768, -32767, -300, -129, -128, -2, -1, 0, 1, 2, 3, 127, 128, 255, 256, 300, 32767, 32768,
         65535, 65536, 70000, TMAX - 1, TMAX, -TMAX}
SmallGrid == {-32768, -129, -128, -7, -2, -1, 0, 1, 2, 5, 127, 128, 255, 32767}
Plats == {"p16", "p32"}

LawConvIdempotent == \A pl \in Plats, ty \in IntTypes, v \in Grid :
   LET c == Conv(pl, ty, v) IN c.s = "ok" => Conv(pl, ty, c.v) = c /\ c.v >= RMin(pl, ty) /\ c.v <= RMax(pl, ty)
LawConvIdentityInRange == \A pl \in Plats, ty \in IntTypes, v \in Grid :
   (RMin(pl, ty) <= v /\ v <= RMax(pl, ty)) => Conv(pl, ty, v) = Ok(v)
LawConvCongruent == \A pl \in Plats, ty \in IntTypes, v \in {g \in Grid : Abs(g) <= 70000} :
   Narrow(pl, ty) => (Conv(pl, ty, v).v - v) % Pow2(Bits(pl, ty)) = 0
LawDivRem == \A a \in SmallGrid, b \in SmallGrid \ {0} :
   /\ TruncDiv(a, b) * b + TruncRem(a, b) = a
   /\ Abs(TruncRem(a, b)) < Abs(b)
   /\ (TruncRem(a, b) # 0 => (TruncRem(a, b) < 0) = (a < 0))
LawBitwise == \A a \in SmallGrid, b \in SmallGrid :
   /\ BitAnd(a, b) + BitOr(a, b) = a + b
   /\ BitXor(a, b) = BitOr(a, b) - BitAnd(a, b)
   /\ BitAnd(a, Inv(a)) = 0 /\ BitOr(a, Inv(a)) = -1 /\ BitXor(a, a) = 0
   /\ BitAnd(a, b) = BitAnd(b, a) /\ BitAnd(a, -1) = a /\ BitOr(a, 0) = a
LawMulMod == \A a \in {0, 1, 2, 255, 256, 257, 40000, 65535}, b \in {0, 1, 3, 255, 256, 1000, 32768, 65535} :
   SafeMul(a, b) => MulMod(a, b, 16) = (a * b) % 65536
LawPromote == \A pl \in Plats, ty \in IntTypes :
   /\ Rank(Promote(pl, ty)) >= 3
   /\ Common(pl, ty, ty) = Promote(pl, ty)
   /\ \A t2 \in IntTypes : Common(pl, ty, t2) = Common(pl, t2, ty) /\ Rank(Common(pl, ty, t2)) >= 3
LawKnownTypes ==
   /\ Promote("p16", "ushort") = "uint" /\ Promote("p32", "ushort") = "int" /\ Promote("p16", "uchar") = "int"
   /\ Common("p32", "uint", "long") = "long" /\ Common("p16", "uint", "long") = "long"
   /\ Common("p32", "int", "uint") = "uint" /\ Common("p32", "ulong", "long") = "ulong"
   /\ LitType("p16", 40000, "") = "long" /\ LitType("p32", 40000, "") = "int" /\ LitType("p16", 40000, "u") = "uint"
LawShift == \A pl \in Plats, a \in {0, 1, 3, 255, 16384, 32767}, n \in {0, 1, 7, 8, 14, 15} :
   /\ Shift(pl, "uint", ">>", a, n).v = a \div Pow2(n)
   /\ (Shift(pl, "int", "<<", a, n).s = "ok" => Shift(pl, "int", "<<", a, n).v = a * Pow2(n))
   /\ Shift(pl, "int", "<<", -1, 1).s = "ub" /\ Shift(pl, "int", ">>", -5, 1) = Ok(-3)
   /\ Shift(pl, "int", "<<", 1, Bits(pl, "int")).s = "ub"
LawOverflow ==
   /\ Arith("p16", "int", "+", 32767, 1).s = "ub" /\ Arith("p16", "uint", "+", 65535, 1) = Ok(0)
   /\ Arith("p16", "uint", "*", 65535, 65535) = Ok(1) /\ Arith("p16", "int", "/", -32768, -1).s = "ub"
   /\ Arith("p32", "int", "+", TMAX, 1).s = "abandon" /\ Arith("p16", "long", "*", 65536, 65536).s = "abandon"
   /\ Arith("p32", "int", "/", 7, 0).s = "ub" /\ Arith("p32", "int", "/", -7, 2) = Ok(-3) /\ Arith("p32", "int", "%", -7, 2) = Ok(-1)
   /\ Unary("p16", "int", "-", -32768).s = "ub" /\ Unary("p16", "uint", "-", 1) = Ok(65535) /\ Unary("p16", "uint", "~", 0) = Ok(65535)
   /\ Conv("p32", "schar", 200) = Ok(-56) /\ Conv("p32", "uchar", -1) = Ok(255) /\ Conv("p32", "uint", -1).s = "abandon"

TypeLaws == /\ LawConvIdempotent /\ LawConvIdentityInRange /\ LawConvCongruent /\ LawDivRem /\ LawBitwise /\ LawMulMod
            /\ LawPromote /\ LawKnownTypes /\ LawShift /\ LawOverflow
ASSUME TypeLaws
ASSUME PrintT(<<"LAWS", "ok">>)
=============================================================================
