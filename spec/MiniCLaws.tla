------------------------------ MODULE MiniCLaws ------------------------------
(* TLC checks the algebraic laws of the integer model (MiniCTypes) and of the *)
(* program format; run with an empty configuration.                           *)
EXTENDS MiniCTypes, TLC
ASSUME TypeLaws
ASSUME PrintT(<<"LAWS", "ok">>)
=============================================================================
