------------------------------- MODULE LibValid -------------------------------
(***************************************************************************)
(* C30 - library configuration semantics are applied as declared.          *)
(*                                                                         *)
(* What the documentation (man/reference-cfg-format.md, "Value range",     *)
(* "Not bool", "Null pointers") says about an <arg> of a configured        *)
(* function, written down declaratively:                                   *)
(*                                                                         *)
(*   <valid>E</valid>   E is a comma separated list of items                *)
(*        v      only the value v                                           *)
(*        a:b    all values between a and b (both included)                 *)
(*        a:     all values greater or equal to a                           *)
(*        :b     all values less or equal to b                              *)
(*        !v     (alone, decimal spelling) all values except v              *)
(*      bounds may be negative and may be decimal ("-1.5:5.6").             *)
(*      A constant argument x is acceptable iff it lies in at least one     *)
(*      item; invalidFunctionArg is reported iff it is not acceptable.      *)
(*   <not-null/>  nullPointer is reported iff the argument is a null        *)
(*                pointer constant / a pointer known to be null.            *)
(*   <not-bool/>  invalidFunctionArgBool is reported iff the argument is a  *)
(*                boolean (truth-valued) expression.                        *)
(*   loading      any file either loads, or is rejected with a message;     *)
(*                the process never dies from a signal and never hangs.     *)
(*                                                                         *)
(* Numbers are integers in TENTHS (0.5 is 5, -2 is -20) so that decimal     *)
(* bounds stay inside TLC's integers.  A number also carries its SPELLING   *)
(* (dec = written with a decimal point, "1.0" vs "1") because the spelling  *)
(* is part of the configuration text although it is no part of the meaning: *)
(* In(x, e) never looks at it.                                              *)
(*                                                                         *)
(* The module is evaluated by TLC in one of several MODEs (IOEnv.MODE):     *)
(*   laws        algebraic laws of In + the manual's examples as facts      *)
(*   gen         enumerate the cases of a stratum -> IOEnv.OUT (ndjson)     *)
(*   judge       cases + observations -> violating cases (ndjson)           *)
(*   genflags / judgeflags     the not-null / not-bool cases                *)
(*   judgeload   predicate over recorded (exit status, signal) of loads     *)
(***************************************************************************)
EXTENDS Integers, Sequences, FiniteSets, TLC, Json, IOUtils, SequencesExt

Mode == IOEnv.MODE

(***************************************************************************)
(* Numbers, items, expressions                                             *)
(***************************************************************************)
Abs(n) == IF n < 0 THEN -n ELSE n

\* all spellings of the values in BV: whole numbers can be written "2" or "2.0", others only "0.5"
Nums(BV) == {[v |-> b, dec |-> d] : b \in BV, d \in BOOLEAN} \ {[v |-> b, dec |-> FALSE] : b \in {c \in BV : c % 10 # 0}}

Val(n)    == [k |-> "val", a |-> n, b |-> n]
Rng(n, m) == [k |-> "rng", a |-> n, b |-> m]
Ge(n)     == [k |-> "ge",  a |-> n, b |-> n]
Le(n)     == [k |-> "le",  a |-> n, b |-> n]
Ne(n)     == [k |-> "ne",  a |-> n, b |-> n]

\* the items of the documented grammar over a set of bound values ("between a and b" is written with a <= b)
Items(BV) == {Val(n) : n \in Nums(BV)} \cup {Ge(n) : n \in Nums(BV)} \cup {Le(n) : n \in Nums(BV)}
             \cup {Rng(p[1], p[2]) : p \in {q \in Nums(BV) \X Nums(BV) : q[1].v <= q[2].v}}
\* "!0.0": documented only standing alone and in decimal spelling
NeExprs(BV) == {<<Ne(n)>> : n \in {q \in Nums(BV) : q.dec}}

(***************************************************************************)
(* Meaning                                                                 *)
(***************************************************************************)
InItem(x, it) ==
  CASE it.k = "val" -> x = it.a.v
    [] it.k = "rng" -> it.a.v <= x /\ x <= it.b.v
    [] it.k = "ge"  -> it.a.v <= x
    [] it.k = "le"  -> x <= it.b.v
    [] it.k = "ne"  -> x # it.a.v

In(x, e) == \E i \in DOMAIN e : InItem(x, e[i])

(***************************************************************************)
(* Where the documentation is silent.  Library::isFloatArgValid accepts a   *)
(* single value only if it is written as a decimal, and test/testlibrary    *)
(* asserts that (valid "1:5,8": 8 is valid, 8.0 is not).  The manual says    *)
(* nothing about a floating-point argument against an integer-spelt single  *)
(* value, so such a case is not judged (either answer is accepted) unless    *)
(* another item decides it.                                                  *)
(***************************************************************************)
IntSingle(it) == it.k = "val" /\ ~it.a.dec
Open(arg, e) == /\ arg.form = "dec"
                /\ \E i \in DOMAIN e : IntSingle(e[i]) /\ e[i].a.v = arg.v
                /\ \A i \in DOMAIN e : InItem(arg.v, e[i]) => IntSingle(e[i])

(***************************************************************************)
(* Spelling (the text that goes into the .cfg and into the C source)        *)
(***************************************************************************)
SpellNum(n) == (IF n.v < 0 THEN "-" ELSE "") \o ToString(Abs(n.v) \div 10)
               \o (IF n.dec THEN "." \o ToString(Abs(n.v) % 10) ELSE "")
SpellItem(it) ==
  CASE it.k = "val" -> SpellNum(it.a)
    [] it.k = "rng" -> SpellNum(it.a) \o ":" \o SpellNum(it.b)
    [] it.k = "ge"  -> SpellNum(it.a) \o ":"
    [] it.k = "le"  -> ":" \o SpellNum(it.b)
    [] it.k = "ne"  -> "!" \o SpellNum(it.a)
SpellExpr(e) == FoldLeft(LAMBDA acc, it : IF acc = "" THEN SpellItem(it) ELSE acc \o "," \o SpellItem(it), "", e)

\* a constant argument: value in tenths + the form of the literal (integer literal / floating literal)
ArgText(arg) == SpellNum([v |-> arg.v, dec |-> arg.form = "dec"])

(***************************************************************************)
(* Case space.  Arguments are taken around every bound of the expression:   *)
(* the bound itself, +-0.1 and +-1, as integer literal and as floating       *)
(* literal.                                                                  *)
(***************************************************************************)
BoundsOf(e) == UNION {{e[i].a.v, e[i].b.v} : i \in DOMAIN e}
Around(e) == UNION {{b - 10, b - 1, b, b + 1, b + 10} : b \in BoundsOf(e)}
Args(e) == {[v |-> x, form |-> "dec"] : x \in Around(e)}
           \cup {[v |-> x, form |-> "int"] : x \in {y \in Around(e) : y % 10 = 0}}

Params == ndJsonDeserialize(IOEnv.PARAMS)[1]
ToSetOf(s) == {s[i] : i \in DOMAIN s}

\* stratum 1: every single item (and every "!v") over the full bound set
\* stratum 2: every list of two items over a (possibly smaller) bound set
\* stratum 3: lists of two or three items chosen by the seeded index tuples in the parameters
S1(B) == SetToSeq({<<it>> : it \in Items(B)} \cup NeExprs(B))
S2(B) == LET I == TLCEval(Items(B)) IN SetToSeq({<<i, j>> : i \in I, j \in I})
S3(its, sample, seen) == SetToSeq({[m \in DOMAIN sample[n] |-> its[(sample[n][m] % Len(its)) + 1]] : n \in DOMAIN sample} \ seen)

CaseOf(i, e) ==
  LET as == SetToSeq(Args(e))
  IN [id |-> i, valid |-> SpellExpr(e), items |-> e, pos |-> (i % 2) + 1,
      args |-> [j \in DOMAIN as |-> [v |-> as[j].v, form |-> as[j].form, text |-> ArgText(as[j])]]]

\* (TLCEval: TLC passes operator arguments and LET definitions unevaluated; without it the parameter file is re-read
\*  at every use of a bound set)
ASSUME Mode = "gen" =>
  LET p == TLCEval(Params)
      b1 == TLCEval(ToSetOf(p.bounds))
      b2 == TLCEval(ToSetOf(p.bounds2))
      s1 == TLCEval(IF p.s1 THEN S1(b1) ELSE <<>>)
      s2 == TLCEval(S2(b2))
      its == TLCEval(SetToSeq(Items(b1)))
      seen == TLCEval(ToSetOf(s1) \cup ToSetOf(s2))
      s3 == TLCEval(S3(its, p.sample, seen))
      all == TLCEval(s1 \o s2 \o s3)
      mine == TLCEval(SelectSeq([i \in DOMAIN all |-> i], LAMBDA i : i % p.nshards = p.shard))
  IN /\ ndJsonSerialize(IOEnv.OUT, [n \in DOMAIN mine |-> CaseOf(mine[n], all[mine[n]])])
     /\ PrintT(<<"EXPRS", Len(all), "MINE", Len(mine), "S1", Len(s1), "S2", Len(s2), "S3", Len(s3)>>)

(***************************************************************************)
(* Judge.  Observation of a case: got[j] = 1 iff cppcheck accepted args[j]  *)
(* (unit binding: isIntArgValid / isFloatArgValid returned true; end to end:*)
(* no invalidFunctionArg at the line of the call; lit = literal argument,   *)
(* var = local variable initialised with the constant).                     *)
(*     accepted  <=>  In(x, expr)          unless Open                      *)
(***************************************************************************)
JCases == IF Mode = "judge" THEN ndJsonDeserialize(IOEnv.CASES) ELSE <<>>
JObs   == IF Mode = "judge" THEN ndJsonDeserialize(IOEnv.OBS) ELSE <<>>

ItemShape(it) == it.k \o (IF it.a.dec \/ it.b.dec THEN ".d" ELSE ".i")
\* What kind of case this is - the stable identity of a deviation (one per kind, reported with exact inputs as
\* witnesses): the kinds (with spelling class) of the items that contain the argument if it is acceptable, of the
\* items with a bound at most 1 away if it is not; whether a decimal point occurs anywhere in the expression; the
\* form of the argument; the expected answer.
KindSet(S) == LET q == SetToSeq(S) IN
  IF Len(q) = 0 THEN "none" ELSE IF Len(q) = 1 THEN q[1] ELSE IF Len(q) = 2 THEN q[1] \o "+" \o q[2]
  ELSE IF Len(q) = 3 THEN q[1] \o "+" \o q[2] \o "+" \o q[3] ELSE "many"
Near(x, it) == Abs(x - it.a.v) <= 10 \/ Abs(x - it.b.v) <= 10
Shape(e, arg) ==
  (IF In(arg.v, e)
   THEN "in:" \o KindSet({ItemShape(e[i]) : i \in {j \in DOMAIN e : InItem(arg.v, e[j])}})
   ELSE "notin:" \o KindSet({ItemShape(e[i]) : i \in {j \in DOMAIN e : Near(arg.v, e[j])}}))
  \o "|expr:" \o (IF \E i \in DOMAIN e : e[i].a.dec \/ e[i].b.dec THEN "dec" ELSE "int") \o "|arg:" \o arg.form

\* The three bindings of a case are observed side by side: JObs[n].unit, JObs[n].lit, JObs[n].var.
Bindings == {"unit", "lit", "var"}
\* what the specification says about every (case, argument) - evaluated once
JInfo == [n \in DOMAIN JCases |-> [j \in DOMAIN JCases[n].args |->
            [in   |-> In(JCases[n].args[j].v, JCases[n].items),
             open |-> Open(JCases[n].args[j], JCases[n].items),
             \* at a bound of the expression or one tenth beside it: the cases that separate <= from <, ":" from ","
             bnd  |-> \E b \in BoundsOf(JCases[n].items) : Abs(JCases[n].args[j].v - b) <= 1]]]
\* all (case, argument) pairs; sets and Cardinality instead of recursive folds (thousands of cases)
JPairs == UNION {{<<n, j>> : j \in DOMAIN JCases[n].args} : n \in DOMAIN JCases}
BadTriples == {t \in JPairs \X Bindings :
                 /\ ~JInfo[t[1][1]][t[1][2]].open
                 /\ (JObs[t[1][1]][t[2]][t[1][2]] = 1) # JInfo[t[1][1]][t[1][2]].in}
BadRec(t) == LET c == JCases[t[1][1]]
                 a == c.args[t[1][2]]
                 g == JObs[t[1][1]][t[2]][t[1][2]] IN
  [id |-> c.id, binding |-> t[2], valid |-> c.valid, arg |-> a.text, form |-> a.form, pos |-> c.pos,
   expected |-> IF In(a.v, c.items) THEN "accepted" ELSE "invalidFunctionArg",
   observed |-> IF g = 1 THEN "accepted" ELSE IF g = 0 THEN "invalidFunctionArg" ELSE "no answer",
   shape |-> Shape(c.items, a)]
BadSeq == LET b == SetToSeq(BadTriples) IN [m \in DOMAIN b |-> BadRec(b[m])]

ASSUME Mode = "judge" =>
  /\ Len(JCases) = Len(JObs)
  /\ \A n \in DOMAIN JCases : /\ JCases[n].id = JObs[n].id
                               /\ \A b \in Bindings : Len(JCases[n].args) = Len(JObs[n][b])
  /\ ndJsonSerialize(IOEnv.OUT, BadSeq)
  /\ PrintT(<<"JUDGED", 3 * Cardinality(JPairs), "PAIRS", Cardinality(JPairs),
              "OPEN", Cardinality({p \in JPairs : JInfo[p[1]][p[2]].open}),
              "INVALID", Cardinality({p \in JPairs : ~JInfo[p[1]][p[2]].in}),
              "BOUNDARY", Cardinality({p \in JPairs : JInfo[p[1]][p[2]].bnd}), "BAD", Len(BadSeq)>>)

(***************************************************************************)
(* not-null / not-bool.  An argument kind is a piece of source text with    *)
(* two semantic attributes: null (a null pointer constant or a pointer       *)
(* known to be null) and bool (a truth-valued expression: bool literal,      *)
(* comparison, logical negation/conjunction).  "decl" are declarations       *)
(* that precede the call; "lang" says where the text is legal.  The          *)
(* attributes are confirmed by the compiler (g++) before a case counts.      *)
(***************************************************************************)
ArgKinds == <<
  [name |-> "zero",     text |-> "0",            decl |-> "",                      lang |-> "both", ptr |-> TRUE,  int |-> TRUE,  null |-> TRUE,  bool |-> FALSE],
  [name |-> "NULL",     text |-> "NULL",         decl |-> "",                      lang |-> "both", ptr |-> TRUE,  int |-> FALSE, null |-> TRUE,  bool |-> FALSE],
  [name |-> "castnull", text |-> "(char*)0",     decl |-> "",                      lang |-> "both", ptr |-> TRUE,  int |-> FALSE, null |-> TRUE,  bool |-> FALSE],
  [name |-> "nullptr",  text |-> "nullptr",      decl |-> "",                      lang |-> "cpp",  ptr |-> TRUE,  int |-> FALSE, null |-> TRUE,  bool |-> FALSE],
  [name |-> "pnull",    text |-> "p",            decl |-> "char *p = 0;",          lang |-> "both", ptr |-> TRUE,  int |-> FALSE, null |-> TRUE,  bool |-> FALSE],
  [name |-> "pNULL",    text |-> "p",            decl |-> "char *p = NULL;",       lang |-> "both", ptr |-> TRUE,  int |-> FALSE, null |-> TRUE,  bool |-> FALSE],
  [name |-> "addr",     text |-> "&c",           decl |-> "char c = 'x';",         lang |-> "both", ptr |-> TRUE,  int |-> FALSE, null |-> FALSE, bool |-> FALSE],
  [name |-> "str",      text |-> "\"abc\"",      decl |-> "",                      lang |-> "both", ptr |-> TRUE,  int |-> FALSE, null |-> FALSE, bool |-> FALSE],
  [name |-> "pvalid",   text |-> "p",            decl |-> "char c = 'x'; char *p = &c;", lang |-> "both", ptr |-> TRUE, int |-> FALSE, null |-> FALSE, bool |-> FALSE],
  [name |-> "one",      text |-> "1",            decl |-> "",                      lang |-> "both", ptr |-> FALSE, int |-> TRUE,  null |-> FALSE, bool |-> FALSE],
  [name |-> "ivar",     text |-> "a",            decl |-> "",                      lang |-> "both", ptr |-> FALSE, int |-> TRUE,  null |-> FALSE, bool |-> FALSE],
  [name |-> "sum",      text |-> "a+b",          decl |-> "",                      lang |-> "both", ptr |-> FALSE, int |-> TRUE,  null |-> FALSE, bool |-> FALSE],
  [name |-> "true",     text |-> "true",         decl |-> "",                      lang |-> "cpp",  ptr |-> FALSE, int |-> TRUE,  null |-> FALSE, bool |-> TRUE],
  [name |-> "false",    text |-> "false",        decl |-> "",                      lang |-> "cpp",  ptr |-> FALSE, int |-> TRUE,  null |-> FALSE, bool |-> TRUE],
  [name |-> "eq",       text |-> "a==b",         decl |-> "",                      lang |-> "both", ptr |-> FALSE, int |-> TRUE,  null |-> FALSE, bool |-> TRUE],
  [name |-> "consteq",  text |-> "1024==0",      decl |-> "",                      lang |-> "both", ptr |-> FALSE, int |-> TRUE,  null |-> FALSE, bool |-> TRUE],
  [name |-> "lt",       text |-> "a<b",          decl |-> "",                      lang |-> "both", ptr |-> FALSE, int |-> TRUE,  null |-> FALSE, bool |-> TRUE],
  [name |-> "not",      text |-> "!a",           decl |-> "",                      lang |-> "both", ptr |-> FALSE, int |-> TRUE,  null |-> FALSE, bool |-> TRUE],
  [name |-> "and",      text |-> "a&&b",         decl |-> "",                      lang |-> "both", ptr |-> FALSE, int |-> TRUE,  null |-> FALSE, bool |-> TRUE]
>>

\* a configured function: which restrictions its restricted argument carries, at which position it is,
\* and whether the parameter is a pointer or an integer
FlagSets == {{}, {"not-null"}, {"not-bool"}, {"not-null", "not-bool"}}
FlagCases == {fc \in [flags : FlagSets, kind : DOMAIN ArgKinds, pos : {1, 2}, lang : {"c", "cpp"}, param : {"ptr", "int"}] :
                  /\ ArgKinds[fc.kind].lang \in {"both", fc.lang}
                  /\ IF fc.param = "ptr" THEN ArgKinds[fc.kind].ptr ELSE ArgKinds[fc.kind].int
                  \* <not-null/> is documented for pointer arguments only
                  /\ "not-null" \in fc.flags => fc.param = "ptr"}

\* the findings (among the two ids of interest) the documentation requires at the call
ExpectedFlags(fc) == {id \in {"nullPointer", "invalidFunctionArgBool"} :
                        \/ id = "nullPointer" /\ "not-null" \in fc.flags /\ ArgKinds[fc.kind].null
                        \/ id = "invalidFunctionArgBool" /\ "not-bool" \in fc.flags /\ ArgKinds[fc.kind].bool}

FlagCaseSeq == SetToSeq(FlagCases)
ASSUME Mode = "genflags" =>
  /\ ndJsonSerialize(IOEnv.OUT, [n \in DOMAIN FlagCaseSeq |->
        LET fc == FlagCaseSeq[n] IN
        [id |-> n, flags |-> SetToSeq(fc.flags), pos |-> fc.pos, lang |-> fc.lang, param |-> fc.param, kind |-> fc.kind,
         name |-> ArgKinds[fc.kind].name, text |-> ArgKinds[fc.kind].text, decl |-> ArgKinds[fc.kind].decl,
         null |-> ArgKinds[fc.kind].null, bool |-> ArgKinds[fc.kind].bool]])
  /\ ndJsonSerialize(IOEnv.KINDS, ArgKinds)

\* observation: [id, ids (sequence of finding ids at the call line), witness_ok (compiler agrees with null/bool)]
FCases == IF Mode = "judgeflags" THEN ndJsonDeserialize(IOEnv.CASES) ELSE <<>>
FObs   == IF Mode = "judgeflags" THEN ndJsonDeserialize(IOEnv.OBS) ELSE <<>>
FCaseOf(c) == [flags |-> ToSetOf(c.flags), kind |-> c.kind, pos |-> c.pos, lang |-> c.lang, param |-> c.param]
ObservedFlags(o) == ToSetOf(o.ids) \cap {"nullPointer", "invalidFunctionArgBool"}
FBad == {n \in DOMAIN FCases : FObs[n].witness_ok /\ ObservedFlags(FObs[n]) # ExpectedFlags(FCaseOf(FCases[n]))}
ASSUME Mode = "judgeflags" =>
  /\ Len(FCases) = Len(FObs)
  /\ \A n \in DOMAIN FCases : FCases[n].id = FObs[n].id /\ FCaseOf(FCases[n]) \in FlagCases
  /\ ndJsonSerialize(IOEnv.OUT, LET b == SetToSeq(FBad) IN [m \in DOMAIN b |->
        [id |-> FCases[b[m]].id, name |-> FCases[b[m]].name, text |-> FCases[b[m]].text, decl |-> FCases[b[m]].decl,
         flags |-> FCases[b[m]].flags, pos |-> FCases[b[m]].pos, lang |-> FCases[b[m]].lang, param |-> FCases[b[m]].param,
         expected |-> SetToSeq(ExpectedFlags(FCaseOf(FCases[b[m]]))), observed |-> SetToSeq(ObservedFlags(FObs[b[m]]))]])
  /\ PrintT(<<"JUDGED", Len(FCases), "DISAGREE", Cardinality({n \in DOMAIN FCases : ~FObs[n].witness_ok}),
              "EXPECTING", Cardinality({n \in DOMAIN FCases : ExpectedFlags(FCaseOf(FCases[n])) # {}}), "BAD", Cardinality(FBad)>>)

(***************************************************************************)
(* Loading.  Observation of one load of a configuration file by the real    *)
(* binary: [name, rc (exit status, -1 if none), signal (0 if none),          *)
(* timeout, msg (an error message about the configuration was printed)].     *)
(* Loaded: exit status 0.  Rejected: exit status 1 and a message.            *)
(***************************************************************************)
LoadOk(o)  == o.rc = 0
LoadErr(o) == o.rc = 1 /\ o.msg
LoadFine(o) == ~o.timeout /\ o.signal = 0 /\ (LoadOk(o) \/ LoadErr(o))
LObs == IF Mode = "judgeload" THEN ndJsonDeserialize(IOEnv.OBS) ELSE <<>>
LBad == SelectSeq(LObs, LAMBDA o : ~LoadFine(o))
ASSUME Mode = "judgeload" =>
  /\ ndJsonSerialize(IOEnv.OUT, LBad)
  /\ PrintT(<<"JUDGED", Len(LObs), "REJECTED", Len(SelectSeq(LObs, LoadErr)), "LOADED", Len(SelectSeq(LObs, LoadOk)), "BAD", Len(LBad)>>)

(***************************************************************************)
(* Laws of the definition (checked over all items of the parameter bounds   *)
(* and all arguments around them) and the manual's examples as facts.       *)
(***************************************************************************)
LB == ToSetOf(Params.bounds)
LItems == Items(LB)
LX == UNION {{b - 10, b - 1, b, b + 1, b + 10} : b \in LB}
N(i) == [v |-> 10 * i, dec |-> FALSE]
D(t) == [v |-> t, dec |-> TRUE]
Members(e, S) == {x \in S : In(x, e)}
Whole(lo, hi) == {10 * i : i \in lo..hi}
Tenths(lo, hi) == lo..hi

\* (TLC evaluates every constant definition once at startup, in every mode: the guard keeps that cheap)
Laws == Mode = "laws" =>
  \* a list is the union of its items; the order of the items does not matter
  /\ \A i \in LItems, j \in LItems, x \in LX : In(x, <<i, j>>) = (In(x, <<i>>) \/ In(x, <<j>>))
  /\ \A i \in LItems, j \in LItems, x \in LX : In(x, <<i, j>>) = In(x, <<j, i>>)
  \* a:b is the intersection of a: and :b ; v is v:v ; !v is the complement of v
  /\ \A n \in Nums(LB), m \in Nums(LB), x \in LX : n.v <= m.v => (InItem(x, Rng(n, m)) = (InItem(x, Ge(n)) /\ InItem(x, Le(m))))
  /\ \A n \in Nums(LB), x \in LX : InItem(x, Val(n)) = InItem(x, Rng(n, n))
  /\ \A n \in Nums(LB), x \in LX : InItem(x, Ne(n)) = ~InItem(x, Val(n))
  \* open ranges are upward / downward closed, every bound belongs to its own range
  /\ \A n \in Nums(LB), x \in LX, y \in LX : (InItem(x, Ge(n)) /\ x <= y) => InItem(y, Ge(n))
  /\ \A n \in Nums(LB), x \in LX, y \in LX : (InItem(x, Le(n)) /\ y <= x) => InItem(y, Le(n))
  /\ \A n \in Nums(LB) : InItem(n.v, Ge(n)) /\ InItem(n.v, Le(n)) /\ InItem(n.v, Val(n))
  \* the spelling of a bound is not part of the meaning
  /\ \A i \in LItems, x \in LX : InItem(x, i) = InItem(x, [i EXCEPT !.a.dec = TRUE, !.b.dec = TRUE])
  \* an open case is never one that a non-single item decides
  /\ \A i \in LItems, j \in LItems, x \in LX : Open([v |-> x, form |-> "dec"], <<i, j>>) => In(x, <<i, j>>)

\* man/reference-cfg-format.md, "Value range"
ManualExamples ==
  /\ SpellExpr(<<Val(N(0)), Val(N(3)), Val(N(5))>>) = "0,3,5"
  /\ Members(<<Val(N(0)), Val(N(3)), Val(N(5))>>, Whole(-2, 7)) = {0, 30, 50}
  /\ SpellExpr(<<Rng(N(-10), N(20))>>) = "-10:20"
  /\ Members(<<Rng(N(-10), N(20))>>, Whole(-12, 22)) = Whole(-10, 20)
  /\ SpellExpr(<<Le(N(0))>>) = ":0"
  /\ Members(<<Le(N(0))>>, Tenths(-30, 30)) = Tenths(-30, 0)
  /\ SpellExpr(<<Ge(N(0))>>) = "0:"
  /\ Members(<<Ge(N(0))>>, Tenths(-30, 30)) = Tenths(0, 30)
  /\ SpellExpr(<<Val(N(0)), Rng(N(2), N(32))>>) = "0,2:32"
  /\ Members(<<Val(N(0)), Rng(N(2), N(32))>>, Whole(-2, 34)) = {0} \cup Whole(2, 32)
  /\ SpellExpr(<<Rng(D(-15), D(56))>>) = "-1.5:5.6"
  /\ Members(<<Rng(D(-15), D(56))>>, Tenths(-30, 70)) = Tenths(-15, 56)
  /\ SpellExpr(<<Ne(D(0))>>) = "!0.0"
  /\ Members(<<Ne(D(0))>>, Tenths(-5, 5)) = Tenths(-5, 5) \ {0}
  \* the example of the manual: do_something(1024) with <valid>0:1023</valid> is an error
  /\ ~In(10240, <<Rng(N(0), N(1023))>>) /\ In(10230, <<Rng(N(0), N(1023))>>)

ASSUME Mode = "laws" => Laws /\ ManualExamples /\ PrintT(<<"LAWS", Cardinality(LItems), Cardinality(LX)>>)
=============================================================================
