--------------------------- MODULE ClangStreamTrace ---------------------------
(***************************************************************************)
(* C35 binding of ClangStream.tla to the code: the clang processes that    *)
(* `cppcheck --clang` really started (harness/clangtee stands in for the   *)
(* clang executable, records argv and where fd 1 / fd 2 lead, and runs     *)
(* clang-14 under strace) - one event per write(2) of the process.         *)
(*                                                                         *)
(* IOEnv.TRACE: ndjson                                                     *)
(*   [e |-> "Header", label, carets, merged, bufs, tails]   a run starts;  *)
(*        carets = "-fno-caret-diagnostics" is not in argv, merged = fd 2   *)
(*        and fd 1 of the process are the same pipe; bufs / tails = the    *)
(*        sizes of the run's writes to fd 1 and their common divisor       *)
(*        (candidates for the unlogged buffer size and the unlogged rest   *)
(*        of the dump)                                                     *)
(*   [e |-> "W", fd |-> 1 | 2, n |-> bytes]                 one write      *)
(*   [e |-> "End"]                                          end of the log *)
(* Every event is bound to an action of ClangStream; BeginDump, EndDump,   *)
(* SummaryDone and an Exit that writes nothing are internal (no event).    *)
(* The log is accepted iff a state with l = Len(Log) + 1 is reachable      *)
(* (NotAccepted violated); Intact, Delivered and TypeOK are evaluated in   *)
(* every state on the way.                                                 *)
(***************************************************************************)
EXTENDS ClangStream, Json, IOUtils, FiniteSets

VARIABLES l, run, hdr      \* position in the log, label and Header line of the current run

Log == ndJsonDeserialize(IOEnv.TRACE)
E == Log[l]
ToSet(q) == {q[i] : i \in 1..Len(q)}

tvars == <<svars, l, run, hdr>>

TInit ==
  /\ l = 1 /\ run = "" /\ hdr = 0
  /\ carets = FALSE /\ merged = FALSE /\ bufsize = 1
  /\ phase = "done" /\ flushed = 0 /\ tail = 0 /\ ndiag = 0 /\ nsum = 0 /\ pipe = <<>> /\ errw = 0

IsEv(e) == l <= Len(Log) /\ E.e = e /\ l' = l + 1

THeader ==
  /\ IsEv("Header") /\ phase = "done"
  /\ run' = E.label /\ hdr' = l
  /\ \E b \in ToSet(E.bufs) : Start(E.carets, E.merged, b)

TWrite1 ==
  /\ IsEv("W") /\ E.fd = 1 /\ UNCHANGED <<run, hdr>>
  /\ \/ E.n % bufsize = 0 /\ FillAndFlush(E.n \div bufsize)
     \/ Exit /\ tail = E.n /\ tail > 0

TWrite2 ==
  /\ IsEv("W") /\ E.fd = 2 /\ UNCHANGED <<run, hdr>>
  /\ Diag \/ SummaryWrite

TEnd == IsEv("End") /\ phase = "done" /\ UNCHANGED <<svars, run, hdr>>

Silent ==
  /\ l <= Len(Log) /\ UNCHANGED <<l, run, hdr>>
  /\ \/ BeginDump
     \/ \E r \in ToSet(Log[hdr].tails) : EndDump(r)
     \/ SummaryDone
     \/ Exit /\ tail = 0

TNext == THeader \/ TWrite1 \/ TWrite2 \/ TEnd \/ (phase # "done" /\ Silent)

TraceSpec == TInit /\ [][TNext]_tvars

NotAccepted == l <= Len(Log)
=============================================================================
