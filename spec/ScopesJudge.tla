----------------------------- MODULE ScopesJudge -----------------------------
(***************************************************************************)
(* C08 / C35 - the verdict on observed name resolution.                    *)
(*                                                                         *)
(* Input IOEnv.OBS: ndjson, one line per program:                          *)
(*   name   label of the program                                           *)
(*   mut    the lambdas of the text are written `mutable` (rendering        *)
(*          variant; only used to name the class of a deviation)            *)
(*   prog   the item list written by Scopes.tla: every name token carries  *)
(*          the id of the declaration the LANGUAGE binds it to             *)
(*   toks   one record per name token of the rendered text:                *)
(*            i, s        which token (item, 0 / index in sub)             *)
(*            line, col   where the renderer put it                        *)
(*            cv          what cppcheck's dump says about the token(s) at  *)
(*                        that position (a sequence: `int x = 0;` is split *)
(*                        into two tokens x at the same position):         *)
(*                          varId                                          *)
(*                          var, vl, vc   has a `variable` attribute; the  *)
(*                                        position of that variable's      *)
(*                                        nameToken                        *)
(*                          fun, fl, fc   has a `function` attribute; the  *)
(*                                        position of its tokenDef         *)
(*            cl          what clang says: the positions <<line, col>> of  *)
(*                        the declarations its AST resolves the token to   *)
(*                        (for a declaring token: the declaration clang    *)
(*                        has at this position)                            *)
(*   (positions are absolute in the translation unit; 0 = absent)          *)
(*                                                                         *)
(* THE PROPERTY (C08), per program, over the tokens T of the text:         *)
(*  (1) SameIdentity  two tokens with the same non-zero varId mean the     *)
(*      same declaration (so distinct declarations never share a varId)    *)
(*  (2) RightVariable a token with a `variable` link: the variable's name  *)
(*      token is the declaration the language binds the token to;          *)
(*      RightVarId: a token with a non-zero varId has the varId of that    *)
(*      declaration's token (when that one has a varId at all)             *)
(*  (3) RightFunction a call with a `function` link: the function's        *)
(*      defining token is the overload the language selects                *)
(* Tokens that cppcheck leaves unlinked are not judged: the property is    *)
(* about the links that exist.                                             *)
(*                                                                         *)
(* SECOND WITNESS.  The expected binding comes from the specification.     *)
(* Before anything is held against cppcheck clang must have bound EVERY    *)
(* token of the program exactly as the specification did; otherwise the    *)
(* program's verdict is "model" (specification and compiler disagree - an  *)
(* error of the specification) and cppcheck is not judged on it.           *)
(*                                                                         *)
(* MODE "refs" (C35): the same tokens, but the expected binding is what    *)
(* clang itself resolved (cl); `prog` ids are used only to name the        *)
(* scoping shape in the class key.                                         *)
(*                                                                         *)
(* Output IOEnv.OUT: one line per program that is not clean:               *)
(*   [name, verdict \in {"model", "violation"}, items: <<[kind, key, what]>>] *)
(* key: the CLASS of the deviation by scoping shape (stable identity for   *)
(* known findings), the first of these that applies:                       *)
(*   mutable-lambda-with-parameters        any variable deviation in a     *)
(*       program rendered with `(params) mutable {` lambdas                *)
(*   declaration-not-distinct:<kind>       a declaration whose own token   *)
(*       is linked to another variable / shares the varId of another       *)
(*       declaration, and every token that should be bound to it           *)
(*   leaked-scope:<kind>                   a token linked to a declaration *)
(*       whose scope has already ended                                     *)
(*   variable-of-reopened-namespace:...    a variable of an earlier block  *)
(*       of the namespace hidden by a later declaration outside            *)
(*   wrong-variable / wrong-varid / shared-varid:<kinds of the tokens>     *)
(*   wrong-function:declared-after-the-call | <call, expected, got>        *)
(* <kind> of a token: global namespace-variable local field smember        *)
(* for-init param lambda-param initcap (declarations); plain this qual     *)
(* glob init initsrc capture for-header (uses).                            *)
(***************************************************************************)
EXTENDS ScopesText, Json, IOUtils

In == ndJsonDeserialize(IOEnv.OBS)
RefMode == IOEnv.JMODE = "refs"

Openers == {"ns", "class", "func", "block", "for", "lambda"}

\* the constructs that are open where item i is written (outermost first); a member function is called "meth"
OpenAt(pr, i) ==
  LET Step(acc, it) == IF it.op = "close" THEN Front(acc)
                       ELSE IF it.op \in Openers
                            THEN Append(acc, IF it.op = "func" /\ acc # <<>> /\ acc[Len(acc)] = "class" THEN "meth" ELSE it.op)
                            ELSE acc
  IN FoldLeft(Step, <<>>, SubSeq(pr, 1, i - 1))

\* a/a/b -> a/b : the class key does not depend on how deep blocks are nested
RECURSIVE Collapse(_)
Collapse(q) == IF Len(q) <= 1 THEN q
               ELSE IF q[1] = q[2] THEN Collapse(Tail(q)) ELSE <<q[1]>> \o Collapse(Tail(q))
RECURSIVE Join(_)
Join(q) == IF q = <<>> THEN "file" ELSE IF Len(q) = 1 THEN q[1] ELSE q[1] \o "/" \o Join(Tail(q))
CtxStr(pr, i) == Join(Collapse(OpenAt(pr, i)))

\* what kind of token: for declarations where they declare, for uses how the name is written
TokKind(pr, t) ==
  IF t.s = 0 THEN (IF pr[t.i].op = "for" THEN "for-init" ELSE IF pr[t.i].op \in {"fdecl", "call"} THEN pr[t.i].op ELSE pr[t.i].form)
  ELSE LET f == pr[t.i].sub[t.s].form IN
       IF f = "param" THEN (IF pr[t.i].op = "lambda" THEN "lambda-param" ELSE "param")
       ELSE IF f = "use" THEN "for-header" ELSE IF f \in {"copy", "ref"} THEN "capture" ELSE f
Describe(pr, t) == TokKind(pr, t) \o "@" \o CtxStr(pr, t.i)

TypeList(sub) == LET names == [j \in DOMAIN sub |-> sub[j].nm]
                     RECURSIVE J(_)
                     J(q) == IF q = <<>> THEN "" ELSE IF Len(q) = 1 THEN q[1] ELSE q[1] \o "," \o J(Tail(q))
                 IN "(" \o J(names) \o ")"

PosStr(p) == ToString(p[1]) \o ":" \o ToString(p[2])

\* the innermost function-like construct around item i
InnerFn(pr, i) == LET q == SelectSeq(OpenAt(pr, i), LAMBDA k : k \in {"func", "meth", "lambda"})
                  IN IF q = <<>> THEN "file" ELSE q[Len(q)]

\* the closing item of the construct opened by item k
CloseOf(pr, k) ==
  LET RECURSIVE F(_, _)
      F(j, depth) == IF j > Len(pr) THEN Len(pr) + 1
                     ELSE IF pr[j].op = "close" THEN (IF depth = 0 THEN j ELSE F(j + 1, depth - 1))
                     ELSE IF pr[j].op \in Openers THEN F(j + 1, depth + 1) ELSE F(j + 1, depth)
  IN F(k + 1, 0)
\* the item whose construct is the scope of a declaring token: the construct itself for parameters, init-captures and
\* for-init declarations, the innermost open block-like construct for a local declaration; 0 for file / namespace / class scope
OpenIdxAt(pr, i) ==
  LET Step(acc, k) == IF pr[k].op = "close" THEN Front(acc) ELSE IF pr[k].op \in Openers THEN Append(acc, k) ELSE acc
  IN FoldLeft(Step, <<>>, [k \in 1..(i - 1) |-> k])
ScopeItem(pr, d) ==
  IF d.s > 0 \/ pr[d.i].op = "for" THEN d.i
  ELSE LET st == OpenIdxAt(pr, d.i) IN
       IF st = <<>> \/ pr[st[Len(st)]].op \in {"ns", "class"} THEN 0 ELSE st[Len(st)]

Judge(p) ==
  LET pr == p.prog
      \* the name tokens of the text, each with its index k in p.toks (its observation)
      TokOf(k) == LET o == p.toks[k] IN
                  IF o.s = 0 THEN [i |-> o.i, s |-> 0, nm |-> pr[o.i].nm, id |-> pr[o.i].id, role |-> MainRole(pr[o.i]), k |-> k]
                  ELSE [i |-> o.i, s |-> o.s, nm |-> pr[o.i].sub[o.s].nm, id |-> pr[o.i].sub[o.s].id, role |-> SubRole(pr[o.i].sub[o.s]), k |-> k]
      T  == {TokOf(k) : k \in DOMAIN p.toks}
      Complete == Cardinality(T) = Cardinality(Toks(pr)) /\ \A t \in T : t.role # ""
      \* the innermost construct open at item i (0: none)
      Encl(i) == LET st == OpenIdxAt(pr, i) IN IF st = <<>> THEN 0 ELSE st[Len(st)]
      InNs(t) == t.s = 0 /\ pr[t.i].op = "decl" /\ pr[t.i].form = "global" /\ Encl(t.i) # 0 /\ pr[Encl(t.i)].op = "ns"
      Kind(t) == IF p.mut /\ TokKind(pr, t) = "lambda-param" THEN "mutable-lambda-param"
                 ELSE IF InNs(t) THEN "namespace-variable" ELSE TokKind(pr, t)
      \* d is a variable of a namespace whose block (the one d is written in) has been closed before token t:
      \* t can only mean d from a later block of the same namespace (or by a qualified name)
      NsClosed(d, t) == InNs(d) /\ t.i > CloseOf(pr, Encl(d.i))
      \* the declaration d is written in a scope that has ended before token t
      Ended(d, t) == d.role = "decl" /\ ScopeItem(pr, d) # 0 /\ t.i > CloseOf(pr, ScopeItem(pr, d))
      O(t) == p.toks[t.k]
      Pos(t) == <<O(t).line, O(t).col>>
      At(pos) == {t \in T : Pos(t) = pos}                       \* the token of the text at a position (at most one)
      SpecDecl(t) == CHOOSE d \in T : d.role \in {"decl", "fdecl"} /\ d.id = t.id
      HasSpecDecl(t) == \E d \in T : d.role \in {"decl", "fdecl"} /\ d.id = t.id
      CL(t) == {<<O(t).cl[k][1], O(t).cl[k][2]>> : k \in DOMAIN O(t).cl}
      CV(t) == {O(t).cv[k] : k \in DOMAIN O(t).cv}
      VarTok(t) == t.role \in {"decl", "use"}

      (* second witness *)
      ClangAgrees(t) == HasSpecDecl(t) /\ CL(t) = {Pos(SpecDecl(t))}
      Disagree == {t \in T : ~ClangAgrees(t)}

      (* the expected declaration position of a token *)
      Expected(t) == IF RefMode THEN CL(t) ELSE {Pos(SpecDecl(t))}
      Judgeable(t) == IF RefMode THEN Cardinality(CL(t)) = 1 /\ (-1) \notin {q[1] : q \in CL(t)} ELSE TRUE
      Exp(t) == CHOOSE e \in Expected(t) : TRUE
      KindAt(pos) == IF At(pos) # {} THEN Kind(CHOOSE t \in At(pos) : TRUE) ELSE "other"
      VarIds(t) == {o.varId : o \in CV(t)} \ {0}

      (* (2) RightVariable: the variable link *)
      BadVar == {t \in T : VarTok(t) /\ Judgeable(t) /\ \E o \in CV(t) : o.var = 1 /\ <<o.vl, o.vc>> \notin Expected(t)}
      GotVar(t) == LET o == CHOOSE o \in CV(t) : o.var = 1 /\ <<o.vl, o.vc>> \notin Expected(t) IN <<o.vl, o.vc>>

      (* (2) RightVarId: the varId is the one of the expected declaration's token (when that token has one) *)
      DeclVarIds(t) == UNION {VarIds(d) : d \in {d \in T : Pos(d) \in Expected(t)}}
      BadId == {t \in T : VarTok(t) /\ Judgeable(t) /\ DeclVarIds(t) # {} /\ \E v \in VarIds(t) : v \notin DeclVarIds(t)}

      (* (1) SameIdentity: same varId, different declarations *)
      Meaning(t) == IF RefMode THEN Expected(t) ELSE {t.id}
      VT == {t \in T : VarTok(t) /\ Judgeable(t)}
      WithId(v) == {t \in VT : v \in VarIds(t)}
      Conflicting == {v \in UNION {VarIds(t) : t \in VT} : Cardinality({Meaning(t) : t \in WithId(v)}) > 1}
      Shared == UNION {{pair \in WithId(v) \X WithId(v) : Meaning(pair[1]) # Meaning(pair[2])} : v \in Conflicting}

      (* A declaration that cppcheck does not keep apart: its own token is linked to another variable, or it has the  *)
      (* varId of another declaration.  Every deviation that involves such a declaration (as the token, *)
      (* or as the declaration the token should be bound to) is one class, named by the kind of the declaration.      *)
      NotDistinct == {d \in T : d.role = "decl" /\ (d \in BadVar \/ \E q \in Shared : q[1] = d /\ q[2].role = "decl")}
      DeclOf(t) == IF At(Exp(t)) # {} THEN CHOOSE d \in At(Exp(t)) : TRUE ELSE t
      Root(t) == IF t \in NotDistinct THEN {t} ELSE IF Judgeable(t) /\ Expected(t) # {} /\ DeclOf(t) \in NotDistinct THEN {DeclOf(t)} ELSE {}
      RootKey(d) == "declaration-not-distinct:" \o Kind(d)
      \* a token linked to a declaration whose scope has ended: one class per kind of the leaking declaration
      LeakTo(t, pos) == At(pos) # {} /\ Ended(CHOOSE d \in At(pos) : TRUE, t)
      LeakIds(t) == {d \in T : d.role = "decl" /\ VarIds(d) \cap VarIds(t) # {} /\ Ended(d, t)}

      (* Rendering variant `mutable`: a lambda written `[..](int x) mutable {` is a construct of its own for cppcheck's *)
      (* scope tracking; whatever goes wrong with variables in a program that contains one is ONE class (the program's *)
      (* twin without `mutable` is judged in full by the other variant).                                                *)
      MutParam == p.mut /\ \E i \in DOMAIN pr : pr[i].op = "lambda" /\ \E j \in DOMAIN pr[i].sub : pr[i].sub[j].form = "param"
      MutKey == "mutable-lambda-with-parameters"

      VarItem(t) == [kind |-> "wrong-variable",
                     key  |-> IF MutParam THEN MutKey ELSE IF Root(t) # {} THEN RootKey(CHOOSE d \in Root(t) : TRUE)
                              ELSE IF LeakTo(t, GotVar(t)) THEN "leaked-scope:" \o KindAt(GotVar(t))
                              ELSE IF At(Exp(t)) # {} /\ NsClosed(DeclOf(t), t) /\ pr[t.i].form # "qual"
                                   THEN "variable-of-reopened-namespace:hidden-by-" \o KindAt(GotVar(t))
                              ELSE "wrong-variable:" \o Kind(t) \o "-in-" \o InnerFn(pr, t.i) \o ":expected=" \o KindAt(Exp(t)) \o ":got=" \o KindAt(GotVar(t)),
                     what |-> "token " \o t.nm \o " at " \o PosStr(Pos(t)) \o " is linked to the variable declared at " \o PosStr(GotVar(t))
                              \o ", the language binds it to the declaration at " \o PosStr(Exp(t))]
      IdItem(t) == [kind |-> "wrong-varid",
                    key  |-> IF MutParam THEN MutKey ELSE IF Root(t) # {} THEN RootKey(CHOOSE d \in Root(t) : TRUE)
                             ELSE IF LeakIds(t) # {} THEN "leaked-scope:" \o Kind(CHOOSE d \in LeakIds(t) : TRUE)
                             ELSE "wrong-varid:" \o Kind(t) \o "-in-" \o InnerFn(pr, t.i) \o ":expected=" \o KindAt(Exp(t)),
                    what |-> "token " \o t.nm \o " at " \o PosStr(Pos(t)) \o " has a varId different from the one of its declaration at " \o PosStr(Exp(t))]
      \* a shared varId is reported once per pair, unless one of the two tokens is already reported as wrongly linked
      SharedRep == {q \in Shared : q[1].role = "decl" /\ q[2] \notin BadVar /\ q[2] \notin BadId /\ q[1] \notin BadVar /\ q[1] \notin BadId
                                   /\ (q[2].role = "decl" => (q[1].i < q[2].i \/ (q[1].i = q[2].i /\ q[1].s < q[2].s)))}
      SharedItem(q) == [kind |-> "shared-varid",
                        key  |-> IF MutParam THEN MutKey ELSE IF Root(q[1]) \cup Root(q[2]) # {} THEN RootKey(CHOOSE d \in Root(q[1]) \cup Root(q[2]) : TRUE)
                                 ELSE IF Ended(q[1], q[2]) THEN "leaked-scope:" \o Kind(q[1])
                                 ELSE "shared-varid:" \o Kind(q[1]) \o ":with=" \o Kind(q[2]),
                        what |-> "declaration " \o q[1].nm \o " at " \o PosStr(Pos(q[1])) \o " and token " \o q[2].nm \o " at " \o PosStr(Pos(q[2]))
                                 \o " have the same varId but mean different declarations"]

      (* (3) RightFunction *)
      BadFun == {t \in T : t.role \in {"call", "fdecl"} /\ Judgeable(t) /\ \E o \in CV(t) : o.fun = 1 /\ <<o.fl, o.fc>> \notin Expected(t)}
      GotFun(t) == LET o == CHOOSE o \in CV(t) : o.fun = 1 /\ <<o.fl, o.fc>> \notin Expected(t) IN <<o.fl, o.fc>>
      ItemAt(pos) == (CHOOSE t \in At(pos) : TRUE).i
      SigAt(pos) == IF At(pos) # {} THEN TypeList(pr[ItemAt(pos)].sub) ELSE "other"
      \* where the declaration is, seen from the call: in the same scope as the best visible one / further out / after the call
      Where(t, pos) == IF At(pos) = {} THEN "other" ELSE IF ItemAt(pos) > t.i THEN "declared-later"
                       ELSE IF OpenAt(pr, ItemAt(pos)) = OpenAt(pr, ItemAt(Exp(t))) THEN "same-scope" ELSE "other-scope"
      FunItem(t) == [kind |-> "wrong-function",
                     \* a function that is declared only after the call is not a candidate at all: one class whatever the types
                     key  |-> IF Where(t, GotFun(t)) = "declared-later" THEN "wrong-function:declared-after-the-call"
                              ELSE "wrong-function:" \o pr[t.i].op \o TypeList(pr[t.i].sub) \o ":expected=" \o SigAt(Exp(t)) \o ":got=" \o SigAt(GotFun(t)) \o "-" \o Where(t, GotFun(t)),
                     what |-> "call of " \o t.nm \o " at " \o PosStr(Pos(t)) \o " is linked to the function declared at " \o PosStr(GotFun(t))
                              \o ", overload resolution selects the declaration at " \o PosStr(Exp(t))]

      items == SetToSeq({VarItem(t) : t \in BadVar}) \o SetToSeq({IdItem(t) : t \in BadId \ BadVar})
               \o SetToSeq({SharedItem(q) : q \in SharedRep}) \o SetToSeq({FunItem(t) : t \in BadFun})
      disItems == SetToSeq({[kind |-> "model",
                             key  |-> "model:" \o Describe(pr, t),
                             what |-> "token " \o t.nm \o " at " \o PosStr(Pos(t)) \o ": the specification binds it to "
                                      \o (IF HasSpecDecl(t) THEN PosStr(Pos(SpecDecl(t))) ELSE "nothing") \o ", clang to " \o ToString(CL(t))] : t \in Disagree})
  IN  IF ~Complete THEN [name |-> p.name, verdict |-> "model", unconfirmed |-> 0,
                             items |-> <<[kind |-> "model", key |-> "model:token-table", what |-> "the token table does not cover the name tokens of the program"]>>]
      ELSE IF ~RefMode /\ Disagree # {} THEN [name |-> p.name, verdict |-> "model", items |-> disItems, unconfirmed |-> Len(items)]
      ELSE IF items # <<>> THEN [name |-> p.name, verdict |-> "violation", items |-> items, unconfirmed |-> 0]
      ELSE [name |-> p.name, verdict |-> "ok", items |-> <<>>, unconfirmed |-> 0]

Verdicts == [k \in DOMAIN In |-> Judge(In[k])]
NotOk == SelectSeq(Verdicts, LAMBDA v : v.verdict # "ok")

ASSUME PrintT(<<"JUDGED", Len(In), "NOTOK", Len(NotOk)>>)
ASSUME ndJsonSerialize(IOEnv.OUT, NotOk)
=============================================================================
