\* ClangRun has no behaviour: the verdicts are computed while TLC evaluates the ASSUMEs of the module.
