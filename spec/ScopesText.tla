----------------------------- MODULE ScopesText -----------------------------
(***************************************************************************)
(* The program text of Scopes.tla: items, and the name tokens of a text    *)
(* with the declaration each one means.  Shared by the specification       *)
(* (Scopes.tla, which writes texts) and the judge (ScopesJudge.tla, which  *)
(* compares what cppcheck and clang say about the same tokens).            *)
(***************************************************************************)
EXTENDS Integers, Sequences, FiniteSets, TLC, SequencesExt

(***************************************************************************)
(* Items of the program text.  All items have the same fields:             *)
(*   op    ns class func block for lambda close decl use fdecl call        *)
(*   nm    the name written (variable, f, namespace; classes, functions    *)
(*         and lambda objects get a name made from their item number)      *)
(*   id    declaration id: the new id for declaring items, the id the      *)
(*         name is bound to for use / call                                 *)
(*   form  decl: global local field smember; use: plain this qual glob;    *)
(*         lambda: "=" "&" "list"                                          *)
(*   q     path of the qualifier of a qualified use                        *)
(*   sub   further name tokens of the construct, in text order:            *)
(*         func/lambda parameters, for-header uses, lambda captures, the   *)
(*         use in an initialiser; for fdecl / call the parameter /         *)
(*         argument types                                                  *)
(***************************************************************************)
Item(op, nm, id, form, q, sub) == [op |-> op, nm |-> nm, id |-> id, form |-> form, q |-> q, sub |-> sub]
Sub(nm, id, form) == [nm |-> nm, id |-> id, form |-> form]
CloseItem == Item("close", "", 0, "", <<>>, <<>>)

(***************************************************************************)
(* Name tokens of a program and what they mean.                            *)
(*   Toks(pr): [i |-> item, s |-> 0 for the item's own name or the index   *)
(*   in sub, nm, id, role \in {"decl", "use", "fdecl", "call"}]            *)
(***************************************************************************)
MainRole(it) == CASE it.op \in {"decl", "for"} -> "decl" [] it.op = "use" -> "use" [] it.op = "fdecl" -> "fdecl"
                  [] it.op = "call" -> "call" [] OTHER -> ""
SubRole(sb) == CASE sb.form \in {"param", "initcap"} -> "decl" [] sb.form \in {"use", "copy", "ref", "initsrc", "init"} -> "use" [] OTHER -> ""
Toks(pr) ==
  {[i |-> i, s |-> 0, nm |-> pr[i].nm, id |-> pr[i].id, role |-> MainRole(pr[i])] : i \in {j \in DOMAIN pr : MainRole(pr[j]) # ""}}
  \cup UNION {{[i |-> i, s |-> s, nm |-> pr[i].sub[s].nm, id |-> pr[i].sub[s].id, role |-> SubRole(pr[i].sub[s])] :
                 s \in {t \in DOMAIN pr[i].sub : SubRole(pr[i].sub[t]) # ""}} : i \in DOMAIN pr}

=============================================================================
