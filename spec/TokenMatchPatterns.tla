------------------------- MODULE TokenMatchPatterns --------------------------
(***************************************************************************)
(* C33, step "patterns": writes this shard's generated patterns            *)
(* [pid, kind, cs (characters), hv (contains %varid%)] to IOEnv.OUTGEN      *)
(* after checking that each survives rendering and parsing.                 *)
(***************************************************************************)
EXTENDS TokenMatchGrammar

\* every generated pattern survives render + parse; a simple pattern means the same under both parsers
ASSUME LawRoundTrip ==
  \A g \in MyGen : LET p == GenPattern(g) IN
     /\ Parse(Render(p)) = [ok |-> TRUE, elems |-> p]
     /\ (GenIsSimple(g) => ParseSimple(Render(p)) = [ok |-> TRUE, elems |-> p])

GenOut == [k \in 1..Len(GenSeq) |->
             LET g == GenSeq[k]
                 p == GenPattern(g)
             IN [pid |-> P.base + g, kind |-> GenKind(g), cs |-> Render(p), hv |-> HasVarid(p)]]

ASSUME ndJsonSerialize(IOEnv.OUTGEN, GenOut)
ASSUME PrintT(<<"GEN", Len(GenSeq), "POOL", M>>)
=============================================================================
