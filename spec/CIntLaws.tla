------------------------------ MODULE CIntLaws ------------------------------
(***************************************************************************)
(* Self-check of CInt.tla (run with an empty configuration): the limb      *)
(* algorithms agree with TLC's own integer arithmetic wherever that is     *)
(* exact, satisfy the ring / division laws on 64-bit boundary values, and  *)
(* reproduce known decimal constants.                                      *)
(***************************************************************************)
EXTENDS CInt, TLC, FiniteSets

S == {-40000, -32768, -32767, -257, -256, -255, -128, -10, -3, -2, -1, 0, 1, 2, 3, 9, 10, 127, 128, 255, 256, 257, 32767, 32768, 40000}
I(n) == IFromSmall(n)

Sgn(n) == IF n < 0 THEN -1 ELSE IF n > 0 THEN 1 ELSE 0
Abs(n) == IF n < 0 THEN 0 - n ELSE n
\* truncating division on TLC integers
TDiv(a, b) == Sgn(a) * Sgn(b) * (Abs(a) \div Abs(b))
TRem(a, b) == a - b * TDiv(a, b)

ASSUME \A a \in S : IToSmall(I(a)) = a
ASSUME \A a, b \in S : IToSmall(IAdd(I(a), I(b))) = a + b
ASSUME \A a, b \in S : IToSmall(ISub(I(a), I(b))) = a - b
ASSUME \A a, b \in S : IToSmall(IMul(I(a), I(b))) = a * b
ASSUME \A a, b \in S : b # 0 => IToSmall(IDiv(I(a), I(b))) = TDiv(a, b) /\ IToSmall(IRem(I(a), I(b))) = TRem(a, b)
ASSUME \A a, b \in S : ICmp(I(a), I(b)) = Sgn(a - b)
ASSUME \A a \in S : a >= 0 => \A n \in 0..12 : NToSmall(NShl(NFromSmall(a), n)) = a * 2^n /\ NToSmall(NShr(NFromSmall(a), n)) = a \div 2^n
ASSUME \A a \in S : \A w \in {8, 16} : IToSmall(IWrap(I(a), w, TRUE)) = ((a + 2^(w-1)) % 2^w) - 2^(w-1)
ASSUME \A a \in S : IWrap(I(a), 32, TRUE) = I(a) /\ IWrap(I(a), 64, TRUE) = I(a)
ASSUME \A a \in S : \A w \in {8, 16} : IToSmall(IWrap(I(a), w, FALSE)) = a % 2^w

\* 64-bit boundary values
P(n) == INat(NPow2(n))
M1(x) == ISub(x, IOne)
Big == {IZero, IOne, I(-1), P(31), M1(P(31)), INeg(P(31)), P(32), M1(P(32)), P(63), M1(P(63)), INeg(P(63)), P(64), M1(P(64)), I(10), I(-7), I(1000000007)}

ASSUME \A x, y \in Big : IAdd(x, y) = IAdd(y, x) /\ ISub(IAdd(x, y), y) = x /\ IMul(x, y) = IMul(y, x)
Mid == {IOne, I(-1), M1(P(31)), P(32), INeg(P(63)), M1(P(64)), I(-7), I(1000000007)}
ASSUME \A x, y, z \in Mid : IMul(x, IAdd(y, z)) = IAdd(IMul(x, y), IMul(x, z))
ASSUME \A x, y \in Big : ~IIsZero(y) =>
          /\ IAdd(IMul(IDiv(x, y), y), IRem(x, y)) = x
          /\ NLt(IRem(x, y).mag, y.mag)
          /\ (IIsZero(IRem(x, y)) \/ IRem(x, y).neg = x.neg)
ASSUME \A x \in Big : IFromDecChars(IToDecChars(x)) = x
ASSUME \A x \in Big : \A w \in {8, 16, 32, 64} : \A s \in BOOLEAN :
          LET y == IWrap(x, w, s) IN IFits(y, w, s) /\ IBits(y, w) = IBits(x, w) /\ ILe(IMin(w, s), y) /\ ILe(y, IMax(w, s))
ASSUME \A x, y \in Big : \A w \in {32, 64} :
          LET a == IBits(x, w)  b == IBits(y, w)
          IN  /\ NAdd(NBitwise("and", a, b), NBitwise("or", a, b)) = NAdd(a, b)
              /\ NBitwise("xor", a, b) = NSub(NBitwise("or", a, b), NBitwise("and", a, b))
              /\ NBitwise("xor", a, a) = <<>>
ASSUME \A x \in Big : \A n \in {0, 1, 7, 8, 9, 31, 32, 63} : NShr(NShl(x.mag, n), n) = x.mag /\ NShl(x.mag, n) = NMul(x.mag, NPow2(n))

ASSUME IToDecStr(M1(P(64))) = "18446744073709551615"
ASSUME IToDecStr(INeg(P(63))) = "-9223372036854775808"
ASSUME IToDecStr(M1(P(32))) = "4294967295"
ASSUME IToDecStr(IMul(M1(P(64)), M1(P(64)))) = "340282366920938463426481119284349108225"
ASSUME IToDecStr(IDiv(M1(P(64)), I(10))) = "1844674407370955161"
ASSUME IFromDecChars(<<"-", "2", "1", "4", "7", "4", "8", "3", "6", "4", "8">>) = INeg(P(31))
ASSUME NFromDigits(<<15, 15, 15, 15, 15, 15, 15, 15>>, 16) = M1(P(32)).mag
ASSUME NFromDigits(<<1, 7, 7, 7, 7, 7, 7, 7, 7, 7, 7, 7>>, 8) = M1(P(34)).mag
ASSUME IWrap(M1(P(32)), 32, TRUE) = I(-1) /\ IWrap(I(-1), 64, FALSE) = M1(P(64)) /\ IWrap(P(31), 32, TRUE) = INeg(P(31))
ASSUME PrintT(<<"CIntLaws", "OK", Cardinality(S), Cardinality(Big)>>)
=============================================================================
