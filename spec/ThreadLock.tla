----------------------------- MODULE ThreadLock -----------------------------
(***************************************************************************)
(* C16: the lock discipline of the thread executor.                        *)
(*                                                                         *)
(* Shared objects and the mutex that guards each of them (Guard), as read  *)
(* from the code:                                                          *)
(*   suppressions (SuppressionList::mSuppressions)  mSuppressionsSync      *)
(*   execDup      (Executor::mErrorList)            mErrorListSync         *)
(*   fileIter     (ThreadData iterators/counters)   mFileSync              *)
(*   report       (downstream logger / StdLogger)   mReportSync            *)
(*   timerResults (TimerResults::mResults)          mResultsSync           *)
(*   timerCout    (std::cout in showResults)        stdCoutLock            *)
(* A thread accesses a guarded object only while it holds the guard; in    *)
(* the sequential phases (before the workers start, after they joined) the *)
(* main thread may access anything without a lock.                         *)
(*                                                                         *)
(* TLC explores every interleaving of the threads over their access sites  *)
(* and proves NoRace for this discipline; with Discipline = FALSE (a site  *)
(* that skips its guard) TLC must find the race.                           *)
(* LockTrace.tla validates that every instrumented site of the real code   *)
(* follows the discipline (the lock state is measured at the site).        *)
(***************************************************************************)
EXTENDS Integers, FiniteSets, TLC

CONSTANTS Threads, Discipline

Objects == {"suppressions", "execDup", "fileIter", "report", "timerResults", "timerCout"}
Guard == [suppressions |-> "mSuppressionsSync", execDup |-> "mErrorListSync", fileIter |-> "mFileSync",
          report |-> "mReportSync", timerResults |-> "mResultsSync", timerCout |-> "stdCoutLock"]
Mutexes == {Guard[o] : o \in Objects}

VARIABLES held,    \* [thread -> set of mutexes it holds]
          acc,     \* [thread -> object it is accessing, or "-"]
          skipped  \* ghost: a thread entered an object without its guard (only when Discipline = FALSE)

vars == <<held, acc, skipped>>

Init == held = [t \in Threads |-> {}] /\ acc = [t \in Threads |-> "-"] /\ skipped = FALSE

Owner(m) == {t \in Threads : m \in held[t]}

Acquire(t, m) == /\ acc[t] = "-" /\ Owner(m) = {} /\ held[t] = {}       \* sites take one lock at a time (no nesting in the code)
                 /\ held' = [held EXCEPT ![t] = @ \cup {m}] /\ UNCHANGED <<acc, skipped>>
Release(t, m) == /\ acc[t] = "-" /\ m \in held[t]
                 /\ held' = [held EXCEPT ![t] = @ \ {m}] /\ UNCHANGED <<acc, skipped>>
Begin(t, o) == /\ acc[t] = "-"
               /\ IF Discipline THEN Guard[o] \in held[t] /\ UNCHANGED skipped
                  ELSE skipped' = (skipped \/ Guard[o] \notin held[t])
               /\ acc' = [acc EXCEPT ![t] = o] /\ UNCHANGED held
End(t) == acc[t] # "-" /\ acc' = [acc EXCEPT ![t] = "-"] /\ UNCHANGED <<held, skipped>>

Next == \E t \in Threads : \/ \E m \in Mutexes : Acquire(t, m) \/ Release(t, m)
                           \/ \E o \in Objects : Begin(t, o)
                           \/ End(t)
Spec == Init /\ [][Next]_vars

\* no two threads are inside the same object at the same time (every access site may write)
NoRace == \A t1, t2 \in Threads : t1 # t2 /\ acc[t1] # "-" => acc[t1] # acc[t2]
MutexOK == \A m \in Mutexes : Cardinality(Owner(m)) <= 1
=============================================================================
