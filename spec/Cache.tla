-------------------------------- MODULE Cache --------------------------------
(***************************************************************************)
(* The build-directory cache (--cppcheck-build-dir) as a state machine:    *)
(* C18 (edit histories), C19 (option histories), C20 (interrupted runs).   *)
(*                                                                         *)
(* A source version is abstract: tok (token content incl. headers), pos    *)
(* (layout: where the tokens are), sup (inline suppression comments).      *)
(* What an analysis reports for a file is a function of all of them and of *)
(* the options - locations are part of every finding.                      *)
(* The cache key is a parameter: with the ideal key (everything that the   *)
(* report depends on) TLC proves Transparent for every history; with a     *)
(* weakened key or a weakened acceptance rule TLC must find a stale-cache  *)
(* history (this is how the check shows the invariant is not vacuous, and  *)
(* these are the histories the binding step tries on the real binary).     *)
(***************************************************************************)
EXTENDS Integers, Sequences, FiniteSets, TLC

CONSTANTS Files,      \* set of source files
          MaxEdits,   \* bound on the history length
          KeyMode,    \* "ideal" | "pos8" (positions folded) | "noopt" (an option missing) | "acceptopen" (unclosed entry accepted)
          Jobs        \* 1: files one after the other; 2: two files may be in progress at once

VARIABLES src,    \* [file -> [tok, pos, sup]]
          opt,    \* abstract option value 0..1
          dir,    \* [file -> [st: "none"|"open"|"closed", key, res]]   the entries in the build directory
          rep,    \* [file -> what the current/last run reported for it, or "-"]
          todo,   \* files the current run still has to handle
          act,    \* [file -> "idle"|"writing"] files being analysed by the current run
          nedit,  \* number of edits so far
          running,
          settled \* TRUE exactly between the end of a complete run and the next edit / run

vars == <<src, opt, dir, rep, todo, act, nedit, running, settled>>

Result(f) == <<src[f].tok, src[f].pos, src[f].sup, opt>>        \* the report a fresh analysis gives
NoRep == [st |-> "none", res |-> <<>>]
Done(r) == [st |-> "done", res |-> r]

Key(f) == CASE KeyMode = "pos8"  -> <<src[f].tok, src[f].pos % 2, src[f].sup, opt>>   \* 2 stands for 256
            [] KeyMode = "noopt" -> <<src[f].tok, src[f].pos, src[f].sup, 0>>
            [] OTHER             -> <<src[f].tok, src[f].pos, src[f].sup, opt>>

Init == /\ src = [f \in Files |-> [tok |-> 0, pos |-> 0, sup |-> 0]]
        /\ opt = 0
        /\ dir = [f \in Files |-> [st |-> "none", key |-> <<>>, res |-> <<>>]]
        /\ rep = [f \in Files |-> NoRep]
        /\ todo = {} /\ act = [f \in Files |-> "idle"] /\ nedit = 0 /\ running = FALSE /\ settled = FALSE

\* ---- the environment: edits and option changes happen between runs
Edit(f, what) ==
  /\ ~running /\ nedit < MaxEdits
  /\ src' = [src EXCEPT ![f] = CASE what = "tok" -> [@ EXCEPT !.tok = (@ + 1) % 2]
                                 [] what = "pos" -> [@ EXCEPT !.pos = (@ + 1) % 4]
                                 [] what = "sup" -> [@ EXCEPT !.sup = (@ + 1) % 2]]
  /\ nedit' = nedit + 1 /\ settled' = FALSE
  /\ UNCHANGED <<opt, dir, rep, todo, act, running>>

ChangeOpt ==
  /\ ~running /\ nedit < MaxEdits
  /\ opt' = 1 - opt /\ nedit' = nedit + 1 /\ settled' = FALSE
  /\ UNCHANGED <<src, dir, rep, todo, act, running>>

\* ---- one run
RunBegin ==
  /\ ~running
  /\ running' = TRUE /\ todo' = Files /\ rep' = [f \in Files |-> NoRep] /\ settled' = FALSE
  /\ UNCHANGED <<src, opt, dir, act, nedit>>

InProgress == {f \in Files : act[f] # "idle"}

Usable(e, f) == /\ e.key = Key(f)
                /\ e.st = "closed" \/ (KeyMode = "acceptopen" /\ e.st = "open")

\* AnalyzerInformation::analyzeFile: hit -> replay the stored findings, miss -> (re)open the entry
Lookup(f) ==
  /\ running /\ f \in todo /\ Cardinality(InProgress) < Jobs
  /\ todo' = todo \ {f}
  /\ IF Usable(dir[f], f)
     THEN /\ rep' = [rep EXCEPT ![f] = Done(dir[f].res)]
          /\ UNCHANGED <<dir, act>>
     ELSE /\ dir' = [dir EXCEPT ![f] = [st |-> "open", key |-> Key(f), res |-> <<>>]]
          /\ act' = [act EXCEPT ![f] = "writing"]
          /\ UNCHANGED rep
  /\ UNCHANGED <<src, opt, nedit, running, settled>>

\* the findings are appended while the file is analysed, then the end tag is written
Write(f) ==
  /\ running /\ act[f] = "writing" /\ dir[f].res = <<>>
  /\ dir' = [dir EXCEPT ![f].res = Result(f)]
  /\ UNCHANGED <<src, opt, rep, todo, act, nedit, running, settled>>

Close(f) ==
  /\ running /\ act[f] = "writing" /\ dir[f].res # <<>>
  /\ dir' = [dir EXCEPT ![f].st = "closed"]
  /\ rep' = [rep EXCEPT ![f] = Done(Result(f))]
  /\ act' = [act EXCEPT ![f] = "idle"]
  /\ UNCHANGED <<src, opt, todo, nedit, running, settled>>

RunEnd ==
  /\ running /\ todo = {} /\ InProgress = {}
  /\ running' = FALSE /\ settled' = TRUE
  /\ UNCHANGED <<src, opt, dir, rep, todo, act, nedit>>

\* the whole run is killed at any point: entries stay as they are on disk (possibly without end tag)
Kill ==
  /\ running
  /\ running' = FALSE /\ todo' = {} /\ act' = [f \in Files |-> "idle"]
  /\ rep' = [f \in Files |-> [st |-> "killed", res |-> <<>>]] /\ settled' = FALSE
  /\ UNCHANGED <<src, opt, dir, nedit>>

Next == \/ \E f \in Files, w \in {"tok", "pos", "sup"} : Edit(f, w)
        \/ ChangeOpt \/ RunBegin \/ RunEnd \/ Kill
        \/ \E f \in Files : Lookup(f) \/ Write(f) \/ Close(f)

Spec == Init /\ [][Next]_vars

\* C18/C19/C20: a complete run reports, for every file, what a run without build directory reports
Transparent == settled => \A f \in Files : rep[f].st = "done" /\ rep[f].res = Result(f)

\* an entry is only ever usable when its content is the result for its key (the inductive heart of the argument)
EntrySound == \A f \in Files : (dir[f].st = "closed" /\ dir[f].key = Key(f) /\ KeyMode = "ideal") => dir[f].res = Result(f)

TypeOK == /\ \A f \in Files : dir[f].st \in {"none", "open", "closed"}
          /\ nedit \in 0..MaxEdits
=============================================================================
