
