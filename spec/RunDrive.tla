------------------------------ MODULE RunDrive ------------------------------
(***************************************************************************)
(* Closed system for model checking Run.tla: the analysis of a file is a   *)
(* constant (the raw findings it produces, the inline suppressions it      *)
(* contributes); the driver feeds them through the actions of Run in every *)
(* interleaving the executors allow.                                       *)
(***************************************************************************)
EXTENDS Run

CONSTANTS
  Files,        \* sequence of file names (command line order)
  RawOf,        \* [file -> sequence of findings]
  InlineOf,     \* [file -> set of suppression keys its comments contribute (its own and its headers')]
  MarkOf,       \* [file -> set of inline keys whose line is in the file's token list]
  SupprInfo,    \* [key -> [inl, local, wild, line]]   every suppression of the model
  CmdKeys,      \* keys given on the command line
  ResOf(_, _),  \* ResOf(key, finding) \in {"N", "C", "M"}   Suppression::isSuppressed
  DummyOf(_, _),\* DummyOf(key, file) \in {"N", "C"}         result for the per-file dummy query
  NoFailSet,    \* findings matched by an exit-code suppression
  LibDrop,      \* findings dropped by library.reportErrors
  EarlyExit,    \* files whose check returns before the duplicate list is cleared
  Threads,      \* worker ids of the thread executor
  NJobs,        \* -j
  CrashFiles,   \* files whose worker process may die at any point (C21)
  Bug           \* "none", or a deliberately wrong driver used to show that the properties are not vacuous:
                \*   "dropSupprSync": a worker process does not send back the state of consulted non-inline suppressions

VARIABLES q,    \* index of the next file to hand out
          dv    \* [worker -> [stage, pos, todo]] driver program counter

dvars == <<vars, q, dv>>

FK(x) == x.id \o "@" \o x.file       \* rendered text of a finding (model: id and file)

Rec(k, c, m) == [inl |-> SupprInfo[k].inl, local |-> SupprInfo[k].local, wild |-> SupprInfo[k].wild,
                 line |-> SupprInfo[k].line, checked |-> c, matched |-> m, id |-> k, file |-> k]

CmdList == [k \in CmdKeys |-> Rec(k, FALSE, FALSE)]

\* result map of a query over the list of space a
ResMap(a, glob, x) ==
  LET ks == {k \in DOMAIN sl[a] : (glob \/ sl[a][k].local) /\ ResOf(k, x) # "N"}
  IN [k \in ks |-> ResOf(k, x)]
DummyMap(a, f) ==
  LET ks == {k \in DOMAIN sl[a] : DummyOf(k, f) # "N"}
  IN [k \in ks |-> "C"]

DInit ==
  /\ sl = [a \in {"main", "T"} |-> CmdList]
  /\ wk = ("main" :> Idle)
  /\ ldup = ("main" :> {})
  /\ edup = {} /\ shown = {} /\ emitted = <<>>
  /\ xflag = ("main" :> FALSE)
  /\ result = 0
  /\ pipe = <<>> /\ chst = <<>>
  /\ phase = "exec" /\ unm = {} /\ nfm = {} /\ exit = -1
  /\ q = 1
  /\ dv = ("main" :> [stage |-> "none", pos |-> 0, todo |-> {}])

D0 == [stage |-> "new", pos |-> 0, todo |-> {}]
SetDv(w, r) == dv' = IF w \in DOMAIN dv THEN [dv EXCEPT ![w] = r] ELSE dv @@ (w :> r)
Stage(w) == IF w \in DOMAIN dv THEN dv[w].stage ELSE "none"

Cur(w) == RawOf[wk[w].f][dv[w].pos]

\* ------------------------------------------------------------- hand out files
Child(f) == "c" \o f
Alive == {c \in DOMAIN chst : ~chst[c].reaped}

DStart ==
  /\ q <= Len(Files)
  /\ LET f == Files[q] IN
     \/ /\ Mode = "single" /\ Stage("main") = "none" /\ StartWorker("main", f)
        /\ SetDv("main", [D0 EXCEPT !.stage = IF q = 1 THEN "new" ELSE "dummy"])
     \/ /\ Mode = "thread"
        /\ \E w \in Threads : /\ (IF w \in DOMAIN wk THEN wk[w].st = "idle" /\ Stage(w) = "none" ELSE TRUE)
                             /\ StartWorker(w, f) /\ SetDv(w, D0)
     \/ /\ Mode = "process" /\ Cardinality(Alive) < NJobs
        /\ Spawn(Child(f), f) /\ SetDv(Child(f), D0)
  /\ q' = q + 1

\* Executor::hasToLog + StdLogger for context e (thread worker itself, or parent:c)
DExec(e, x) ==
  \/ /\ wk[e].st = "fwd" /\ DOMAIN sl["main"] # {} /\ ExecSupprQuery(e, ResMap("main", TRUE, x))
  \/ /\ ExecReady(e) /\ ~EmitDup /\ FK(x) \notin edup /\ ExecPass(e, x, FK(x))
  \/ /\ ExecReady(e) /\ ~EmitDup /\ FK(x) \in edup /\ ExecDup(e, x, FK(x))
  \/ /\ wk[e].st = "epass" /\ ExecDone(e, x, "pass")
  \/ /\ ExecReady(e) /\ EmitDup /\ ExecDone(e, x, "pass")
  \/ /\ wk[e].st = "edrop" /\ ExecDone(e, x, "dup")
  \/ /\ wk[e].st = "eq" /\ wk[e].supp /\ ExecDone(e, x, "suppressed")
  \/ /\ wk[e].st = "std" /\ Emit(e, x, FK(x), ~EmitDup /\ FK(x) \in shown)

\* ------------------------------------------------------------- one worker's file
DWorker(w) ==
  LET f == wk[w].f
      a == Space(w)
      s == dv[w].stage
  IN
  \/ /\ s = "new" /\ NewChecker(w) /\ SetDv(w, [dv[w] EXCEPT !.stage = "dummy"]) /\ UNCHANGED q
  \/ /\ s = "dummy" /\ DummyQuery(w, DummyMap(a, f)) /\ SetDv(w, [dv[w] EXCEPT !.stage = "begin"]) /\ UNCHANGED q
  \/ /\ s = "begin" /\ CheckBegin(w, f)
     /\ SetDv(w, [dv[w] EXCEPT !.stage = "inl", !.todo = InlineOf[f]]) /\ UNCHANGED q
  \/ /\ s = "inl" /\ dv[w].todo # {}
     /\ LET k == CHOOSE k \in dv[w].todo : TRUE IN
          /\ SupprAdd(a, k, Rec(k, FALSE, FALSE), IF k \in DOMAIN sl[a] THEN "exists" ELSE "added")
          /\ SetDv(w, [dv[w] EXCEPT !.todo = @ \ {k}])
     /\ UNCHANGED q
  \/ /\ s = "inl" /\ dv[w].todo = {}
     /\ SupprMark(a, {k \in MarkOf[f] : k \in DOMAIN sl[a] /\ ~sl[a][k].checked})
     /\ SetDv(w, [dv[w] EXCEPT !.stage = "find", !.pos = 1]) /\ UNCHANGED q
  \* ---- a finding
  \/ /\ s = "find" /\ wk[w].st = "file" /\ dv[w].pos <= Len(RawOf[f])
     /\ Raw(w, Cur(w)) /\ UNCHANGED <<q, dv>>
  \/ /\ s = "find" /\ wk[w].st = "raw" /\ Cur(w) \in LibDrop
     /\ LibraryDrop(w, Cur(w)) /\ SetDv(w, [dv[w] EXCEPT !.pos = @ + 1]) /\ UNCHANGED q
  \/ /\ s = "find" /\ wk[w].st = "raw" /\ Cur(w) \notin LibDrop
     /\ Query1(w, UseGlobal(w), ResMap(a, UseGlobal(w), Cur(w))) /\ UNCHANGED <<q, dv>>
  \/ /\ s = "find" /\ wk[w].st = "q1"
     /\ Gate(w, Cur(w), FK(Cur(w)), wk[w].supp, FALSE)
     /\ IF wk'[w].st = "file" THEN SetDv(w, [dv[w] EXCEPT !.pos = @ + 1]) ELSE UNCHANGED dv
     /\ UNCHANGED q
  \/ /\ s = "find" /\ wk[w].st = "dup"
     /\ LocalDup(w, Cur(w)) /\ SetDv(w, [dv[w] EXCEPT !.pos = @ + 1]) /\ UNCHANGED q
  \/ /\ s = "find" /\ wk[w].st = "gated"
     /\ QueryNoFail(w, Cur(w) \in NoFailSet) /\ UNCHANGED <<q, dv>>
  \/ /\ s = "find" /\ wk[w].st = "qf" /\ ~wk[w].nf
     /\ Query2(w, TRUE, ResMap(a, TRUE, Cur(w))) /\ UNCHANGED <<q, dv>>
  \/ /\ s = "find" /\ wk[w].st = "q2" /\ ~wk[w].nm
     /\ ExitFlag(w, Cur(w)) /\ UNCHANGED <<q, dv>>
  \/ /\ s = "find" /\ (wk[w].st = "xf" \/ (wk[w].st = "qf" /\ wk[w].nf) \/ (wk[w].st = "q2" /\ wk[w].nm))
     /\ Forward(w, Cur(w)) /\ UNCHANGED <<q, dv>>
  \* ---- downstream of Forward
  \/ /\ s = "find" /\ wk[w].st = "fwd" /\ w = "main"
     /\ Emit(w, Cur(w), FK(Cur(w)), ~EmitDup /\ FK(Cur(w)) \in shown)
     /\ SetDv(w, [dv[w] EXCEPT !.pos = @ + 1]) /\ UNCHANGED q
  \/ /\ s = "find" /\ wk[w].st = "fwd" /\ Mode = "process" /\ w # "main"
     /\ SendErr(w, Cur(w)) /\ UNCHANGED <<q, dv>>
  \/ /\ s = "find" /\ wk[w].st = "sending"
     /\ Sent(w, "2", 0) /\ SetDv(w, [dv[w] EXCEPT !.pos = @ + 1]) /\ UNCHANGED q
  \/ /\ s = "find" /\ Mode = "thread" /\ w # "main" /\ DExec(w, Cur(w))
     /\ IF wk'[w].st = "file" THEN SetDv(w, [dv[w] EXCEPT !.pos = @ + 1]) ELSE UNCHANGED dv
     /\ UNCHANGED q
  \* ---- end of file
  \/ /\ s = "find" /\ wk[w].st = "file" /\ dv[w].pos > Len(RawOf[f])
     /\ IF f \in EarlyExit THEN UNCHANGED vars ELSE DupClear(w)
     /\ SetDv(w, [dv[w] EXCEPT !.stage = "end"]) /\ UNCHANGED q
  \/ /\ s = "end" /\ CheckEnd(w, IF xflag[w] THEN 1 ELSE 0)
     /\ SetDv(w, [dv[w] EXCEPT !.stage = IF Mode = "single" THEN "none" ELSE "acct"]) /\ UNCHANGED q
  \/ /\ s = "acct" /\ Mode = "thread" /\ AccountThread(w, IF xflag[w] THEN 1 ELSE 0)
     /\ SetDv(w, [dv[w] EXCEPT !.stage = "none"]) /\ UNCHANGED q
  \/ /\ s = "acct" /\ Mode = "process" /\ ChildChecked(w, IF xflag[w] THEN 1 ELSE 0)
     /\ SetDv(w, [dv[w] EXCEPT !.stage = "sync",
                                !.todo = {k \in DOMAIN sl[w] : sl[w][k].inl \/ (sl[w][k].checked /\ Bug # "dropSupprSync")}])
     /\ UNCHANGED q
  \* ---- process executor: send the suppression state, CHILD_END, exit
  \/ /\ s = "sync" /\ dv[w].todo # {} /\ wk[w].pl.k \notin dv[w].todo
     /\ LET k == CHOOSE k \in dv[w].todo : TRUE IN
          SendSuppr(w, k, sl[w][k].inl, sl[w][k].checked, sl[w][k].matched)
     /\ UNCHANGED <<q, dv>>
  \/ /\ s = "sync" /\ wk[w].pl.k \in dv[w].todo
     /\ Sent(w, IF sl[w][wk[w].pl.k].inl THEN "3" ELSE "4", 0)
     /\ SetDv(w, [dv[w] EXCEPT !.todo = @ \ {wk[w].pl.k}])
     /\ UNCHANGED q
  \/ /\ s = "sync" /\ dv[w].todo = {}
     /\ Sent(w, "5", IF xflag[w] THEN 1 ELSE 0)
     /\ SetDv(w, [dv[w] EXCEPT !.stage = "exit"]) /\ UNCHANGED q
  \/ /\ s = "exit" /\ ChildGone(w) /\ SetDv(w, [dv[w] EXCEPT !.stage = "none"]) /\ UNCHANGED q

\* ------------------------------------------------------------- a worker process dies (C21): at ANY point of its work
DCrash(c) ==
  /\ Mode = "process" /\ c \in DOMAIN chst /\ chst[c].alive
  /\ chst[c].file \in CrashFiles /\ dv[c].stage \notin {"none", "crashed"}
  /\ ChildGone(c)
  /\ SetDv(c, [dv[c] EXCEPT !.stage = "crashed"]) /\ UNCHANGED q

\* ------------------------------------------------------------- parent of the process executor
Busy == \E c \in DOMAIN chst : PName(c) \in DOMAIN wk /\ wk[PName(c)].st # "idle"

DParent ==
  /\ Mode = "process" /\ UNCHANGED q
  /\ \/ \* finish the frame in progress
        \E c \in DOMAIN chst :
           /\ PName(c) \in DOMAIN wk /\ wk[PName(c)].st # "idle"
           /\ LET p == wk[PName(c)] IN
              \/ p.st = "recv" /\ RecvErr(c, p.x) /\ UNCHANGED dv
              \/ p.st = "rsup" /\ UNCHANGED dv
                  /\ ParentSupprAdd(c, p.pl.k, Rec(p.pl.k, p.pl.ck, p.pl.mt),
                                    IF p.pl.k \in DOMAIN sl["main"] THEN "exists" ELSE "added")
              \/ p.st = "rsup2" /\ UNCHANGED dv
                  /\ ParentSupprUpdate(c, p.pl.k, p.pl.ck, p.pl.mt, p.pl.k \in DOMAIN sl["main"])
              \/ p.st \notin {"recv", "rsup", "rsup2"} /\ DExec(PName(c), p.x) /\ UNCHANGED dv
     \/ \* read the next frame of some child
        /\ ~Busy
        /\ \E c \in DOMAIN pipe :
             /\ pipe[c] # <<>> /\ ~chst[c].eof /\ ~chst[c].ended
             /\ Recv(c, Head(pipe[c]).t, Head(pipe[c]).n)
             /\ UNCHANGED dv
     \/ /\ ~Busy /\ \E c \in DOMAIN chst : PipeEof(c) /\ UNCHANGED dv
     \/ /\ ~Busy /\ \E c \in DOMAIN chst : Reap(c) /\ UNCHANGED dv
     \/ \* waitpid reported an abnormal end: the parent raises cppcheckError for that file
        /\ ~Busy
        /\ \E c \in DOMAIN chst :
             /\ chst[c].reaped /\ c \in DOMAIN dv /\ dv[c].stage = "crashed"
             /\ ChildErr(c, [id |-> "cppcheckError", sev |-> "error", inc |-> FALSE, file |-> chst[c].file, line |-> 0, col |-> 0, msg |-> "crash"])
             /\ SetDv(c, [dv[c] EXCEPT !.stage = "none"])

\* ------------------------------------------------------------- after the executor
DFinish ==
  /\ UNCHANGED q
  /\ \/ /\ phase = "exec" /\ q > Len(Files)
        /\ \A w \in DOMAIN dv : dv[w].stage = "none"
        /\ ~Busy
        /\ ExecFinished(result) /\ UNCHANGED dv
     \/ /\ phase = "wp" /\ WpDone /\ UNCHANGED dv
     \/ /\ phase = "post" /\ dv["main"].stage = "none" /\ wk["main"].pend = {}
        /\ LET cand == {k \in DOMAIN sl["main"] : k \notin unm /\ ENABLED Unmatched(k)} IN
             IF cand # {}
             THEN LET k == CHOOSE k \in cand : TRUE IN
                    Unmatched(k) /\ SetDv("main", [dv["main"] EXCEPT !.stage = "umemit", !.todo = {k}])
             ELSE UnmatchedDone(unm # {}) /\ SetDv("main", [dv["main"] EXCEPT !.stage = "mexit"])
     \/ /\ phase = "post" /\ dv["main"].stage = "umemit"
        /\ LET k == CHOOSE k \in dv["main"].todo : TRUE
               x == [id |-> "unmatchedSuppression", sev |-> "information", inc |-> FALSE, file |-> k,
                     line |-> IF SupprInfo[k].line = -1 THEN 0 ELSE SupprInfo[k].line, col |-> 0, msg |-> "Unmatched suppression: " \o k]
           IN EmitDirect(x, FK(x), ~EmitDup /\ FK(x) \in shown)
        /\ SetDv("main", [dv["main"] EXCEPT !.stage = "none", !.todo = {}])
     \/ /\ phase = "post" /\ dv["main"].stage = "mexit" /\ Exit(IF result # 0 THEN ExitCode ELSE 0) /\ UNCHANGED dv

DNext ==
  \/ \E c \in DOMAIN chst : DCrash(c)
  \/ DStart
  \/ \E w \in DOMAIN dv : w \in DOMAIN wk /\ DWorker(w)
  \/ DParent
  \/ DFinish
=============================================================================
