\* simulation runs of Scopes.tla (deeper programs): only the emission; the invariants of the spec are checked by the BFS runs (Scopes.cfg)
SPECIFICATION Spec
INVARIANT Emit
