----------------------------- MODULE CacheTrace -----------------------------
(***************************************************************************)
(* Trace validation of the build-directory protocol (C18, C19, C20): the   *)
(* cache events of all runs of one history (they share the directory) must *)
(* follow the actions of Cache.tla:                                         *)
(*    Lookup  = CacheHit | CacheMiss . AiOpen      Write = AiWrite          *)
(*    Close   = AiClosed                           Kill  = Killed           *)
(* with the logged hash in the role of Key(f) and the number of stored      *)
(* findings in the role of the stored result.                               *)
(*                                                                         *)
(*  - a hit needs a closed entry with exactly that key and returns exactly  *)
(*    the findings that were stored in it;                                  *)
(*  - a miss is only allowed when no such entry exists;                     *)
(*  - findings are written only into an entry this worker opened;           *)
(*  - an entry left open by a killed run is never used.                     *)
(***************************************************************************)
EXTENDS Integers, Sequences, FiniteSets, TLC, Json, IOUtils

VARIABLES l, ent, open
\* ent   : [afile -> [st: "open"|"closed", hash, n, src]]   entries on disk
\* open  : [worker -> afile it is writing]                   (one per CppCheck instance)

Log == ndJsonDeserialize(IOEnv.TRACE)
E == Log[l]
Ev(n) == l <= Len(Log) /\ E.e = n /\ l' = l + 1
W == E.w

Empty == <<>>

\* AiOpen, AiReopen and AiClose are logged BEFORE the file is touched (they are the kill points in front of the
\* write); when the process died at such an event (dies = TRUE) the file is as it was
Died == "dies" \in DOMAIN E /\ E.dies
Init == l = 1 /\ ent = Empty /\ open = Empty

Put(f, k, v) == IF k \in DOMAIN f THEN [f EXCEPT ![k] = v] ELSE f @@ (k :> v)
Del(f, k) == [x \in (DOMAIN f) \ {k} |-> f[x]]


\* a new history starts with an empty directory; a new run of the same history keeps the directory
TrHeader == /\ Ev("Header")
            /\ ent' = IF E.reset THEN Empty ELSE ent
            /\ open' = Empty

\* Lookup, hit: a closed entry with exactly this key, and exactly the findings stored in it are replayed
\* ("closing": the writer had logged AiClose - it was about to write the end tag - when the whole process was killed by a
\* fault point of ANOTHER thread before it logged AiClosed; the file on disk may or may not be complete, both are behaviours)
TrHit == /\ Ev("AiHit")
         /\ E.afile \in DOMAIN ent
         /\ ent[E.afile].st \in {"closed", "closing"} /\ ent[E.afile].hash = E.hash /\ ent[E.afile].n = E.n
         /\ UNCHANGED <<ent, open>>

\* Lookup, miss: only when the entry is absent, not closed, or stored under another key; the entry is rewritten
TrOpen == /\ Ev("AiOpen") /\ ~Died
          /\ ~(E.afile \in DOMAIN ent /\ ent[E.afile].st = "closed" /\ ent[E.afile].hash = E.hash)
          /\ ent' = Put(ent, E.afile, [st |-> "open", hash |-> E.hash, n |-> 0, src |-> E.src])
          /\ open' = Put(open, W, E.afile)

TrWrite == /\ Ev("AiWrite")
           /\ W \in DOMAIN open /\ ent[open[W]].st = "open"
           /\ ent' = IF E.kind = "finding" THEN [ent EXCEPT ![open[W]].n = @ + 1] ELSE ent
           /\ UNCHANGED open

TrClose == /\ Ev("AiClose") /\ ~Died
           /\ IF W \in DOMAIN open /\ ent[open[W]].st = "open"
              THEN ent' = [ent EXCEPT ![open[W]].st = "closing"]
              ELSE UNCHANGED ent
           /\ UNCHANGED open

TrClosed == /\ Ev("AiClosed")
            /\ W \in DOMAIN open
            /\ ent' = [ent EXCEPT ![open[W]].st = "closed"]
            /\ open' = Del(open, W)

\* unmatchedSuppression findings are appended after the analysis: the entry is reopened without its end tag
TrReopen == /\ Ev("AiReopen") /\ ~Died
            /\ IF E.afile \in DOMAIN ent
               THEN /\ ent' = [ent EXCEPT ![E.afile].st = "open"]
                    /\ open' = Put(open, W, E.afile)
               ELSE /\ ent' = Put(ent, E.afile, [st |-> "open", hash |-> "?", n |-> 0, src |-> E.src])
                    /\ open' = Put(open, W, E.afile)

\* the process was killed: whatever was being written stays open (no end tag)
TrKilled == /\ Ev("Killed") /\ open' = Empty /\ UNCHANGED ent

SkipDied == /\ l <= Len(Log) /\ E.e \in {"AiOpen", "AiReopen", "AiClose"} /\ Died
            /\ l' = l + 1 /\ UNCHANGED <<ent, open>>

Skip == /\ l <= Len(Log) /\ E.e \in {"AiOpened", "FilesTxt", "CheckBegin", "CheckEnd", "Exit", "WpDirBegin", "WpDirEnd", "UnmatchedDone", "CacheHit", "CacheMiss"}
        /\ l' = l + 1 /\ UNCHANGED <<ent, open>>

Next == TrHeader \/ TrHit \/ TrOpen \/ TrWrite \/ TrClose \/ TrClosed \/ TrReopen \/ TrKilled \/ Skip \/ SkipDied
Spec == Init /\ [][Next]_<<l, ent, open>>

Accepted ==
  LET d == TLCGet("stats").diameter
  IN IF d - 1 = Len(Log) THEN TRUE ELSE PrintT(<<"REJECTED_AT_LINE", d, Log[d]>>) /\ FALSE
=============================================================================
