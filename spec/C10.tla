-------------------------------- MODULE C10 ---------------------------------
(***************************************************************************)
(* C10: the definite value cppcheck reports for a literal or an integer    *)
(* constant expression is the value the language defines for the selected  *)
(* platform.                                                               *)
(*                                                                         *)
(* One TLC run handles one (platform, language) pair; IOEnv.C10_TIER       *)
(* selects the size of the finite case sets (quick / thorough), every set  *)
(* is enumerated completely.  IOEnv.C10_MODE:                              *)
(*   gen    write the platform file (generated platforms), the two         *)
(*          translation-unit preambles and one line per case               *)
(*   judge  read the observations and write every verdict that is not      *)
(*          plainly "ok"                                                   *)
(*   run    gen, probe driver (cppcheck --dump, clang), judge              *)
(* Strata:                                                                 *)
(*   int-literal   base x boundary magnitude x suffix spelling x digit     *)
(*                 separator placement                                     *)
(*   char-literal  prefixes x plain / simple / octal / hex escapes,        *)
(*                 multi-character constants                               *)
(*   bool-literal, float-literal (exactly representable values)            *)
(*   unary, binary, cast, sizeof, cond : one operator over boundary leaves *)
(*   nested        two operators: negated operands, casts of results,      *)
(*                 arithmetic on cast values, sizeof of results            *)
(* Values travel as decimal text (sequences of characters): they exceed    *)
(* TLC's 32-bit integers.                                                  *)
(***************************************************************************)
EXTENDS CLit, TLC, Json, IOUtils, SequencesExt

PlatName == IOEnv.C10_PLAT
Lang == IOEnv.C10_LANG
Thorough == IOEnv.C10_TIER = "thorough"
P == Platform(PlatName)
Generated == PlatName \in GeneratedPlatforms
SpecOnly == P.triple = ""

--------------------------------------------------------------------------
(* Literal spellings *)

TypeMaxes == {IMax(Bits(b, P), IsSigned(b, P)).mag : b \in {"int", "uint", "long", "ulong", "llong", "ullong"}}
Boundaries == {<<>>, <<1>>} \cup UNION {{NSub(m, <<1>>), m, NAdd(m, <<1>>)} : m \in TypeMaxes}

Forms == {[base |-> 10, prefix |-> <<>>, upper |-> FALSE], [base |-> 8, prefix |-> <<"0">>, upper |-> FALSE],
          [base |-> 16, prefix |-> <<"0", "x">>, upper |-> FALSE], [base |-> 16, prefix |-> <<"0", "X">>, upper |-> TRUE],
          [base |-> 2, prefix |-> <<"0", "b">>, upper |-> FALSE], [base |-> 2, prefix |-> <<"0", "B">>, upper |-> FALSE]}
UpperDigit == <<"0", "1", "2", "3", "4", "5", "6", "7", "8", "9", "A", "B", "C", "D", "E", "F">>
DigitCharsOf(n, f) == LET d == NToDigits(n, f.base) IN [i \in 1..Len(d) |-> IF f.upper THEN UpperDigit[d[i] + 1] ELSE DigitCh[d[i] + 1]]

Us == {"u", "U"}
Ls == {"l", "L"}
LLs == {<<"l", "l">>, <<"L", "L">>}
Zs == {"z", "Z"}
\* every spelling of every suffix (C11 6.4.4.1: u/U and l/L/ll/LL in either order; C++23 adds z/Z)
AllSuffixes ==
  {<<>>} \cup {<<u>> : u \in Us} \cup {<<l>> : l \in Ls} \cup LLs
  \cup {<<u, l>> : u \in Us, l \in Ls} \cup {<<l, u>> : u \in Us, l \in Ls}
  \cup {<<u>> \o ll : u \in Us, ll \in LLs} \cup {ll \o <<u>> : u \in Us, ll \in LLs}
  \cup (IF Lang = "c++" THEN {<<z>> : z \in Zs} \cup {<<u, z>> : u \in Us, z \in Zs} \cup {<<z, u>> : u \in Us, z \in Zs} ELSE {})
CanonSuffixes == {<<>>, <<"u">>, <<"l">>, <<"u", "l">>, <<"l", "l">>, <<"u", "l", "l">>}
                 \cup (IF Lang = "c++" THEN {<<"z">>, <<"u", "z">>} ELSE {})

StyleOrder == <<"none", "first", "last", "group">>
StyleIndex(s) == CHOOSE i \in 1..4 : StyleOrder[i] = s
\* a separator style counts only if it writes something no earlier style writes
StyleDistinct(l) ==
  \A j \in 1..(StyleIndex(l.sep) - 1) :
     DigitsWithSeps(l.digits, StyleOrder[j], l.base, 1) # DigitsWithSeps(l.digits, l.sep, l.base, 1)

Lit(f, n, sep, sfx) == [base |-> f.base, prefix |-> f.prefix, digits |-> DigitCharsOf(n, f), sep |-> sep, suffix |-> sfx]
\* every suffix spelling without separators; separator placements with the canonical suffixes (thorough: with every
\* suffix spelling for decimal literals); digit separators are C++14
IntLitSpellings ==
  LET plain == {Lit(f, n, "none", s) : f \in Forms, n \in Boundaries, s \in AllSuffixes}
      seps == IF Lang # "c++" THEN {}
              ELSE {Lit(f, n, st, s) : f \in Forms, n \in Boundaries, st \in IF Thorough THEN {"first", "last", "group"} ELSE {"first", "group"},
                                       s \in IF Thorough THEN AllSuffixes ELSE CanonSuffixes}
      \* quick: every suffix spelling only for decimal literals, canonical suffixes for the other forms, one separator style
      keep(l) == IF l.sep = "none" THEN Thorough \/ l.suffix \in CanonSuffixes \/ l.prefix = <<>>
                 ELSE (Thorough /\ (l.suffix \in CanonSuffixes \/ l.base = 10))
                      \/ (l.sep = "group" /\ l.suffix \in {<<>>, <<"u", "l", "l">>})
  IN  {l \in plain \cup seps : keep(l) /\ StyleDistinct(l) /\ IntLitType(l, P) # "?"}

PlainEls == {ElCh(c) : c \in PlainChars}
EscEls == {ElEsc(c) : c \in SimpleEscapes}
OctEls == {ElOct(ds) : ds \in {<<"0">>, <<"7">>, <<"1", "2">>, <<"1", "0", "1">>, <<"1", "7", "7">>, <<"2", "0", "0">>, <<"3", "7", "7">>, <<"4", "0", "0">>}}
HexEls == {ElHex(ds) : ds \in {<<"0">>, <<"7", "f">>, <<"8", "0">>, <<"f", "f">>, <<"F", "F">>, <<"1", "0", "0">>, <<"f", "f", "f", "f">>,
                               <<"1", "0", "0", "0", "0">>, <<"7", "f", "f", "f", "f", "f", "f", "f">>,
                               <<"8", "0", "0", "0", "0", "0", "0", "0">>, <<"f", "f", "f", "f", "f", "f", "f", "f">>}}
LitPrefixes == {<<>>, <<"L">>, <<"u">>, <<"U">>} \cup (IF Lang = "c++" THEN {<<"u", "8">>} ELSE {})
MultiEls == {ElCh("a"), ElCh("z"), ElHex(<<"f", "f">>), ElOct(<<"0">>), ElEsc("n"), ElOct(<<"2", "0", "0">>), ElHex(<<"8", "0">>)}
FewEls == {ElCh("a"), ElCh("_"), ElHex(<<"f", "f">>), ElOct(<<"0">>)}
CharLitSpellings ==
  LET single == {[prefix |-> p, elems |-> <<e>>] : p \in LitPrefixes, e \in PlainEls \cup EscEls \cup OctEls \cup HexEls}
      two == {[prefix |-> <<>>, elems |-> <<a, b>>] : a \in MultiEls, b \in MultiEls}
      three == {[prefix |-> <<>>, elems |-> <<a, b, c>>] : a \in FewEls, b \in FewEls, c \in FewEls}
      four == {[prefix |-> <<>>, elems |-> <<a, b, c, d>>] : a \in {ElCh("a"), ElHex(<<"f", "f">>)}, b \in {ElCh("z"), ElHex(<<"f", "f">>)},
                                                            c \in {ElCh("_"), ElOct(<<"0">>)}, d \in {ElCh("d"), ElHex(<<"f", "f">>)}}
  IN  {l \in single \cup two \cup three \cup four :
         /\ CharLitWellFormed(l, Lang, P)
         \* the C typedef target of wchar_t is compiler-specific on this platform: its values are, the witness type is not
         /\ ~(l.prefix = <<"L">> /\ Lang = "c" /\ P.wcharTypeOpen)
         \* char32_t is at least 32 bits wide, but the only compiler available for the 16-bit-int model gives it 16: left open
         /\ ~(l.prefix = <<"U">> /\ P.int < 4 /\ NBits(ElemCode(l.elems[1])) > 16)}

FloatSpellings ==
  LET dec == {[base |-> 10, ip |-> ip, fp |-> fp, dot |-> dot, hasExp |-> he, exp |-> IF he THEN ex ELSE 0, suffix |-> s] :
                ip \in {<<"0">>, <<"1">>, <<"3">>, <<"1", "0">>, <<"2", "5", "5">>, <<"1", "0", "2", "4">>},
                fp \in {<<>>, <<"0">>, <<"5">>, <<"2", "5">>, <<"1", "2", "5">>, <<"7", "5">>, <<"0", "6", "2", "5">>},
                dot \in {TRUE}, he \in BOOLEAN, ex \in {0, 1, 2, 3, -1, -2},
                s \in {<<>>, <<"f">>, <<"F">>, <<"l">>, <<"L">>}}
      hex == {[base |-> 16, ip |-> ip, fp |-> fp, dot |-> fp # <<>>, hasExp |-> TRUE, exp |-> ex, suffix |-> s] :
                ip \in {<<"1">>, <<"f">>, <<"1", "0">>}, fp \in {<<>>, <<"8">>, <<"4">>, <<"c">>},
                ex \in {0, 1, 4, 10, -1, -4}, s \in {<<>>, <<"f">>, <<"L">>}}
      intexp == {[base |-> 10, ip |-> ip, fp |-> <<>>, dot |-> FALSE, hasExp |-> TRUE, exp |-> ex, suffix |-> s] :
                ip \in {<<"1">>, <<"2", "5">>}, ex \in {0, 1, 3, -2}, s \in {<<>>, <<"f">>}}
  IN  {l \in dec \cup hex \cup intexp :
         /\ FracExactSmall(FloatLitFrac(l))
         \* quick: fewer suffix spellings and exponents
         /\ (l.suffix \in {<<>>, <<"f">>, <<"L">>} \/ (Thorough /\ l.exp = 0))
         /\ (Thorough \/ (l.exp \in {0, 3, -2} /\ Len(l.fp) <= 2 /\ Len(l.ip) <= 2))}

--------------------------------------------------------------------------
(* Leaves of the constant expressions *)

IntE(ds, sfx) == [k |-> "int", l |-> [base |-> 10, prefix |-> <<>>, digits |-> ds, sep |-> "none", suffix |-> sfx]]
HexE(ds, sfx) == [k |-> "int", l |-> [base |-> 16, prefix |-> <<"0", "x">>, digits |-> ds, sep |-> "none", suffix |-> sfx]]
ChrE(es) == [k |-> "chr", l |-> [prefix |-> <<>>, elems |-> es]]
Dec(n) == NToDecChars(n)
SuffixOf(b) == CASE b = "int" -> <<>> [] b = "uint" -> <<"u">> [] b = "long" -> <<"l">> [] b = "ulong" -> <<"u", "l">>
                 [] b = "llong" -> <<"l", "l">> [] b = "ullong" -> <<"u", "l", "l">>
MaxOf(b) == IMax(Bits(b, P), IsSigned(b, P)).mag
SixTypes == {"int", "uint", "long", "ulong", "llong", "ullong"}

\* one and the maximum of each of the six types, spelled with the suffix that selects the type (quick: fewer ones)
TypedLeaves == {IntE(<<"1">>, SuffixOf(b)) : b \in IF Thorough THEN {"int", "uint", "llong"} ELSE {}}
               \cup {IntE(Dec(MaxOf(b)), SuffixOf(b)) : b \in SixTypes}
SmallLeaves(ns) == {IntE(Dec(NFromSmall(n)), <<>>) : n \in ns}
HexLeaves == {HexE(<<"8", "0", "0", "0", "0", "0", "0", "0">>, <<>>)}
             \cup (IF Thorough THEN {HexE(<<"f", "f", "f", "f", "f", "f", "f", "f">>, <<>>)} ELSE {})
ChrLeaves == {ChrE(<<ElHex(<<"f", "f">>)>>)} \cup (IF Thorough THEN {ChrE(<<ElCh("a")>>)} ELSE {})
BoolLeaves == IF Lang = "c++" THEN {[k |-> "bool", v |-> TRUE]} ELSE {}

WellTyped(e) == Eval(e, Lang, P).ok
Leaves ==
  {e \in TypedLeaves \cup HexLeaves \cup ChrLeaves \cup BoolLeaves
         \cup SmallLeaves(IF Thorough THEN {0, 2, 7, 31, 32, 63, 64} ELSE {0, 2, 31})
         \cup (IF Thorough THEN {IntE(Dec(NAdd(MaxOf("int"), <<1>>)), <<>>), IntE(Dec(NAdd(MaxOf("uint"), <<1>>)), <<>>),
                                 HexE(<<"f", "f", "f", "f", "f", "f", "f", "f", "f", "f", "f", "f", "f", "f", "f", "f">>, <<>>),
                                 [k |-> "bool", v |-> FALSE]} ELSE {}) :
     WellTyped(e)}
\* a small set for the nested stratum
Core == {e \in {IntE(<<"1">>, <<>>), IntE(Dec(MaxOf("int")), <<>>), IntE(Dec(MaxOf("uint")), <<"u">>),
                ChrE(<<ElHex(<<"f", "f">>)>>)}
               \cup (IF Thorough THEN {IntE(<<"1">>, <<"u">>), IntE(<<"1">>, <<"l", "l">>),
                                       IntE(Dec(MaxOf("ullong")), <<"u", "l", "l">>)} ELSE {}) : WellTyped(e)}

ArithOps == {"+", "-", "*", "/", "%"}
BitOps == {"&", "|", "^"}
EvalOps == ArithOps \cup BitOps \cup ShiftOps \cup RelOps \cup EqOps \cup LogicOps
CastBases == {"bool", "char", "schar", "uchar", "short", "ushort", "int", "uint", "long", "ulong", "llong", "ullong"}
SizeofTypes == {Ty(b) : b \in CastBases \cup {"float", "double", "ldouble"} \cup (IF Lang = "c++" THEN {"wchar_t"} ELSE {})}
               \cup {PtrTo(Ty("char")), PtrTo(PtrTo(Ty("int")))}

Un(op, a) == [k |-> "un", op |-> op, a |-> a]
Bin(op, a, b) == [k |-> "bin", op |-> op, a |-> a, b |-> b]
Cast(t, a) == [k |-> "cast", t |-> t, a |-> a]

Defined(S) == {e \in S : Eval(e, Lang, P).ok}

UnaryExprs == Defined({Un(op, a) : op \in {"-", "+", "~", "!"}, a \in Leaves})
BinaryExprs == Defined({Bin(op, a, b) : op \in EvalOps, a \in Leaves, b \in Leaves})
CastExprs == Defined({Cast(t, a) : t \in CastBases, a \in Leaves})
SizeofExprs == {[k |-> "sizeofT", ty |-> t] : t \in SizeofTypes} \cup Defined({[k |-> "sizeofE", a |-> a] : a \in Leaves})
CondExprs == Defined({[k |-> "cond", c |-> c, a |-> a, b |-> b] : c \in {IntE(<<"0">>, <<>>), IntE(<<"1">>, <<>>)}, a \in Core, b \in Core})
NestedExprs ==
  Defined({Bin(op, Un("-", a), b) : op \in EvalOps, a \in Core, b \in Core}
          \cup {Bin(op, a, Un("-", b)) : op \in EvalOps \ ShiftOps, a \in Core, b \in Core}
          \cup {Cast(t, Bin(op, a, b)) : t \in {"uchar", "schar", "ushort", "short", "uint", "int", "ullong"}, op \in {"+", "-", "*"}, a \in Core, b \in Core}
          \cup {Bin(op, Cast(t, a), b) : op \in {"+", "-", "<", "==", ">>", "&"}, t \in {"uchar", "schar", "ushort", "short", "uint", "long", "ullong"}, a \in Core, b \in Core}
          \cup {Un(op, Bin(o2, a, b)) : op \in {"-", "~", "!"}, o2 \in {"+", "-", "<"}, a \in Core, b \in Core}
          \cup {Un(op, Cast(t, a)) : op \in {"-", "~"}, t \in {"uchar", "schar", "ushort", "short", "uint"}, a \in Core}
          \cup {[k |-> "sizeofE", a |-> Bin(op, a, b)] : op \in {"+", "<<", "<"}, a \in Core, b \in Core})

Tagged(kind, seq) == [i \in 1..Len(seq) |-> [kind |-> kind, c |-> seq[i]]]
AsExpr(k, S) == Tagged(k, SetToSeq(S))
IntLitSeq == SetToSeq({[k |-> "int", l |-> l] : l \in IntLitSpellings})
ChrLitSeq == SetToSeq({[k |-> "chr", l |-> l] : l \in CharLitSpellings})
BoolSeq == IF Lang = "c++" THEN <<[k |-> "bool", v |-> TRUE], [k |-> "bool", v |-> FALSE]>> ELSE <<>>
FloatSeq == SetToSeq(FloatSpellings)
\* the cases as one sequence; the index is the case id
CaseSeq ==
  Tagged("int-literal", IntLitSeq) \o Tagged("char-literal", ChrLitSeq) \o Tagged("bool-literal", BoolSeq)
  \o Tagged("float-literal", FloatSeq)
  \o AsExpr("unary", UnaryExprs) \o AsExpr("binary", BinaryExprs) \o AsExpr("cast", CastExprs)
  \o AsExpr("sizeof", SizeofExprs) \o AsExpr("cond", CondExprs) \o AsExpr("nested", NestedExprs)

--------------------------------------------------------------------------
(* Expected value and rendering *)

IsFloatCase(x) == x.kind = "float-literal"
\* sizeofT nodes carry their type in ty
RECURSIVE Norm(_)
Norm(c) == CASE c.k = "sizeofT" -> [k |-> "sizeofT", t |-> c.ty]
             [] c.k = "un" -> [k |-> "un", op |-> c.op, a |-> Norm(c.a)]
             [] c.k = "bin" -> [k |-> "bin", op |-> c.op, a |-> Norm(c.a), b |-> Norm(c.b)]
             [] c.k = "cast" -> [k |-> "cast", t |-> c.t, a |-> Norm(c.a)]
             [] c.k = "sizeofE" -> [k |-> "sizeofE", a |-> Norm(c.a)]
             [] c.k = "cond" -> [k |-> "cond", c |-> Norm(c.c), a |-> Norm(c.a), b |-> Norm(c.b)]
             [] OTHER -> c

ExprText(x) == IF IsFloatCase(x) THEN Join(FloatLitChars(x.c)) ELSE Join(ExprChars(Norm(x.c), Lang))
TokText(x) == IF IsFloatCase(x) THEN Join(FloatLitChars(x.c)) ELSE RootTok(Norm(x.c))

\* finer rule name for grouping: the root operator class
Rule(x) ==
  IF x.kind \notin {"unary", "binary", "nested"} THEN x.kind
  ELSE LET c == x.c
           op == IF c.k \in {"un", "bin"} THEN c.op ELSE c.k
           cls == CASE op \in ArithOps -> "arith" [] op \in BitOps \cup {"~"} -> "bitwise" [] op \in ShiftOps -> "shift"
                    [] op \in RelOps \cup EqOps -> "compare" [] op \in LogicOps \cup {"!"} -> "logic" [] OTHER -> op
       IN  x.kind \o "-" \o cls

TypeAssert(e, t) ==
  IF Lang = "c" THEN "_Generic((" \o e \o "), " \o Spelling(Ty(t), Lang) \o ": 1, default: 0)"
  ELSE "__is_same(RR<decltype((" \o e \o "))>::t, " \o Spelling(Ty(t), Lang) \o ")"
SA == IF Lang = "c" THEN "_Static_assert(" ELSE "static_assert("

\* the assertion for the second witness: the expression has the expected type and, converted to a 64-bit type of the
\* same signedness (value preserving), equals the expected value
IntWitness(e, r) ==
  LET signed == IsSigned(r.t, P)
      wide == IF signed THEN "(long long)" ELSE "(unsigned long long)"
  IN  SA \o TypeAssert(e, r.t) \o " && " \o wide \o "(" \o e \o ") == " \o WitnessLit(r.v, signed) \o ", \"value\");"
\* num/den with den a power of two: both operands and the quotient are exact in binary64.  A comparison of floating
\* values is not an integer constant expression in C: there the assertion is the size of an extern array (1 or -1),
\* which the compiler has to fold.
FloatWitness(i, e, l) ==
  LET f == FloatLitFrac(l)
      t == FloatLitType(l)
      cond == TypeAssert(e, t) \o " && (" \o e \o ") == (" \o Spelling(Ty(t), Lang) \o ")("
              \o Join(NToDecChars(f.num)) \o ".0 / " \o Join(NToDecChars(f.den)) \o ".0)"
  IN  IF Lang = "c" THEN "extern char w" \o ToString(i) \o "[(" \o cond \o ") ? 1 : -1];"
      ELSE SA \o cond \o ", \"value\");"

CaseLineTok(i) == TokText(CaseSeq[i])
CaseLine(i) ==
  LET x == CaseSeq[i]
      e == ExprText(x)
  IN  [id |-> i, kind |-> x.kind, rule |-> Rule(x), expr |-> e, tok |-> TokText(x), cc |-> "(void)(" \o e \o ");",
       w |-> IF SpecOnly THEN ""
             ELSE IF IsFloatCase(x) THEN FloatWitness(i, e, x.c)
             ELSE IntWitness(e, Eval(Norm(x.c), Lang, P)),
       expect |-> IF IsFloatCase(x) THEN Join(NToDecChars(FloatLitFrac(x.c).num)) \o "/" \o Join(NToDecChars(FloatLitFrac(x.c).den))
                  ELSE IToDecStr(Eval(Norm(x.c), Lang, P).v)]

WitnessMacros ==
  IF Lang = "c" THEN <<>>
  ELSE <<"template<class T> struct RR { typedef T t; };",
         "template<class T> struct RR<T&> { typedef T t; };",
         "template<class T> struct RR<T&&> { typedef T t; };">>

Num(n) == ToString(n)
PlatformXml ==
  <<"<?xml version=\"1.0\"?>", "<platform>", "  <char_bit>8</char_bit>",
    "  <default-sign>" \o (IF P.charSigned THEN "signed" ELSE "unsigned") \o "</default-sign>",
    "  <sizeof>", "    <bool>1</bool>",
    "    <short>" \o Num(P.short) \o "</short>", "    <int>" \o Num(P.int) \o "</int>", "    <long>" \o Num(P.long) \o "</long>",
    "    <long-long>" \o Num(P.llong) \o "</long-long>", "    <float>" \o Num(P.float) \o "</float>",
    "    <double>" \o Num(P.double) \o "</double>", "    <long-double>" \o Num(P.ldouble) \o "</long-double>",
    "    <pointer>" \o Num(P.ptr) \o "</pointer>", "    <size_t>" \o Num(Bytes(P.sizeT, P)) \o "</size_t>",
    "    <wchar_t>" \o Num(Bytes(P.wcharT, P)) \o "</wchar_t>", "  </sizeof>", "</platform>">>

Header == [preamble_cc |-> <<"void f(void) {">>, preamble_w |-> WitnessMacros \o <<"void f(void) {">>, epilogue |-> <<"}">>,
           platform |-> PlatName, generated |-> Generated, platform_xml |-> IF Generated THEN PlatformXml ELSE <<>>,
           lang |-> Lang, triple |-> P.triple, ncases |-> Len(CaseSeq)]

\* (the parameter keeps TLC from evaluating the side-effecting definitions while it preprocesses constants)
Gen(u) == ndJsonSerialize(IOEnv.C10_CASES, <<Header>> \o [i \in 1..Len(CaseSeq) |-> CaseLine(i)])

--------------------------------------------------------------------------
(* Judge.  Observation of case i: [id, expr, tok, vkind, val, clang]:       *)
(* vkind = "int" / "float" if the root token has a value marked known (val  *)
(* = its decimal text as a sequence of characters), "" if not.              *)

Row(i, o) ==
  LET x == CaseSeq[i]
      isF == IsFloatCase(x)
      r == IF isF THEN NoVal ELSE Eval(Norm(x.c), Lang, P)
      same == IF isF
              THEN o.vkind = "float" /\ IsDecText(o.val) /\ LET g == DecTextFrac(o.val) IN ~g.neg /\ FracEq(g, FloatLitFrac(x.c))
              ELSE o.vkind = "int" /\ IsDecChars(o.val) /\ IFromDecChars(o.val) = r.v
      v == IF o.expr # ExprText(x) THEN "desync"
           ELSE IF o.vkind = "" THEN "novalue"
           \* (the operand of the probe's cast is the whole expression even where cppcheck rewrote it, e.g. a - (-1) to a + 1)
           ELSE IF same THEN "ok"
           ELSE IF SpecOnly THEN "spec_only_difference"
           ELSE IF o.clang # "ok" THEN "model_disagreement"
           ELSE "violation"
  IN  IF v = "ok" /\ o.clang # "fail" THEN [verdict |-> "ok", plain |-> TRUE]
      ELSE [id |-> i, expr |-> ExprText(x), verdict |-> v, kind |-> x.kind, rule |-> Rule(x), plain |-> FALSE, clang |-> o.clang,
            expected |-> IF isF THEN Join(NToDecChars(FloatLitFrac(x.c).num)) \o "/" \o Join(NToDecChars(FloatLitFrac(x.c).den))
                         ELSE IToDecStr(r.v) \o " (" \o r.t \o ")",
            got |-> IF o.vkind = "" THEN "-" ELSE Join(o.val)]

Judge(u) ==
  LET obs == ndJsonDeserialize(IOEnv.C10_OBS)
  IN
  /\ Assert(Len(obs) = Len(CaseSeq), <<"observations do not match the case list", Len(obs), Len(CaseSeq)>>)
  /\ LET \* SelectSeq evaluates every row exactly once; rows that are plainly ok are dropped
         notable == SelectSeq([i \in 1..Len(CaseSeq) |-> Row(i, obs[i])], LAMBDA r : ~r.plain)
         count(v) == Cardinality({i \in 1..Len(notable) : notable[i].verdict = v})
         nonok == Cardinality({i \in 1..Len(notable) : notable[i].verdict # "ok"})
     IN  /\ ndJsonSerialize(IOEnv.C10_OUT, notable)
         /\ PrintT(<<"C10VERDICT", "cases", Len(CaseSeq), "ok", Len(CaseSeq) - nonok, "violation", count("violation"),
                     "model_disagreement", Cardinality({i \in 1..Len(notable) : notable[i].clang = "fail"}),
                     "novalue", count("novalue"), "rewritten", Cardinality({i \in 1..Len(obs) : obs[i].vkind # "" /\ obs[i].tok # CaseLineTok(i)}),
                     "spec_only_difference", count("spec_only_difference"), "desync", count("desync")>>)

Probe(u) == LET r == IOExec(<<"python3", IOEnv.C10_DRIVER, IOEnv.C10_WORK>>)
            IN  Assert(r.exitValue = 0, <<"probe driver failed", r.exitValue, r.stderr>>)

ASSUME CASE IOEnv.C10_MODE = "gen" -> Gen(1)
         [] IOEnv.C10_MODE = "judge" -> Judge(1)
         [] IOEnv.C10_MODE = "run" -> Gen(1) /\ Probe(1) /\ Judge(1)
=============================================================================
