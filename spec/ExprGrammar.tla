---------------------------- MODULE ExprGrammar ----------------------------
(***************************************************************************)
(* C07 - "Expression trees follow the C/C++ operator grammar".             *)
(*                                                                         *)
(* The module defines                                                      *)
(*   - expression trees over a few leaves of declared kinds                *)
(*       int variables a b c (x, y only as assignment targets of the       *)
(*       statement), int literal 1, int* p, struct S s (member m),         *)
(*       struct S* q, function f, the type name "int" (casts, sizeof);     *)
(*   - the C / C++ operator table (precedence, associativity, arity);      *)
(*   - PrintExpr(t): the token sequence of t ("Print" of DESIGN.md; the    *)
(*       name Print is taken by the TLC module), a parenthesis only where   *)
(*       the grammar needs one;                                            *)
(*   - Ast(t): the set of edges <<operator token, operand1, operand2>>     *)
(*       that cppcheck's documented AST convention assigns to PrintExpr(t) *)
(*       (tokens are named by their position in PrintExpr(t); 0 = no       *)
(*       operand); Expected(t, ..) = Ast(t) up to the tokenizer's sign     *)
(*       normalisations that the convention leaves open;                   *)
(*   - Parse: a reference parser for the ISO grammar (C11 6.5, C++17       *)
(*       [expr]) over token sequences;                                     *)
(*   - T(profile, sort, n): all well-typed trees with exactly n operators  *)
(*       ("Trees(n)" of DESIGN.md), Stmts: the statements built from them; *)
(*   - the judge that compares the edges observed in `cppcheck --dump`     *)
(*       with Ast(t).                                                      *)
(*                                                                         *)
(* Laws checked by TLC on the spec alone (MODE = "laws", and on every case *)
(* that MODE = "gen" writes):                                              *)
(*     Parse(PrintExpr(t)) = t  for every enumerated tree (so the printer, *)
(*     the precedence table and the grammar agree), printing is injective. *)
(*                                                                         *)
(* cppcheck's AST convention (lib/token.h astOperand1/2, the comments of   *)
(* the compile* ladder in lib/tokenlist.cpp, confirmed on hand examples    *)
(* with --dump):                                                           *)
(*   binary operator, assignment, comma, "." and "->"  node = the operator *)
(*       token, operand1 = left, operand2 = right                          *)
(*   prefix and postfix unary operator    node = operator, operand1 only   *)
(*   c ? x : y        "?" has operand1 = c, operand2 = ":" ;               *)
(*                    ":" has operand1 = x, operand2 = y                   *)
(*   f(a1,..,an)      "(" has operand1 = callee, operand2 = the argument / *)
(*                    the left-leaning "," chain of arguments / nothing    *)
(*   x[i]             "[" has operand1 = x, operand2 = i                   *)
(*   (T) x            "(" has operand1 = x only                            *)
(*   sizeof(T), sizeof x   treated like a call: "(" has operand1 = the     *)
(*                    sizeof token, operand2 = operand; for "sizeof x" the *)
(*                    tokenizer inserts the parentheses itself - that      *)
(*                    inserted "(" is named -(position of sizeof)          *)
(*   parentheses that only group are not nodes                             *)
(*   if ( e )         "(" has operand1 = if, operand2 = e                  *)
(*   return e         "return" has operand1 = e                            *)
(*   int z = e        "=" has operand1 = z, operand2 = e  (the tokenizer    *)
(*                    splits the declaration into  int z ; z = e ;)        *)
(***************************************************************************)
EXTENDS Integers, Sequences, FiniteSets, TLC, Json, IOUtils, SequencesExt, Randomization

(***************************************************************************)
(* Trees                                                                   *)
(***************************************************************************)
Leaf(s)        == [k |-> "leaf", s |-> s]
Bin(op, x, y)  == [k |-> "bin",  op |-> op, x |-> x, y |-> y]    \* also assignment, comma, "." and "->"
Pre(op, x)     == [k |-> "pre",  op |-> op, x |-> x]             \* + - ! ~ ++ -- * &
Post(op, x)    == [k |-> "post", op |-> op, x |-> x]             \* ++ --
Cond(c, x, y)  == [k |-> "cond", c |-> c, x |-> x, y |-> y]
Call(f, args)  == [k |-> "call", f |-> f, args |-> args]
Sub(x, i)      == [k |-> "sub",  x |-> x, i |-> i]
Cast(ty, x)    == [k |-> "cast", ty |-> ty, x |-> x]
SzE(x)         == [k |-> "szE",  x |-> x]
SzT(ty)        == [k |-> "szT",  ty |-> ty]
If(x)          == [k |-> "if",   x |-> x]                        \* statement forms: only at the root
Ret(x)         == [k |-> "ret",  x |-> x]
Init(x)        == [k |-> "init", x |-> x]                        \* int z = x

(***************************************************************************)
(* The operator table.  Levels as in the ISO grammars (higher binds        *)
(* tighter): 1 comma, 2 assignment (right), 3 conditional (right),         *)
(* 4 || , 5 && , 6 | , 7 ^ , 8 & , 9 equality, 10 relational, 11 shift,    *)
(* 12 additive, 13 multiplicative, 16 prefix unary / cast / sizeof (right),*)
(* 17 postfix (left), 18 primary.                                          *)
(***************************************************************************)
AsgOps  == {"=", "+=", "-=", "*=", "/=", "%=", "<<=", ">>=", "&=", "^=", "|="}
MulOps  == {"*", "/", "%"}
AddOps  == {"+", "-"}
ShOps   == {"<<", ">>"}
RelOps  == {"<", "<=", ">", ">="}
EqOps   == {"==", "!="}
LevelOps(l) == CASE l = 4 -> {"||"} [] l = 5 -> {"&&"} [] l = 6 -> {"|"} [] l = 7 -> {"^"} [] l = 8 -> {"&"}
                 [] l = 9 -> EqOps [] l = 10 -> RelOps [] l = 11 -> ShOps [] l = 12 -> AddOps [] l = 13 -> MulOps
                 [] OTHER -> {}
ArithOps == UNION {LevelOps(l) : l \in 4..13}
BinPrec(op) == IF op = "," THEN 1 ELSE IF op \in AsgOps THEN 2 ELSE IF op \in {".", "->"} THEN 17
               ELSE CHOOSE l \in 4..13 : op \in LevelOps(l)
PreOps  == {"+", "-", "!", "~", "++", "--", "*", "&"}
TypeNames == {"int"}

Prec(t) == CASE t.k = "leaf" -> 18
             [] t.k \in {"call", "sub", "post"} -> 17
             [] t.k \in {"pre", "cast", "szE", "szT"} -> 16
             [] t.k = "bin" -> BinPrec(t.op)
             [] t.k = "cond" -> 3
             [] OTHER -> 0

(***************************************************************************)
(* Layout(t, cpp) = [toks, root, edges]: the printed tokens, the position  *)
(* of the token that is the AST node of t, and the AST edges, computed     *)
(* together.  A child is parenthesised exactly when its level is below the *)
(* level the grammar position demands.                                     *)
(***************************************************************************)
Sh(i, d) == IF i = 0 THEN 0 ELSE IF i > 0 THEN i + d ELSE i - d
Shift(E, d) == {<<Sh(e[1], d), Sh(e[2], d), Sh(e[3], d)>> : e \in E}
ShiftP(S, d) == {Sh(i, d) : i \in S}
\* a layout moved d tokens to the right (its token sequence is not changed)
Move(l, d) == [toks |-> l.toks, root |-> Sh(l.root, d), edges |-> Shift(l.edges, d), opt |-> ShiftP(l.opt, d)]
Par(l) == [toks |-> <<"(">> \o l.toks \o <<")">>, root |-> Sh(l.root, 1), edges |-> Shift(l.edges, 1), opt |-> ShiftP(l.opt, 1)]
\* opt: m = the node at position m is always optional, -m = a prefix minus at m (optional only directly after a + or - token)
NumLits == {"0", "1", "2"}

(***************************************************************************)
(* Three token-level normalisations of cppcheck's tokenizer happen before  *)
(* the AST exists:                                                         *)
(*  - a unary "+" is deleted, and a unary "-" in front of a numeric        *)
(*    literal is merged into the literal: "- 1" becomes the token "-1"     *)
(*    (Tokenizer::concatenateNegativeNumberAndAnyPositive).  Whether it    *)
(*    happens depends on the token before the operator (not after a cast,  *)
(*    not before "name (" ...), which is no part of the AST convention;    *)
(*  - "+ -" becomes "-" and "- -" becomes "+": a prefix minus that         *)
(*    directly follows a "+" or "-" token is merged into that token        *)
(*    (Tokenizer::simplifyDoublePlusAndDoubleMinus).                       *)
(* They keep the value of the expression.  The spec leaves them open: such *)
(* a unary node is OPTIONAL (field opt of the layout: m = always optional, *)
(* -m = a prefix minus at m, optional when the token before it is + or -); *)
(* if cppcheck reports no node at that position, the operand stands in     *)
(* its place (see Expected).                                               *)
(***************************************************************************)
(***************************************************************************)
(* Root-cause classes of known deviations.  IOEnv.REPAIR selects a variant  *)
(* of the printer that adds exactly the parentheses whose absence a known   *)
(* cppcheck defect mishandles; the tree (and hence the meaning) is the same: *)
(*   "sizeof"   every  sizeof e  is printed  sizeof ( e )   (the tokenizer's *)
(*              Tokenizer::sizeofAddParentheses need not find the operand)   *)
(*   "notcast"  ! ( T ) e  is printed  ! ( ( T ) e )   (the pattern          *)
(*              "! ( %name% )" of simplifyRedundantParentheses cannot match) *)
(*   "angle"    the operator > is printed as >= : same grammar level and    *)
(*              associativity, hence the same tree shape and the same      *)
(*              expected edges (in C++ mode cppcheck takes  x < ... > y      *)
(*              for template brackets and constant-folds the "arguments")   *)
(* A disputed statement belongs to the class iff its repaired print is       *)
(* judged correct (MODE = "repair" writes the repaired statements, the       *)
(* usual judge decides).  Anything else keeps its own per-statement key.     *)
(***************************************************************************)
Repair == IF "REPAIR" \in DOMAIN IOEnv THEN IOEnv.REPAIR ELSE ""

RECURSIVE Lay(_, _), ArgsLay(_, _)
\* the layout of child t in a position that demands level >= min
Child(t, min, cpp) == IF Prec(t) < min THEN Par(Lay(t, cpp)) ELSE Lay(t, cpp)
\* operand of ++ -- sizeof: a unary-expression, which a cast is not
UChild(t, cpp) == IF Prec(t) < 16 \/ t.k = "cast" THEN Par(Lay(t, cpp)) ELSE Lay(t, cpp)

\* arguments a1 , a2 , ... : each an assignment-expression; the commas form a left-leaning chain
ArgsLay(args, cpp) ==
  IF Len(args) = 1 THEN Child(args[1], 2, cpp)
  ELSE LET front == ArgsLay(SubSeq(args, 1, Len(args) - 1), cpp)
           last  == Move(Child(args[Len(args)], 2, cpp), Len(front.toks) + 1)
           c     == Len(front.toks) + 1
       IN  [toks |-> front.toks \o <<",">> \o last.toks, root |-> c,
            edges |-> front.edges \cup last.edges \cup {<<c, front.root, last.root>>}, opt |-> front.opt \cup last.opt]

Lay(t, cpp) ==
  CASE t.k = "leaf" -> [toks |-> <<t.s>>, root |-> 1, edges |-> {}, opt |-> {}]
    [] t.k = "bin" ->
         LET lv == BinPrec(t.op)
             \* left operand: assignment wants a unary-expression, a left-associative level wants its own level
             L == IF t.op \in AsgOps THEN Child(t.x, 16, cpp) ELSE Child(t.x, lv, cpp)
             o == Len(L.toks) + 1
             \* right operand: assignment (right-associative) wants an assignment-expression, the others the next level
             R == Move(IF t.op \in AsgOps THEN Child(t.y, 2, cpp) ELSE Child(t.y, lv + 1, cpp), o)
         IN  [toks |-> L.toks \o <<IF Repair = "angle" /\ t.op = ">" THEN ">=" ELSE t.op>> \o R.toks, root |-> o,
              edges |-> L.edges \cup R.edges \cup {<<o, L.root, R.root>>}, opt |-> L.opt \cup R.opt]
    [] t.k = "pre" ->
         LET X == Move(IF t.op \in {"++", "--"} THEN UChild(t.x, cpp)
                       ELSE IF Repair = "notcast" /\ t.op = "!" /\ t.x.k = "cast" THEN Par(Lay(t.x, cpp))
                       ELSE Child(t.x, 16, cpp), 1)
         IN  [toks |-> <<t.op>> \o X.toks, root |-> 1, edges |-> X.edges \cup {<<1, X.root, 0>>},
              opt |-> X.opt \cup (IF t.op = "+" \/ (t.op = "-" /\ t.x.k = "leaf" /\ t.x.s \in NumLits) THEN {1}
                                  ELSE IF t.op = "-" THEN {-1} ELSE {})]
    [] t.k = "post" ->
         LET X == Child(t.x, 17, cpp)
             o == Len(X.toks) + 1
         IN  [toks |-> X.toks \o <<t.op>>, root |-> o, edges |-> X.edges \cup {<<o, X.root, 0>>}, opt |-> X.opt]
    [] t.k = "cond" ->
         LET C == Child(t.c, 4, cpp)                                      \* logical-OR-expression
             q == Len(C.toks) + 1
             X == Move(Child(t.x, 1, cpp), q)                             \* expression: as if parenthesised
             c == q + Len(X.toks) + 1
             Y == Move(Child(t.y, IF cpp THEN 2 ELSE 3, cpp), c)          \* C: conditional-expression, C++: assignment-expression
         IN  [toks |-> C.toks \o <<"?">> \o X.toks \o <<":">> \o Y.toks, root |-> q,
              edges |-> C.edges \cup X.edges \cup Y.edges \cup {<<q, C.root, c>>, <<c, X.root, Y.root>>},
              opt |-> C.opt \cup X.opt \cup Y.opt]
    [] t.k = "call" ->
         LET F == Child(t.f, 17, cpp)
             o == Len(F.toks) + 1
         IN  IF t.args = <<>> THEN [toks |-> F.toks \o <<"(", ")">>, root |-> o, edges |-> F.edges \cup {<<o, F.root, 0>>}, opt |-> F.opt]
             ELSE LET A == Move(ArgsLay(t.args, cpp), o)
                  IN  [toks |-> F.toks \o <<"(">> \o A.toks \o <<")">>, root |-> o,
                       edges |-> F.edges \cup A.edges \cup {<<o, F.root, A.root>>}, opt |-> F.opt \cup A.opt]
    [] t.k = "sub" ->
         LET X == Child(t.x, 17, cpp)
             o == Len(X.toks) + 1
             I == Move(Child(t.i, 1, cpp), o)
         IN  [toks |-> X.toks \o <<"[">> \o I.toks \o <<"]">>, root |-> o,
              edges |-> X.edges \cup I.edges \cup {<<o, X.root, I.root>>}, opt |-> X.opt \cup I.opt]
    [] t.k = "cast" ->
         LET X == Move(Child(t.x, 16, cpp), 3)                            \* cast-expression
         IN  [toks |-> <<"(", t.ty, ")">> \o X.toks, root |-> 1, edges |-> X.edges \cup {<<1, X.root, 0>>}, opt |-> X.opt]
    [] t.k = "szT" -> [toks |-> <<"sizeof", "(", t.ty, ")">>, root |-> 2, edges |-> {<<2, 1, 3>>}, opt |-> {}]
    [] t.k = "szE" ->
         \* sizeof unary-expression.  If the operand had to be parenthesised as a whole, that "(" is the node;
         \* otherwise the node is the parenthesis the tokenizer inserts after sizeof (named -1 here).
         IF Repair = "sizeof" \/ Prec(t.x) < 16 \/ t.x.k = "cast"
         THEN LET X == Move(Lay(t.x, cpp), 2)
              IN  [toks |-> <<"sizeof", "(">> \o X.toks \o <<")">>, root |-> 2, edges |-> X.edges \cup {<<2, 1, X.root>>}, opt |-> X.opt]
         ELSE LET X == Move(Lay(t.x, cpp), 1)
              IN  [toks |-> <<"sizeof">> \o X.toks, root |-> -1, edges |-> X.edges \cup {<<-1, 1, X.root>>}, opt |-> X.opt]
    [] t.k = "if" ->
         LET X == Move(Lay(t.x, cpp), 2)
         IN  [toks |-> <<"if", "(">> \o X.toks \o <<")">>, root |-> 2, edges |-> X.edges \cup {<<2, 1, X.root>>}, opt |-> X.opt]
    [] t.k = "ret" ->
         LET X == Move(Lay(t.x, cpp), 1)
         IN  [toks |-> <<"return">> \o X.toks, root |-> 1, edges |-> X.edges \cup {<<1, X.root, 0>>}, opt |-> X.opt]
    [] t.k = "init" ->
         LET X == Move(Child(t.x, 2, cpp), 3)                              \* initializer: an assignment-expression
         IN  [toks |-> <<"int", "z", "=">> \o X.toks, root |-> 3, edges |-> X.edges \cup {<<3, 2, X.root>>}, opt |-> X.opt]

PrintExpr(t, cpp) == Lay(t, cpp).toks
Ast(t, cpp)   == Lay(t, cpp).edges

\* The edge set expected for t when cppcheck reported nodes at the positions `nodes`: optional unary nodes (see
\* above) that are not among them are elided - their edge disappears and whoever referred to them refers to their operand.
Expected(t, cpp, nodes) ==
  LET L == Lay(t, cpp)
      optional == {m \in L.opt : m > 0} \cup {-m : m \in {k \in L.opt : k < 0 /\ -k > 1 /\ L.toks[(-k) - 1] \in {"+", "-"}}}
      gone == {m \in optional : m \notin nodes}
      Operand(m) == (CHOOSE e \in L.edges : e[1] = m)[2]
      RECURSIVE Red(_)
      Red(i) == IF i \in gone THEN Red(Operand(i)) ELSE i
  IN  {<<e[1], Red(e[2]), Red(e[3])>> : e \in {d \in L.edges : d[1] \notin gone}}

(***************************************************************************)
(* Reference parser: recursive descent along the ISO grammar.              *)
(* Every P* operator returns [t |-> tree, i |-> position after it].        *)
(***************************************************************************)
At(ts, i) == IF i \in DOMAIN ts THEN ts[i] ELSE "$"
R(t, i) == [t |-> t, i |-> i]

RECURSIVE PLevel(_, _, _, _), Climb(_, _, _, _), PCast(_, _, _), PUnary(_, _, _), PPostfix(_, _, _), PostLoop(_, _, _), PArgs(_, _, _, _)

\* Precedence climbing.  PLevel(ts, i, min, cpp) parses, from position i, the longest expression all of whose top-level
\* operators have level >= min:  1 expression, 2 assignment-expression, 3 conditional-expression, 4..13 the binary levels,
\* 14 cast-expression.  It parses a cast-expression and then lets Climb absorb operators while their level is >= min.
PLevel(ts, i, min, cpp) == Climb(ts, PCast(ts, i, cpp), min, cpp)

Climb(ts, lhs, min, cpp) ==
  LET tk == At(ts, lhs.i)
  IN  IF tk \in ArithOps /\ BinPrec(tk) >= min
      THEN \* left-associative level l: the right operand is an expression of level l + 1
           LET rhs == PLevel(ts, lhs.i + 1, BinPrec(tk) + 1, cpp) IN Climb(ts, R(Bin(tk, lhs.t, rhs.t), rhs.i), min, cpp)
      ELSE IF tk = "?" /\ 3 >= min
      THEN \* everything absorbed so far is the logical-OR-expression;  ? expression :  then
           \* C: conditional-expression, C++: assignment-expression
           LET x == PLevel(ts, lhs.i + 1, 1, cpp)
               y == PLevel(ts, x.i + 1, IF cpp THEN 2 ELSE 3, cpp)
           IN  Climb(ts, R(Cond(lhs.t, x.t, y.t), y.i), min, cpp)
      ELSE IF tk \in AsgOps /\ 2 >= min
      THEN \* C:   unary-expression assignment-operator assignment-expression
           \* C++: logical-or-expression assignment-operator initializer-clause        (right-associative)
           LET rhs == PLevel(ts, lhs.i + 1, 2, cpp) IN Climb(ts, R(Bin(tk, lhs.t, rhs.t), rhs.i), min, cpp)
      ELSE IF tk = "," /\ 1 >= min
      THEN LET rhs == PLevel(ts, lhs.i + 1, 2, cpp) IN Climb(ts, R(Bin(",", lhs.t, rhs.t), rhs.i), min, cpp)
      ELSE lhs

\* cast-expression: ( type-name ) cast-expression | unary-expression
PCast(ts, i, cpp) ==
  IF At(ts, i) = "(" /\ At(ts, i + 1) \in TypeNames /\ At(ts, i + 2) = ")"
  THEN LET x == PCast(ts, i + 3, cpp) IN R(Cast(At(ts, i + 1), x.t), x.i)
  ELSE PUnary(ts, i, cpp)

\* unary-expression
PUnary(ts, i, cpp) ==
  LET tk == At(ts, i)
  IN  IF tk \in {"++", "--"} THEN LET x == PUnary(ts, i + 1, cpp) IN R(Pre(tk, x.t), x.i)
      ELSE IF tk \in PreOps THEN LET x == PCast(ts, i + 1, cpp) IN R(Pre(tk, x.t), x.i)
      ELSE IF tk = "sizeof" THEN
             IF At(ts, i + 1) = "(" /\ At(ts, i + 2) \in TypeNames /\ At(ts, i + 3) = ")" THEN R(SzT(At(ts, i + 2)), i + 4)
             ELSE LET x == PUnary(ts, i + 1, cpp) IN R(SzE(x.t), x.i)
      ELSE PPostfix(ts, i, cpp)

\* postfix-expression: primary-expression followed by any number of [e] (args) .m ->m ++ --
PPostfix(ts, i, cpp) ==
  IF At(ts, i) = "("
  THEN LET e == PLevel(ts, i + 1, 1, cpp) IN PostLoop(ts, R(e.t, e.i + 1), cpp)      \* ( expression )
  ELSE PostLoop(ts, R(Leaf(At(ts, i)), i + 1), cpp)

PostLoop(ts, r, cpp) ==
  LET tk == At(ts, r.i)
  IN  IF tk = "[" THEN LET e == PLevel(ts, r.i + 1, 1, cpp) IN PostLoop(ts, R(Sub(r.t, e.t), e.i + 1), cpp)
      ELSE IF tk = "(" THEN
             IF At(ts, r.i + 1) = ")" THEN PostLoop(ts, R(Call(r.t, <<>>), r.i + 2), cpp)
             ELSE LET a == PArgs(ts, r.i + 1, <<>>, cpp) IN PostLoop(ts, R(Call(r.t, a.t), a.i + 1), cpp)
      ELSE IF tk \in {".", "->"} THEN PostLoop(ts, R(Bin(tk, r.t, Leaf(At(ts, r.i + 1))), r.i + 2), cpp)
      ELSE IF tk \in {"++", "--"} THEN PostLoop(ts, R(Post(tk, r.t), r.i + 1), cpp)
      ELSE r

\* argument-expression-list: assignment-expressions separated by commas; returns the sequence and the position of ")"
PArgs(ts, i, acc, cpp) ==
  LET a == PLevel(ts, i, 2, cpp)
  IN  IF At(ts, a.i) = "," THEN PArgs(ts, a.i + 1, Append(acc, a.t), cpp) ELSE R(Append(acc, a.t), a.i)

\* a statement of the test programs: if ( e ) | return e | int z = e | e      (the renderer appends "{ }" / ";")
Parse(ts, cpp) ==
  IF At(ts, 1) = "if" /\ At(ts, 2) = "(" THEN LET e == PLevel(ts, 3, 1, cpp) IN R(If(e.t), e.i + 1)
  ELSE IF At(ts, 1) = "return" THEN LET e == PLevel(ts, 2, 1, cpp) IN R(Ret(e.t), e.i)
  ELSE IF At(ts, 1) \in TypeNames /\ At(ts, 3) = "=" THEN LET e == PLevel(ts, 4, 2, cpp) IN R(Init(e.t), e.i)
  ELSE PLevel(ts, 1, 1, cpp)

ParsesBack(t, cpp) == LET ts == PrintExpr(t, cpp)  r == Parse(ts, cpp) IN r.t = t /\ r.i = Len(ts) + 1

(***************************************************************************)
(* Well-typed trees with exactly n operators, by sort:                     *)
(*   "L" int lvalue, "I" int rvalue that is not an lvalue, "P" int*.       *)
(* (s and q occur only in s.m and q->m, f only as callee.)  The profile     *)
(* fixes which int variables and which binary / assignment operators are   *)
(* used: every operator of the table occurs in profile "full".             *)
(***************************************************************************)
Profile(name) ==
  CASE name = "full" -> [vars |-> {"a", "b", "c"}, lits |-> {"1"}, bin |-> ArithOps, asg |-> AsgOps, un |-> {"+", "-", "!", "~"}, inc |-> {"++", "--"}]
    [] name = "rep"  -> [vars |-> {"a", "b"}, lits |-> {"1"}, bin |-> {"*", "+", "-", "<<", "<", ">", "==", "&", "^", "|", "&&", "||"}, asg |-> {"=", "+="},
                         un |-> {"-", "!"}, inc |-> {"++"}]
    [] name = "rep1" -> [vars |-> {"a"}, lits |-> {"1"}, bin |-> {"*", "-", "<<", "<", "==", "&", "^", "|", "&&", "||"}, asg |-> {"="},
                         un |-> {"-", "!"}, inc |-> {"++"}]
    \* one operator per precedence level, one variable, no literal: small enough for all trees with three operators
    [] name = "rep0" -> [vars |-> {"a"}, lits |-> {}, bin |-> {"*", "-", "<<", "<", "==", "&", "^", "|", "&&", "||"}, asg |-> {"="},
                         un |-> {"-", "!"}, inc |-> {"++"}]

\* TR(pf, sort, n, root): the trees of that sort with exactly n operators whose ROOT production belongs to one of the
\* families named in root ("*" = all families).  Sub-expressions are never restricted.  The families only serve to
\* split a big stratum into parts that separate TLC processes enumerate:
\*    "bin:<op>" per binary operator, "pcmp", "un", "inc", "asg", "cond", "comma", "cast", "sz", "call"      (sort I)
\*    "deref", "sub", "mem" (sort L);  "addr", "padd", "pinc", "pasg", "pcond", "pcomma" (sort P);  "leaf"
RECURSIVE TR(_, _, _, _)
T(pf, sort, n) == TR(pf, sort, n, {"*"})
A(pf, n) == T(pf, "L", n) \cup T(pf, "I", n)                       \* any int-valued expression
Pairs(S1(_), S2(_), m) == UNION {S1(i) \X S2(m - i) : i \in 0..m}
Triples(S1(_), S2(_), S3(_), m) == UNION {S1(i) \X S2(j) \X S3(m - i - j) : <<i, j>> \in {p \in (0..m) \X (0..m) : p[1] + p[2] <= m}}

TR(pf, sort, n, root) ==
  LET P == Profile(pf)
      Ints(i) == A(pf, i)
      Lvs(i)  == T(pf, "L", i)
      Ptrs(i) == T(pf, "P", i)
      On(f)   == "*" \in root \/ f \in root
  IN
  IF sort = "L" THEN
       IF n = 0 THEN (IF On("leaf") THEN {Leaf(v) : v \in P.vars} ELSE {})
       ELSE (IF On("deref") THEN {Pre("*", x) : x \in Ptrs(n - 1)} ELSE {})
            \cup (IF On("sub") THEN {Sub(p[1], p[2]) : p \in Pairs(Ptrs, Ints, n - 1)} ELSE {})
            \cup (IF n = 1 /\ On("mem") THEN {Bin(".", Leaf("s"), Leaf("m")), Bin("->", Leaf("q"), Leaf("m"))} ELSE {})
  ELSE IF sort = "I" THEN
       IF n = 0 THEN (IF On("leaf") THEN {Leaf(v) : v \in P.lits} ELSE {})
       ELSE UNION {IF On("bin:" \o op) THEN {Bin(op, p[1], p[2]) : p \in Pairs(Ints, Ints, n - 1)} ELSE {} : op \in P.bin}
            \cup (IF On("pcmp") THEN {Bin(op, p[1], p[2]) : op \in {"==", "<"} \cap P.bin, p \in Pairs(Ptrs, Ptrs, n - 1)} ELSE {})
            \cup (IF On("un") THEN {Pre(op, x) : op \in P.un, x \in Ints(n - 1)} ELSE {})
            \cup (IF On("inc") THEN {Pre(op, x) : op \in P.inc, x \in Lvs(n - 1)} \cup {Post(op, x) : op \in P.inc, x \in Lvs(n - 1)} ELSE {})
            \cup (IF On("asg") THEN {Bin(op, p[1], p[2]) : op \in P.asg, p \in Pairs(Lvs, Ints, n - 1)} ELSE {})
            \cup (IF On("cond") THEN {Cond(p[1], p[2], p[3]) : p \in Triples(Ints, Ints, Ints, n - 1)} ELSE {})
            \cup (IF On("comma") THEN {Bin(",", p[1], p[2]) : p \in Pairs(Ints, Ints, n - 1)} ELSE {})
            \cup (IF On("cast") THEN {Cast("int", x) : x \in Ints(n - 1)} ELSE {})
            \cup (IF On("sz") THEN {SzE(x) : x \in Ints(n - 1) \cup Ptrs(n - 1)} \cup (IF n = 1 THEN {SzT("int")} ELSE {}) ELSE {})
            \cup (IF On("call") THEN (IF n = 1 THEN {Call(Leaf("f"), <<>>)} ELSE {})
                                     \cup {Call(Leaf("f"), <<x>>) : x \in Ints(n - 1)}
                                     \cup {Call(Leaf("f"), <<p[1], p[2]>>) : p \in Pairs(Ints, Ints, n - 1)} ELSE {})
  ELSE \* "P"
       IF n = 0 THEN (IF On("leaf") THEN {Leaf("p")} ELSE {})
       ELSE (IF On("addr") THEN {Pre("&", x) : x \in Lvs(n - 1)} ELSE {})
            \cup (IF On("padd") THEN {Bin(op, p[1], p[2]) : op \in {"+", "-"} \cap P.bin, p \in Pairs(Ptrs, Ints, n - 1)} ELSE {})
            \cup (IF n = 1 /\ On("pinc") THEN {Pre(op, Leaf("p")) : op \in P.inc} \cup {Post(op, Leaf("p")) : op \in P.inc} ELSE {})
            \cup (IF On("pasg") THEN {Bin("=", Leaf("p"), x) : x \in Ptrs(n - 1)} ELSE {})
            \cup (IF On("pcond") THEN {Cond(p[1], p[2], p[3]) : p \in Triples(Ints, Ptrs, Ptrs, n - 1)} ELSE {})
            \cup (IF On("pcomma") THEN {Bin(",", p[1], p[2]) : p \in Pairs(Ints, Ptrs, n - 1)} ELSE {})

(***************************************************************************)
(* Statements.  Every expression e of sort int is placed as                *)
(*    x = e ;     if ( e ) { }     return e ;     f ( e , 1 ) ;            *)
(*    int z = e ;                                                          *)
(* and every pointer expression as  y = e ;  (int x; int *y;).             *)
(* The statement is itself a tree, so Print / Ast / Parse apply to it.     *)
(***************************************************************************)
StmtsOf(e, sort, ctxs) ==
  IF sort = "P" THEN {Bin("=", Leaf("y"), e)}
  ELSE (IF "asg" \in ctxs THEN {Bin("=", Leaf("x"), e)} ELSE {})
       \cup (IF "if" \in ctxs THEN {If(e)} ELSE {})
       \cup (IF "ret" \in ctxs THEN {Ret(e)} ELSE {})
       \cup (IF "init" \in ctxs THEN {Init(e)} ELSE {})
       \cup (IF "arg" \in ctxs THEN {Call(Leaf("f"), <<e, Leaf("1")>>)} ELSE {})

Stmts(pf, n, ctxs, root) == UNION {StmtsOf(e, "I", ctxs) : e \in TR(pf, "L", n, root) \cup TR(pf, "I", n, root)}
                            \cup UNION {StmtsOf(e, "P", ctxs) : e \in TR(pf, "P", n, root)}

\* the sort of a generated tree (needed to place a subtree into a statement of its own)
RECURSIVE SortOf(_)
SortOf(t) == CASE t.k = "leaf" -> (IF t.s \in {"p", "y"} THEN "P" ELSE "I")
               [] t.k = "pre" -> (IF t.op = "&" THEN "P" ELSE IF t.op \in {"++", "--"} THEN SortOf(t.x) ELSE "I")
               [] t.k = "post" -> SortOf(t.x)
               [] t.k = "bin" -> (IF t.op \in {"+", "-"} THEN (IF SortOf(t.x) = "P" /\ SortOf(t.y) = "I" THEN "P" ELSE "I")
                                 ELSE IF t.op \in AsgOps THEN SortOf(t.x) ELSE IF t.op = "," THEN SortOf(t.y) ELSE "I")
               [] t.k = "cond" -> SortOf(t.x)
               [] OTHER -> "I"

\* the sub-expressions of a tree that can stand alone as  x = e ;  /  y = e ;
RECURSIVE Subs(_)
Subs(t) == CASE t.k = "leaf" -> (IF t.s \in {"s", "q", "f", "m"} THEN {} ELSE {t})
             [] t.k = "bin" -> (IF t.op \in {".", "->"} THEN {t} ELSE {t} \cup Subs(t.x) \cup Subs(t.y))
             [] t.k \in {"pre", "post", "cast", "szE"} -> {t} \cup Subs(t.x)
             [] t.k \in {"if", "ret", "init"} -> Subs(t.x)
             [] t.k = "cond" -> {t} \cup Subs(t.c) \cup Subs(t.x) \cup Subs(t.y)
             [] t.k = "sub" -> {t} \cup Subs(t.x) \cup Subs(t.i)
             [] t.k = "call" -> {t} \cup UNION {Subs(t.args[i]) : i \in DOMAIN t.args}
             [] OTHER -> {t}
Alone(e) == Bin("=", Leaf(IF SortOf(e) = "P" THEN "y" ELSE "x"), e)

\* chains of two unary-level operators (prefix, postfix, cast, sizeof, subscript, call, member) over all operators of the table
IsUnaryLevel(t) == t.k \in {"pre", "post", "cast", "szE", "sub", "call"} \/ (t.k = "bin" /\ t.op \in {".", "->"})
UnaryChains(pf) ==
  LET P  == Profile(pf)
      XL == {t \in T(pf, "L", 1) : IsUnaryLevel(t)}          \* * p   p [ i ]   s . m   q -> m
      XI == XL \cup {t \in T(pf, "I", 1) : IsUnaryLevel(t)}   \* - a  ! a  ++ a  a ++  ( int ) a  sizeof a  f ( ) ...
      XP == {t \in T(pf, "P", 1) : IsUnaryLevel(t)}          \* & a   ++ p   p ++
  IN  {Pre(op, x) : op \in P.un, x \in XI} \cup {Pre(op, x) : op \in P.inc, x \in XL} \cup {Post(op, x) : op \in P.inc, x \in XL}
      \cup {Cast("int", x) : x \in XI} \cup {SzE(x) : x \in XI \cup XP}
      \cup {Pre("*", x) : x \in XP} \cup {Pre("&", x) : x \in XL} \cup {Sub(x, Leaf("a")) : x \in XP}
      \cup {Call(Leaf("f"), <<x>>) : x \in XI}

\* the number of operator nodes of a tree (for the evidence)
RECURSIVE Size(_)
Size(t) == CASE t.k = "leaf" -> 0 [] t.k = "szT" -> 1
             [] t.k = "bin" -> 1 + Size(t.x) + Size(t.y)
             [] t.k \in {"pre", "post", "cast", "szE", "if", "ret", "init"} -> 1 + Size(t.x)
             [] t.k = "cond" -> 1 + Size(t.c) + Size(t.x) + Size(t.y)
             [] t.k = "sub" -> 1 + Size(t.x) + Size(t.i)
             [] t.k = "call" -> 1 + Size(t.f) + (IF t.args = <<>> THEN 0 ELSE IF Len(t.args) = 1 THEN Size(t.args[1]) ELSE Size(t.args[1]) + Size(t.args[2]))

(***************************************************************************)
(* Larger trees: a seeded sample.  A tree with 3..7 operators is composed  *)
(* of root productions over randomly chosen enumerated subtrees.           *)
(***************************************************************************)
BigSample(pf, perFamily) ==
  LET P  == Profile(pf)
      S  == A(pf, 0) \cup A(pf, 1) \cup A(pf, 2)        \* int expressions with 0..2 operators
      S1 == A(pf, 1) \cup A(pf, 2)                       \* ... with 1..2 operators
      S2 == A(pf, 2)
      L1 == T(pf, "L", 1) \cup T(pf, "L", 2)
      Q1 == T(pf, "P", 1) \cup T(pf, "P", 2)
      K  == 1..perFamily
      Rnd(X) == RandomElement(X)
  IN  {Bin(Rnd(P.bin), Rnd(S1), Rnd(S1)) : i \in K}
      \cup {Cond(Rnd(S1), Rnd(S), Rnd(S1)) : i \in K}
      \cup {Bin(Rnd(P.asg), Rnd(L1), Rnd(S1)) : i \in K}
      \cup {Bin(",", Rnd(S1), Rnd(S1)) : i \in K}
      \cup {Call(Leaf("f"), <<Rnd(S1), Rnd(S1)>>) : i \in K}
      \cup {Sub(Rnd(Q1), Rnd(S1)) : i \in K}
      \cup {Pre(Rnd(P.un), Rnd(S2)) : i \in K} \cup {Cast("int", Rnd(S2)) : i \in K} \cup {SzE(Rnd(S2)) : i \in K}
      \cup {Pre("*", Bin(Rnd({"+", "-"}), Rnd(Q1), Rnd(S1))) : i \in K}
      \cup {Bin(Rnd(P.bin), Bin(Rnd(P.bin), Rnd(S1), Rnd(S)), Rnd(S1)) : i \in K}
      \cup {Bin(Rnd(P.bin), Rnd(S1), Cond(Rnd(S), Rnd(S1), Rnd(S))) : i \in K}

(***************************************************************************)
(* Steps (selected by IOEnv.MODE; TLC evaluates the ASSUMEs).              *)
(*   laws   Parse(PrintExpr(t)) = t and injectivity of Print on the cases      *)
(*   gen    write the cases: [id, n, toks] (+ tree for the judge)          *)
(*   judge  read cases + observations, compare with Ast, write mismatches  *)
(*   subs   write the sub-expressions of disputed cases as cases            *)
(*   repair write disputed cases in a repaired print (root-cause classes)   *)
(*   clang  compare the tree shape clang reports with the tree of the case *)
(***************************************************************************)
Mode == IF "MODE" \in DOMAIN IOEnv THEN IOEnv.MODE ELSE "none"
IsCpp == IOEnv.LANG = "cpp"
\* IOEnv.PLAN: ndjson, the strata of this run:
\*   [kind |-> "exact", pf, n, ctx, fam]   all statements (contexts ctx) over all well-typed trees of profile pf with exactly n
\*                                    operators whose root production is in one of the families fam (<<"*">> = all)
\*   [kind |-> "big", pf, n]          a random sample (TLC's -seed) of n trees per root family, 3 to 6 operators, as  x = e ;
Plan == ndJsonDeserialize(IOEnv.PLAN)
\*   [kind |-> "unary2", pf]         all chains of two unary-level operators of profile pf, as  x = e ; / y = e ;
CasesOf(st) == IF st.kind = "exact" THEN Stmts(st.pf, st.n, {st.ctx[i] : i \in DOMAIN st.ctx}, {st.fam[i] : i \in DOMAIN st.fam})
               ELSE IF st.kind = "unary2" THEN {Alone(e) : e \in UnaryChains(st.pf)}
               ELSE {Bin("=", Leaf("x"), e) : e \in BigSample(st.pf, st.n)}
AllCases == UNION {CasesOf(Plan[i]) : i \in DOMAIN Plan}
CaseSeq == SetToSeq(AllCases)

Laws == /\ \A t \in AllCases : ParsesBack(t, IsCpp)
        /\ Cardinality({PrintExpr(t, IsCpp) : t \in AllCases}) = Cardinality(AllCases)

ASSUME Mode = "laws" => Laws /\ PrintT(<<"LAWS", Cardinality(AllCases)>>)

\* gen checks the laws on exactly the cases it writes
ASSUME Mode = "gen" =>
         /\ Laws /\ PrintT(<<"LAWS", Cardinality(AllCases)>>)
         /\ ndJsonSerialize(IOEnv.OUT, [i \in DOMAIN CaseSeq |-> [id |-> i, n |-> Size(CaseSeq[i]), toks |-> PrintExpr(CaseSeq[i], IsCpp), t |-> CaseSeq[i]]])
         /\ PrintT(<<"CASES", Len(CaseSeq)>>)

\* judge: IOEnv.CASES (as written by gen) and IOEnv.OBS: [id, status, edges] line by line for the same ids in the same order
Cases == ndJsonDeserialize(IOEnv.CASES)
Obs   == ndJsonDeserialize(IOEnv.OBS)
EdgeSet(o) == {<<o.edges[j][1], o.edges[j][2], o.edges[j][3]>> : j \in DOMAIN o.edges}
ExpectedFor(i) == Expected(Cases[i].t, IsCpp, {e[1] : e \in EdgeSet(Obs[i])})
Mismatch(i) == Obs[i].status = "ok" /\ EdgeSet(Obs[i]) # ExpectedFor(i)
BadIdx == SelectSeq([i \in DOMAIN Cases |-> i], Mismatch)
ASSUME Mode = "judge" =>
         /\ Len(Cases) = Len(Obs) /\ \A i \in DOMAIN Cases : Cases[i].id = Obs[i].id
         /\ ndJsonSerialize(IOEnv.OUT, [k \in DOMAIN BadIdx |->
               [id |-> Cases[BadIdx[k]].id, toks |-> Cases[BadIdx[k]].toks, t |-> Cases[BadIdx[k]].t,
                expected |-> SetToSeq(ExpectedFor(BadIdx[k])), observed |-> SetToSeq(EdgeSet(Obs[BadIdx[k]]))]])
         /\ PrintT(<<"JUDGED", Len(Cases), "OK", Cardinality({i \in DOMAIN Obs : Obs[i].status = "ok"}), "BAD", Len(BadIdx)>>)

\* subs: for every disputed case of IOEnv.CASES the statements  x = e ;  over all sub-expressions e (to find the smallest failing one)
SubCases == LET S(i) == {Alone(e) : e \in Subs(Cases[i].t)} \cup {Cases[i].t}
                all == UNION {{<<i, u>> : u \in S(i)} : i \in DOMAIN Cases}
            IN  SetToSeq(all)
ASSUME Mode = "subs" =>
         /\ ndJsonSerialize(IOEnv.OUT, [k \in DOMAIN SubCases |-> [id |-> k, parent |-> Cases[SubCases[k][1]].id, n |-> Size(SubCases[k][2]),
                                                                   toks |-> PrintExpr(SubCases[k][2], IsCpp), t |-> SubCases[k][2]]])
         /\ PrintT(<<"SUBS", Len(SubCases)>>)

\* repair: the disputed cases of IOEnv.CASES (with their normal print in toks) printed in the variant IOEnv.REPAIR;
\* only those whose print changes are written (the others do not contain the construct)
RepairIdx == SelectSeq([i \in DOMAIN Cases |-> i], LAMBDA i : PrintExpr(Cases[i].t, IsCpp) # Cases[i].toks)
ASSUME Mode = "repair" =>
         /\ ndJsonSerialize(IOEnv.OUT, [k \in DOMAIN RepairIdx |-> [id |-> Cases[RepairIdx[k]].id, n |-> Size(Cases[RepairIdx[k]].t),
                                                                    toks |-> PrintExpr(Cases[RepairIdx[k]].t, IsCpp), t |-> Cases[RepairIdx[k]].t]])
         /\ PrintT(<<"REPAIRED", Len(RepairIdx)>>)

\* clang: IOEnv.CASES = the disputed cases [id, t, ...], IOEnv.OBS = [id, status, t] with the tree read off clang's AST dump
ClangAgrees(i) == Obs[i].status = "ok" /\ Obs[i].t = Cases[i].t
ASSUME Mode = "clang" =>
         /\ Len(Cases) = Len(Obs) /\ \A i \in DOMAIN Cases : Cases[i].id = Obs[i].id
         /\ ndJsonSerialize(IOEnv.OUT, [i \in DOMAIN Cases |-> [id |-> Cases[i].id, agrees |-> ClangAgrees(i)]])
         /\ PrintT(<<"CLANG", Len(Cases), "AGREE", Cardinality({i \in DOMAIN Cases : ClangAgrees(i)})>>)
=============================================================================
