------------------------------ MODULE RunTrace ------------------------------
(***************************************************************************)
(* Trace validation: the event sequences recorded from the hooked cppcheck *)
(* binary (normalised by lib/tracenorm.py: causal order, names) must be    *)
(* behaviours of Run.tla.  Every event is bound to the Run action of the   *)
(* same name with the logged arguments; the invariants of Run (ExitOK,     *)
(* NoDoubleEmit, UnmatchedSound) are evaluated after every step.           *)
(*                                                                         *)
(* Several runs with the same (Mode, ExitCode, EmitDup) are concatenated;  *)
(* a Header event resets the state.                                         *)
(***************************************************************************)
EXTENDS Run, Json, IOUtils

VARIABLES l,       \* next line of the log
          runs     \* number of runs completely validated (ghost)

Log == ndJsonDeserialize(IOEnv.TRACE)

tvars == <<vars, l, runs>>

E == Log[l]
Ev(n) == l <= Len(Log) /\ E.e = n /\ l' = l + 1

Empty == <<>>

InitVals ==
  /\ sl = ("main" :> Empty) @@ ("T" :> Empty)
  /\ wk = ("main" :> Idle)
  /\ ldup = ("main" :> {})
  /\ edup = {} /\ shown = {} /\ emitted = <<>>
  /\ xflag = ("main" :> FALSE)
  /\ result = 0
  /\ pipe = Empty /\ chst = Empty
  /\ phase = "exec" /\ unm = {} /\ nfm = {} /\ exit = -1

TraceInit == InitVals /\ l = 1 /\ runs = 0

Stutter == UNCHANGED vars

\* a run may only be followed by the next one when it is complete (or was killed: last event marked dies)
TrHeader ==
  /\ Ev("Header")
  /\ IF l = 1 THEN TRUE ELSE (phase = "done" \/ Log[l-1].e = "Killed")
  /\ sl' = ("main" :> Empty) @@ ("T" :> Empty)
  /\ wk' = ("main" :> Idle)
  /\ ldup' = ("main" :> {})
  /\ edup' = {} /\ shown' = {} /\ emitted' = <<>>
  /\ xflag' = ("main" :> FALSE)
  /\ result' = 0
  /\ pipe' = Empty /\ chst' = Empty
  /\ phase' = "exec" /\ unm' = {} /\ nfm' = {} /\ exit' = -1
  /\ runs' = IF l = 1 THEN 0 ELSE runs + 1

U == UNCHANGED runs

W == E.w

TrSupprQuery ==
  /\ Ev("SupprQuery") /\ U
  /\ E.ret = AnyM(E.res)
  /\ IF E.kind = "nofail"
     THEN E.glob /\ QueryNoFail(W, E.ret)     \* the only place the exit-code suppressions are consulted: all entries, in every worker
     ELSE \/ /\ wk[W].st = "pre" /\ E.dummy /\ E.a = Space(W) /\ E.glob
             /\ DummyQuery(W, E.res)
          \/ /\ wk[W].st = "raw" /\ E.a = Space(W)
             /\ Query1(W, E.glob, E.res)
          \/ /\ wk[W].st = "qf" /\ E.a = Space(W)
             /\ Query2(W, E.glob, E.res)
          \/ /\ wk[W].st = "fwd" /\ W # "main" /\ E.a = "main" /\ E.glob
             /\ ExecSupprQuery(W, E.res)

TrSupprAdd ==
  /\ Ev("SupprAdd") /\ U
  /\ IF E.from # "" THEN E.a = "main" /\ ParentSupprAdd(E.from, E.key, E.rec, E.res)
     ELSE SupprAdd(E.a, E.key, E.rec, E.res)

TrSupprUpdate ==
  /\ Ev("SupprUpdate") /\ U
  /\ IF E.from # "" THEN E.a = "main" /\ ParentSupprUpdate(E.from, E.key, E.checked, E.matched, E.found)
     ELSE SupprUpdate(E.a, E.key, E.checked, E.matched, E.found)

ToSet(s) == {s[i] : i \in DOMAIN s}

TrSent ==
  /\ Ev("Sent") /\ U
  /\ Sent(W, E.t, IF E.t = "5" THEN (IF xflag[W] THEN 1 ELSE 0) ELSE 0)

TrEmit ==
  /\ Ev("Emit") /\ U
  /\ IF phase = "post" THEN EmitDirect(E.x, E.fk, E.dup) ELSE Emit(W, E.x, E.fk, E.dup)

\* a run that was killed (fault injection) ends here; nothing more is claimed about it
TrKilled == Ev("Killed") /\ U /\ Stutter

TraceNext ==
  \/ TrHeader
  \/ TrKilled
  \/ Ev("NewChecker") /\ U /\ NewChecker(W)
  \/ Ev("Next") /\ U /\ StartWorker(W, E.file)
  \/ Ev("Spawn") /\ U /\ Spawn(W, E.file)
  \/ Ev("ChildStart") /\ U /\ ChildStart(W)
  \/ TrSupprQuery \/ TrSupprAdd \/ TrSupprUpdate
  \/ Ev("SupprMark") /\ U /\ SupprMark(E.a, ToSet(E.keys))
  \/ Ev("CheckBegin") /\ U /\ CheckBegin(W, E.file)
  \/ Ev("DupClear") /\ U /\ DupClear(W)
  \/ Ev("CheckEnd") /\ U /\ CheckEnd(W, E.exit)
  \/ Ev("Raw") /\ U /\ Raw(W, E.x)
  \/ Ev("LibraryDrop") /\ U /\ LibraryDrop(W, E.x)
  \/ Ev("Gate") /\ U /\ Gate(W, E.x, E.fk, E.suppressed, E.empty)
  \/ Ev("LocalDup") /\ U /\ LocalDup(W, E.x)
  \/ Ev("ExitFlag") /\ U /\ ExitFlag(W, E.x)
  \/ Ev("Forward") /\ U /\ Forward(W, E.x)
  \/ Ev("ExecPass") /\ U /\ ExecPass(W, E.x, E.fk)
  \/ Ev("ExecDup") /\ U /\ ExecDup(W, E.x, E.fk)
  \/ Ev("ExecQuery") /\ U /\ ExecDone(W, E.x, E.res)
  \/ TrEmit
  \/ Ev("SendErr") /\ U /\ SendErr(W, E.x)
  \/ Ev("SendSuppr") /\ U /\ SendSuppr(W, E.key, E.inl, E.checked, E.matched)
  \/ TrSent
  \/ Ev("ChildChecked") /\ U /\ ChildChecked(W, E.result)
  \/ Ev("ChildExit") /\ U /\ Stutter
  \/ Ev("ChildGone") /\ U /\ ChildGone(W)
  \/ Ev("Recv") /\ U /\ Recv(W, E.t, E.n)
  \/ Ev("RecvErr") /\ U /\ RecvErr(W, E.x)
  \/ Ev("PipeEof") /\ U /\ PipeEof(W)
  \/ Ev("Reap") /\ U /\ Reap(W)
  \/ Ev("ChildErr") /\ U /\ ChildErr(W, [id |-> "cppcheckError", sev |-> "error", inc |-> FALSE, file |-> E.file, line |-> 0, col |-> 0, msg |-> "Internal error: " \o E.msg])
  \/ Ev("ThreadFileDone") /\ U /\ AccountThread(W, E.result)
  \/ Ev("ThreadEnd") /\ U /\ Stutter
  \/ Ev("ThreadsJoined") /\ U /\ E.result = result /\ Stutter
  \/ Ev("SingleFilesDone") /\ U /\ E.result = result /\ Stutter
  \/ Ev("ProcDone") /\ U /\ E.result = result /\ Stutter
  \/ Ev("WpMemBegin") /\ U /\ WpMemBegin
  \/ Ev("WpMemEnd") /\ U /\ \E b \in BOOLEAN : WpMemEnd(b)
  \/ Ev("ExecDone") /\ U /\ ExecFinished(E.result)
  \/ Ev("WpDirBegin") /\ U /\ phase = "wp" /\ Stutter
  \/ Ev("WpDirEnd") /\ U /\ WpDone
  \/ Ev("Unmatched") /\ U /\ Unmatched(E.key)
  \/ Ev("UnmatchedDone") /\ U /\ UnmatchedDone(E.err)
  \/ Ev("PreReport") /\ U /\ Stutter
  \/ Ev("Exit") /\ U /\ Exit(E.code)

TraceSpec == TraceInit /\ [][TraceNext]_tvars

\* acceptance (POSTCONDITION): every step consumes exactly one line, so the diameter of the explored graph
\* is 1 + the length of the longest prefix of the log that is a behaviour of Run
Accepted ==
  LET d == TLCGet("stats").diameter
  IN IF d - 1 = Len(Log) THEN TRUE
     ELSE PrintT(<<"REJECTED_AT_LINE", d, Log[d]>>) /\ FALSE

TraceInv == NoDoubleEmit /\ ExitOK /\ UnmatchedSound
=============================================================================
