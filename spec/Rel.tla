--------------------------------- MODULE Rel ---------------------------------
(***************************************************************************)
(* Relations between the final observations of several runs (the part of   *)
(* C15, C17, C18, C19, C20, C21, C22, C27, C29 that speaks about what the   *)
(* user sees).  Python records the observations, TLC evaluates the          *)
(* relation and writes the violating pairs.                                 *)
(*                                                                         *)
(* Input  IOEnv.OBS : ndjson; line 1 = [rel, exclude (ids not compared)],   *)
(*        other lines = [group, role ("ref"|"alt"), name, findings, exit]   *)
(*        findings = sequence of [id, key]  (key = rendered identity)       *)
(* Output IOEnv.OUT : ndjson of violating [group, ref, alt, why, diff]      *)
(***************************************************************************)
EXTENDS Integers, Sequences, FiniteSets, TLC, Json, IOUtils, SequencesExt

In == ndJsonDeserialize(IOEnv.OBS)
Params == In[1]
Obs == SubSeq(In, 2, Len(In))

Excl == {Params.exclude[i] : i \in DOMAIN Params.exclude}

Kept(o) == SelectSeq(o.findings, LAMBDA f : f.id \notin Excl)
KeySeq(o) == [i \in DOMAIN Kept(o) |-> Kept(o)[i].key]
KeySet(o) == {Kept(o)[i].key : i \in DOMAIN Kept(o)}

\* number of occurrences (multiset comparison)
Count(s, k) == Cardinality({i \in DOMAIN s : s[i] = k})
SameBag(a, b) == /\ KeySet(a) = KeySet(b)
                 /\ \A k \in KeySet(a) : Count(KeySeq(a), k) = Count(KeySeq(b), k)

\* the relation named in the parameters, between a reference run and an alternative run of the same group
Holds(r, a) ==
  CASE Params.rel = "SameSetAndExit" -> KeySet(r) = KeySet(a) /\ r.exit = a.exit
    [] Params.rel = "SameSet"        -> KeySet(r) = KeySet(a)
    [] Params.rel = "SameBagAndExit" -> SameBag(r, a) /\ r.exit = a.exit
    [] Params.rel = "SameSeqAndExit" -> KeySeq(r) = KeySeq(a) /\ r.exit = a.exit
    [] Params.rel = "Subset"         -> KeySet(r) \subseteq KeySet(a)
    [] Params.rel = "SupersetOfRef"  -> KeySet(r) \subseteq KeySet(a)

Why(r, a) ==
  [group |-> r.group, ref |-> r.name, alt |-> a.name, rel |-> Params.rel,
   onlyRef |-> SetToSeq(KeySet(r) \ KeySet(a)), onlyAlt |-> SetToSeq(KeySet(a) \ KeySet(r)),
   exitRef |-> r.exit, exitAlt |-> a.exit]

Pairs == {<<i, j>> \in (DOMAIN Obs) \X (DOMAIN Obs) :
            Obs[i].role = "ref" /\ Obs[j].role = "alt" /\ Obs[i].group = Obs[j].group}

Bad == {p \in Pairs : ~Holds(Obs[p[1]], Obs[p[2]])}

\* ---- relations between ONE alternative run and ALL reference runs named in its `parts' field
\* "UnionOfParts": what a run over several inputs reports is the union of what the runs over each input alone
\* report, and it fails (exit status) iff one of them fails.
Alts == {j \in DOMAIN Obs : Obs[j].role = "alt"}
PartsOf(j) == {i \in DOMAIN Obs : Obs[i].role = "ref" /\ \E k \in DOMAIN Obs[j].parts : Obs[j].parts[k] = Obs[i].name}
UnionKeys(j) == UNION {KeySet(Obs[i]) : i \in PartsOf(j)}
MaxExit(j) == IF \E i \in PartsOf(j) : Obs[i].exit # 0
              THEN (CHOOSE e \in {Obs[i].exit : i \in PartsOf(j)} : e # 0) ELSE 0
UnionHolds(j) == KeySet(Obs[j]) = UnionKeys(j) /\ Obs[j].exit = MaxExit(j)
BadU == {j \in Alts : ~UnionHolds(j)}
WhyU(j) == [group |-> Obs[j].group, ref |-> "union of parts", alt |-> Obs[j].name, rel |-> Params.rel,
            onlyRef |-> SetToSeq(UnionKeys(j) \ KeySet(Obs[j])), onlyAlt |-> SetToSeq(KeySet(Obs[j]) \ UnionKeys(j)),
            exitRef |-> MaxExit(j), exitAlt |-> Obs[j].exit]

IsUnion == Params.rel = "UnionOfParts"

\* ---- a relation on single runs: "UniquePrimary": no two reported findings share the primary identity `pk'
\* (id, primary location, message) - a finding is reported exactly once even when its secondary locations differ
PkSeq(o) == [i \in DOMAIN Kept(o) |-> Kept(o)[i].pk]
DupPk(o) == {k \in {PkSeq(o)[i] : i \in DOMAIN PkSeq(o)} : Count(PkSeq(o), k) > 1}
IsUnique == Params.rel = "UniquePrimary"
BadQ == {j \in DOMAIN Obs : DupPk(Obs[j]) # {}}
WhyQ(j) == [group |-> Obs[j].group, ref |-> "-", alt |-> Obs[j].name, rel |-> Params.rel,
            onlyRef |-> <<>>, onlyAlt |-> SetToSeq(DupPk(Obs[j])), exitRef |-> 0, exitAlt |-> Obs[j].exit]

ASSUME CASE IsUnion  -> PrintT(<<"PAIRS", Cardinality(Alts), "BAD", Cardinality(BadU)>>)
         [] IsUnique -> PrintT(<<"PAIRS", Len(Obs), "BAD", Cardinality(BadQ)>>)
         [] OTHER    -> PrintT(<<"PAIRS", Cardinality(Pairs), "BAD", Cardinality(Bad)>>)
ASSUME CASE IsUnion  -> ndJsonSerialize(IOEnv.OUT, [i \in 1..Cardinality(BadU) |-> WhyU(SetToSeq(BadU)[i])])
         [] IsUnique -> ndJsonSerialize(IOEnv.OUT, [i \in 1..Cardinality(BadQ) |-> WhyQ(SetToSeq(BadQ)[i])])
         [] OTHER    -> ndJsonSerialize(IOEnv.OUT, [i \in 1..Cardinality(Bad) |-> Why(Obs[SetToSeq(Bad)[i][1]], Obs[SetToSeq(Bad)[i][2]])])
=============================================================================
