SPECIFICATION Spec
CONSTANTS
  PMode = "thread"
  NJobs = 2
  Scenario = 1
  ExitCode = 1
  EmitDup = FALSE
INVARIANT ParallelEqSingle
INVARIANT Invs
CHECK_DEADLOCK TRUE
