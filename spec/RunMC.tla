-------------------------------- MODULE RunMC --------------------------------
(***************************************************************************)
(* C15 on the design: the single-job pipeline (instance R) runs first on   *)
(* the scenario's constants, then the parallel executor (instance P) runs  *)
(* in every interleaving; when both are done the report, the unmatched     *)
(* suppressions and the exit status must agree.                            *)
(***************************************************************************)
EXTENDS Integers, Sequences, FiniteSets, TLC

CONSTANTS PMode, NJobs, Scenario, ExitCode, EmitDup, Bug, Crash

VARIABLES r_sl, r_wk, r_ldup, r_edup, r_shown, r_emitted, r_xflag, r_result, r_pipe, r_chst, r_phase, r_unm, r_nfm, r_exit, r_q, r_dv,
          p_sl, p_wk, p_ldup, p_edup, p_shown, p_emitted, p_xflag, p_result, p_pipe, p_chst, p_phase, p_unm, p_nfm, p_exit, p_q, p_dv

rvars == <<r_sl, r_wk, r_ldup, r_edup, r_shown, r_emitted, r_xflag, r_result, r_pipe, r_chst, r_phase, r_unm, r_nfm, r_exit, r_q, r_dv>>
pvars == <<p_sl, p_wk, p_ldup, p_edup, p_shown, p_emitted, p_xflag, p_result, p_pipe, p_chst, p_phase, p_unm, p_nfm, p_exit, p_q, p_dv>>

X(id, file) == [id |-> id, sev |-> "error", inc |-> FALSE, file |-> file, line |-> 1, col |-> 1, msg |-> id]

\* ---------------------------------------------------------------- scenarios
\* 1: two files sharing a header finding; global, local, header-inline and unmatched inline suppressions
\* 2: three files; the same finding text from two files; a wildcard suppression; exit-code suppression
\* 3: like 1 plus a file that returns early (duplicate list not cleared) and a library-dropped finding
\* 4: a file-local command line suppression that matches a finding (the worker alone learns that it matched)
Files == CASE Scenario = 1 -> <<"f1", "f2">>
           [] Scenario = 2 -> <<"f1", "f2", "f3">>
           [] Scenario = 3 -> <<"f1", "f2", "f3">>
           [] Scenario = 4 -> <<"f1", "f2">>

xh == X("hdr", "h")
x1 == X("a", "f1")
x2 == X("b", "f2")
x3 == X("c", "f3")
xd == X("dupl", "h2")

RawOf == CASE Scenario = 1 -> [f1 |-> <<xh, x1>>, f2 |-> <<x2, xh>>]
           [] Scenario = 2 -> [f1 |-> <<xd, x1>>, f2 |-> <<xd>>, f3 |-> <<x3, xd>>]
           [] Scenario = 3 -> [f1 |-> <<xh, x1, xh>>, f2 |-> <<x2, xh>>, f3 |-> <<x3>>]
           [] Scenario = 4 -> [f1 |-> <<x1>>, f2 |-> <<x2>>]

SupprInfo == [g  |-> [inl |-> FALSE, local |-> FALSE, wild |-> FALSE, line |-> -1],   \* --suppress=a
              w  |-> [inl |-> FALSE, local |-> FALSE, wild |-> TRUE,  line |-> -1],   \* --suppress=zzz:*.c
              l2 |-> [inl |-> FALSE, local |-> TRUE,  wild |-> FALSE, line |-> 7],    \* --suppress=b:f2:7 (other line)
              lm |-> [inl |-> FALSE, local |-> TRUE,  wild |-> FALSE, line |-> -1],   \* --suppress=a:f1 (matches x1)
              ih |-> [inl |-> TRUE,  local |-> TRUE,  wild |-> FALSE, line |-> 3],    \* inline in the header
              i1 |-> [inl |-> TRUE,  local |-> TRUE,  wild |-> FALSE, line |-> 5],    \* inline in f1, matches nothing
              i3 |-> [inl |-> TRUE,  local |-> TRUE,  wild |-> FALSE, line |-> 2]]    \* inline in f3, matches x3

CmdKeys == CASE Scenario = 1 -> {"g", "l2"}
             [] Scenario = 2 -> {"w", "g"}
             [] Scenario = 3 -> {"g", "l2", "w"}
             [] Scenario = 4 -> {"lm", "l2"}

InlineOf == CASE Scenario = 1 -> [f1 |-> {"ih", "i1"}, f2 |-> {"ih"}]
              [] Scenario = 2 -> [f1 |-> {}, f2 |-> {}, f3 |-> {"i3"}]
              [] Scenario = 3 -> [f1 |-> {"ih", "i1"}, f2 |-> {"ih"}, f3 |-> {"i3"}]
              [] Scenario = 4 -> [f1 |-> {}, f2 |-> {}]
MarkOf == InlineOf

ResOf(k, x) ==
  CASE k = "g"  -> IF x.id = "a" THEN "M" ELSE "C"
    [] k = "w"  -> IF x.file \in {"f1", "f2", "f3"} THEN "C" ELSE "N"
    [] k = "l2" -> "N"                                   \* other line: never consulted by a finding
    [] k = "lm" -> IF x = x1 THEN "M" ELSE "N"
    [] k = "ih" -> IF x = xh THEN "M" ELSE "N"
    [] k = "i1" -> "N"
    [] k = "i3" -> IF x = x3 THEN "M" ELSE "N"

DummyOf(k, f) ==
  CASE k = "g"  -> "C"
    [] k = "w"  -> "C"
    [] k = "l2" -> "N"
    [] OTHER    -> "N"

NoFailSet == IF Scenario = 2 THEN {x1} ELSE {}
LibDrop == IF Scenario = 3 THEN {x2} ELSE {}
EarlyExit == IF Scenario = 3 THEN {"f1"} ELSE {}
\* scenario 4: both workers may die, at any point each (several crashes in one run, also of the last workers)
CrashFiles == IF Crash THEN (IF Scenario = 4 THEN {"f1", "f2"} ELSE {"f2"}) ELSE {}
Threads == IF NJobs = 2 THEN {"t1", "t2"} ELSE {"t1", "t2", "t3"}

R == INSTANCE RunDrive WITH Mode <- "single",
       sl <- r_sl, wk <- r_wk, ldup <- r_ldup, edup <- r_edup, shown <- r_shown, emitted <- r_emitted, xflag <- r_xflag,
       result <- r_result, pipe <- r_pipe, chst <- r_chst, phase <- r_phase, unm <- r_unm, nfm <- r_nfm, exit <- r_exit,
       q <- r_q, dv <- r_dv
P == INSTANCE RunDrive WITH Mode <- PMode,
       sl <- p_sl, wk <- p_wk, ldup <- p_ldup, edup <- p_edup, shown <- p_shown, emitted <- p_emitted, xflag <- p_xflag,
       result <- p_result, pipe <- p_pipe, chst <- p_chst, phase <- p_phase, unm <- p_unm, nfm <- p_nfm, exit <- p_exit,
       q <- p_q, dv <- p_dv

Init == R!DInit /\ P!DInit
Next == IF r_phase # "done"
        THEN R!DNext /\ UNCHANGED pvars
        ELSE IF p_phase # "done"
             THEN P!DNext /\ UNCHANGED rvars
             ELSE UNCHANGED <<rvars, pvars>>          \* both runs finished (anything else that stops is a deadlock)
Spec == Init /\ [][Next]_<<rvars, pvars>>
\* weak fairness of the whole next-state relation: some enabled step is eventually taken
FairSpec == Spec /\ WF_<<rvars, pvars>>(Next)
\* C21 "cppcheck still terminates": every fair behaviour - whatever worker dies wherever - reaches the end of the run
Terminates == <>(p_phase = "done")

Range(s) == {s[i] : i \in DOMAIN s}

Crashed == {p_chst[c].file : c \in {d \in DOMAIN p_chst : p_chst[d].eof \/ (p_chst[d].reaped /\ \E x \in Range(p_emitted) : x.id = "cppcheckError" /\ x.file = p_chst[d].file)}}
RaisedBy(x) == {Files[i] : i \in {j \in DOMAIN Files : x \in Range(RawOf[Files[j]])}}

\* a suppression whose only matches are in files whose worker died is reported as unmatched: the worker never told the
\* parent that it matched. The statement of C21 does not rule that out (it is a report about the crashed file's code).
UnmatchedBecauseOfCrash(x) ==
  /\ x.id = "unmatchedSuppression"
  /\ \E f \in Crashed : \E y \in Range(RawOf[f]) : ResOf(x.file, y) = "M"

\* C21 (design): a dying worker is contained
Contained ==
  (p_phase = "done" /\ Crashed # {}) =>
     /\ \A f \in Crashed : \E x \in Range(p_emitted) : x.id = "cppcheckError" /\ x.file = f
     /\ p_exit = ExitCode
     /\ \A x \in Range(r_emitted) : (RaisedBy(x) \subseteq Crashed) \/ x \in Range(p_emitted)
     /\ \A x \in Range(p_emitted) : x.id = "cppcheckError" \/ x \in Range(r_emitted) \/ UnmatchedBecauseOfCrash(x)

\* C15 (design): same findings, same unmatched-suppression reports, same exit status
ParallelEqSingle ==
  (p_phase = "done" /\ Crashed = {}) =>
     /\ Range(p_emitted) = Range(r_emitted)
     /\ p_unm = r_unm
     /\ p_exit = r_exit

Invs == /\ R!NoDoubleEmit /\ P!NoDoubleEmit
        /\ R!ExitOK /\ P!ExitOK
        /\ R!UnmatchedSound /\ P!UnmatchedSound

\* hide the finished reference run's bookkeeping; nothing else is hidden
=============================================================================
