------------------------------ MODULE LockTrace ------------------------------
(***************************************************************************)
(* C16 binding: every instrumented access site of the hooked binary logs   *)
(* the object it touches and whether the guarding mutex was held at that   *)
(* moment (measured with try_lock, not assumed).  A trace conforms to the  *)
(* discipline of ThreadLock.tla iff, while worker threads exist (between   *)
(* ThreadsSpawned and ThreadsJoined), every access to a guarded object has *)
(* held = TRUE; unguarded accesses are legal only in the sequential phases.*)
(* A `Race` event (a data race reported by the ThreadSanitizer build) is    *)
(* never accepted.                                                          *)
(* IOEnv.TRACE: ndjson of [e, obj, held, tid, label]; e = "Header" starts  *)
(* a run.                                                                   *)
(***************************************************************************)
EXTENDS Integers, Sequences, FiniteSets, TLC, Json, IOUtils

VARIABLES l, par, n

Log == ndJsonDeserialize(IOEnv.TRACE)
E == Log[l]
Guarded == {"suppressions", "execDup", "fileIter", "report", "timerResults", "timerCout"}

Init == l = 1 /\ par = FALSE /\ n = 0

Step ==
  /\ l <= Len(Log)
  /\ l' = l + 1
  /\ CASE E.e = "Header"         -> par' = FALSE /\ n' = n
       [] E.e = "ThreadsSpawned" -> par' = TRUE /\ n' = n
       [] E.e = "ThreadsJoined"  -> par' = FALSE /\ n' = n
       [] E.e = "Access"         -> /\ E.obj \in Guarded
                                    /\ par => E.held           \* the discipline
                                    /\ par' = par /\ n' = n + 1
       \* reported by the ThreadSanitizer build of the same tree: two conflicting accesses to the same memory, at least
       \* one of them a write, with no common lock and no happens-before order. ThreadLock's NoRace forbids exactly
       \* that for every object, so no behaviour of the discipline contains such an event.
       [] E.e = "Race"           -> FALSE
       [] OTHER                  -> par' = par /\ n' = n

Spec == Init /\ [][Step]_<<l, par, n>>

Accepted ==
  LET d == TLCGet("stats").diameter
  IN IF d - 1 = Len(Log) THEN TRUE ELSE PrintT(<<"REJECTED_AT_LINE", d, Log[d]>>) /\ FALSE
=============================================================================
