SPECIFICATION Spec
CONSTANTS
  Files = {"a", "b"}
  MaxEdits = 3
  KeyMode = "ideal"
  Jobs = 2
INVARIANT Transparent
INVARIANT EntrySound
INVARIANT TypeOK
CHECK_DEADLOCK FALSE
