------------------------------- MODULE SeqGen -------------------------------
(***************************************************************************)
(* Histories: every sequence over an alphabet up to length K (optionally   *)
(* only sequences of distinct letters).  Used to enumerate edit histories  *)
(* (C18), option histories (C19) and file orders (C17).                    *)
(* IOEnv.POOL: one line [letters |-> <<...>>, k |-> K, distinct |-> BOOL]  *)
(***************************************************************************)
EXTENDS Integers, Sequences, FiniteSets, TLC, Json, IOUtils, SequencesExt

P == ndJsonDeserialize(IOEnv.POOL)[1]
Letters == {P.letters[i] : i \in DOMAIN P.letters}

RECURSIVE SeqsOfLen(_)
SeqsOfLen(n) == IF n = 0 THEN {<<>>} ELSE {Append(s, a) : s \in SeqsOfLen(n - 1), a \in Letters}

Distinct(s) == \A i, j \in DOMAIN s : i # j => s[i] # s[j]
Ok(s) == ~P.distinct \/ Distinct(s)

All == UNION {{s \in SeqsOfLen(n) : Ok(s)} : n \in 1..P.k}

ASSUME PrintT(<<"SEQS", Cardinality(All)>>)
ASSUME ndJsonSerialize(IOEnv.OUT, [i \in 1..Cardinality(All) |-> [seq |-> SetToSeq(All)[i]]])
=============================================================================
