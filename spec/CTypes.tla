------------------------------- MODULE CTypes -------------------------------
(***************************************************************************)
(* Types of C and C++ expressions over the built-in arithmetic types,      *)
(* bool, an enumeration and pointers, per platform (C09).                  *)
(*                                                                         *)
(* The definitions follow ISO C11 6.3.1.1 (integer promotions), 6.3.1.8    *)
(* (usual arithmetic conversions), 6.5.x (operators) and ISO C++           *)
(* [conv.prom], [expr.arith.conv], [expr.*]; they are declarative: a type  *)
(* is characterised by rank, width and signedness on the platform, and the *)
(* result type of an operator is stated per operator class.  Nothing here  *)
(* follows cppcheck's code.                                                *)
(*                                                                         *)
(* A type is [b |-> base, p |-> pointer depth].  Bases:                     *)
(*   bool char schar uchar short ushort int uint long ulong llong ullong   *)
(*   wchar_t char8_t char16_t char32_t (C++ only: distinct types; in C the  *)
(*   literals L'x' u'x' U'x' have the platform's typedef target type)      *)
(*   enum (unscoped, enumerators 0, 1)                                     *)
(*   float double ldouble                                                  *)
(*   "?" = implementation-defined (left open, never judged)                *)
(***************************************************************************)
EXTENDS Integers, Sequences, FiniteSets

--------------------------------------------------------------------------
(* Platforms: the six built-in ones of cppcheck.  Sizes in bytes.  sizeT /  *)
(* ptrdiffT / wcharT name the integer types the ABI uses for size_t,        *)
(* ptrdiff_t, wchar_t (an ABI choice, not derivable from the sizes: both    *)
(* ILP32 ABIs have sizeof(long) = sizeof(int) and use unsigned int).        *)
(* triple = the clang target that implements the same ABI (second witness). *)
(* "native" is the platform cppcheck was compiled on; the checks run on     *)
(* x86_64 Linux (asserted by the driver), i.e. the LP64 System V ABI.       *)
(* wchar_t of the i386 System V ABI is "long" for gcc and "int" for clang    *)
(* (same size and sign); wcharTypeOpen marks that its C typedef target is    *)
(* compiler-specific there.  msvc: the platform's compiler is Microsoft's   *)
(* (documented deviations from ISO are left open, see CLit.tla).            *)

LP64 == [short |-> 2, int |-> 4, long |-> 8, llong |-> 8, ptr |-> 8, float |-> 4, double |-> 8, ldouble |-> 16,
         sizeT |-> "ulong", ptrdiffT |-> "long", wcharT |-> "int", charSigned |-> TRUE,
         triple |-> "x86_64-linux-gnu", wcharTypeOpen |-> FALSE, msvc |-> FALSE]
ILP32 == [short |-> 2, int |-> 4, long |-> 4, llong |-> 8, ptr |-> 4, float |-> 4, double |-> 8, ldouble |-> 12,
          sizeT |-> "uint", ptrdiffT |-> "int", wcharT |-> "int", charSigned |-> TRUE,
          triple |-> "i386-linux-gnu", wcharTypeOpen |-> TRUE, msvc |-> FALSE]
WIN32 == [short |-> 2, int |-> 4, long |-> 4, llong |-> 8, ptr |-> 4, float |-> 4, double |-> 8, ldouble |-> 8,
          sizeT |-> "uint", ptrdiffT |-> "int", wcharT |-> "ushort", charSigned |-> TRUE,
          triple |-> "i386-pc-windows-msvc", wcharTypeOpen |-> FALSE, msvc |-> TRUE]
WIN64 == [short |-> 2, int |-> 4, long |-> 4, llong |-> 8, ptr |-> 8, float |-> 4, double |-> 8, ldouble |-> 8,
          sizeT |-> "ullong", ptrdiffT |-> "llong", wcharT |-> "ushort", charSigned |-> TRUE,
          triple |-> "x86_64-pc-windows-msvc", wcharTypeOpen |-> FALSE, msvc |-> TRUE]

(* Generated platform files (cppcheck --platform=<file>.xml, format of man/manual.md "Platform"; C10):    *)
(* a 16-bit-int model (= clang's msp430 target), an ILP32 model with unsigned plain char (= clang's         *)
(* arm-none-eabi) and an ILP64 model (8-byte int, Cray-like) that no installed compiler target implements:  *)
(* triple = "" means the specification is the only witness there.                                          *)
GEN16 == [short |-> 2, int |-> 2, long |-> 4, llong |-> 8, ptr |-> 2, float |-> 4, double |-> 8, ldouble |-> 8,
          sizeT |-> "uint", ptrdiffT |-> "int", wcharT |-> "int", charSigned |-> TRUE,
          triple |-> "msp430-elf", wcharTypeOpen |-> FALSE, msvc |-> FALSE]
GENARM == [short |-> 2, int |-> 4, long |-> 4, llong |-> 8, ptr |-> 4, float |-> 4, double |-> 8, ldouble |-> 8,
           sizeT |-> "uint", ptrdiffT |-> "int", wcharT |-> "uint", charSigned |-> FALSE,
           triple |-> "arm-none-eabi", wcharTypeOpen |-> FALSE, msvc |-> FALSE]
GENILP64 == [short |-> 2, int |-> 8, long |-> 8, llong |-> 8, ptr |-> 8, float |-> 4, double |-> 8, ldouble |-> 16,
             sizeT |-> "ulong", ptrdiffT |-> "long", wcharT |-> "int", charSigned |-> FALSE,
             triple |-> "", wcharTypeOpen |-> TRUE, msvc |-> FALSE]

BuiltinPlatforms == {"native", "unix32", "unix64", "win32A", "win32W", "win64"}
GeneratedPlatforms == {"gen16", "genarm", "genilp64"}
Platform(name) ==
  CASE name \in {"native", "unix64"} -> LP64
    [] name = "unix32" -> ILP32
    [] name \in {"win32A", "win32W"} -> WIN32
    [] name = "win64" -> WIN64
    [] name = "gen16" -> GEN16
    [] name = "genarm" -> GENARM
    [] name = "genilp64" -> GENILP64

--------------------------------------------------------------------------
(* Types *)

Ty(b) == [b |-> b, p |-> 0]
PtrTo(t) == [b |-> t.b, p |-> t.p + 1]
Pointee(t) == [b |-> t.b, p |-> t.p - 1]

StdInts == {"char", "schar", "uchar", "short", "ushort", "int", "uint", "long", "ulong", "llong", "ullong"}
IntBases == StdInts \cup {"bool", "wchar_t", "char16_t", "char32_t", "char8_t", "enum"}
FltBases == {"float", "double", "ldouble"}

IsInt(t) == t.p = 0 /\ t.b \in IntBases
IsFlt(t) == t.p = 0 /\ t.b \in FltBases
IsArith(t) == IsInt(t) \/ IsFlt(t)
IsPtr(t) == t.p > 0
IsScalar(t) == IsArith(t) \/ IsPtr(t)
IsOpen(t) == t.b = "?"
Open == Ty("?")

\* conversion rank of the standard integer types (6.3.1.1p1)
Rank(b) == CASE b = "bool" -> 0
             [] b \in {"char", "schar", "uchar"} -> 1
             [] b \in {"short", "ushort"} -> 2
             [] b \in {"int", "uint"} -> 3
             [] b \in {"long", "ulong"} -> 4
             [] b \in {"llong", "ullong"} -> 5

RECURSIVE Bytes(_, _)
Bytes(b, P) == CASE b \in {"bool", "char", "schar", "uchar"} -> 1
                 [] b \in {"short", "ushort"} -> P.short
                 [] b \in {"int", "uint", "enum"} -> P.int
                 [] b \in {"long", "ulong"} -> P.long
                 [] b \in {"llong", "ullong"} -> P.llong
                 [] b = "wchar_t" -> Bytes(P.wcharT, P)
                 [] b = "char8_t" -> 1
                 [] b = "char16_t" -> 2
                 [] b = "char32_t" -> 4
                 [] b = "float" -> P.float
                 [] b = "double" -> P.double
                 [] b = "ldouble" -> P.ldouble
SizeOf(t, P) == IF t.p > 0 THEN P.ptr ELSE Bytes(t.b, P)
\* value bits of an integer type (bool: one bit)
Bits(b, P) == IF b = "bool" THEN 1 ELSE 8 * Bytes(b, P)

RECURSIVE IsSigned(_, _)
IsSigned(b, P) == CASE b \in {"schar", "short", "int", "long", "llong", "enum"} -> TRUE
                    [] b \in {"bool", "uchar", "ushort", "uint", "ulong", "ullong", "char8_t", "char16_t", "char32_t"} -> FALSE
                    [] b = "char" -> P.charSigned
                    [] b = "wchar_t" -> IsSigned(P.wcharT, P)

Unsigned(b) == CASE b \in {"int", "uint"} -> "uint"
                 [] b \in {"long", "ulong"} -> "ulong"
                 [] b \in {"llong", "ullong"} -> "ullong"
SignedOf(b) == CASE b \in {"int", "uint"} -> "int"
                 [] b \in {"long", "ulong"} -> "long"
                 [] b \in {"llong", "ullong"} -> "llong"

\* every value of integer type b is a value of integer type a
CanRepresent(a, b, P) ==
  IF IsSigned(a, P) = IsSigned(b, P) THEN Bits(a, P) >= Bits(b, P)
  ELSE IF IsSigned(a, P) THEN Bits(a, P) > Bits(b, P)
  ELSE FALSE

\* first type of a list that can represent all values of b
RECURSIVE FirstFit(_, _, _)
FirstFit(list, b, P) == IF list = <<>> THEN "?"
                        ELSE IF CanRepresent(list[1], b, P) THEN list[1]
                        ELSE FirstFit(Tail(list), b, P)

(* Integer promotions.  C11 6.3.1.1p2 / C++ [conv.prom]: types of rank below *)
(* int become int if int can represent all their values, else unsigned int;  *)
(* wchar_t (C++) becomes the first of int .. unsigned long long that can     *)
(* represent it; an unscoped enumeration whose values are 0..1 becomes int   *)
(* in C++; in C the enumerated type is compatible with an implementation-    *)
(* defined integer type, so its promotion is left open.  Floating types and  *)
(* types of rank >= int are unchanged.                                       *)
Promote(b, lang, P) ==
  CASE b \in FltBases -> b
    [] b = "?" -> "?"
    [] b = "enum" -> IF lang = "c" THEN "?" ELSE "int"
    [] b \in {"wchar_t", "char16_t", "char32_t"} -> FirstFit(<<"int", "uint", "long", "ulong", "llong", "ullong">>, b, P)
    [] b = "char8_t" -> "int"
    [] b = "bool" -> "int"
    [] OTHER -> IF Rank(b) < 3 THEN (IF CanRepresent("int", b, P) THEN "int" ELSE "uint") ELSE b

(* Usual arithmetic conversions (C11 6.3.1.8, C++ [expr.arith.conv]).         *)
Usual(a, b, lang, P) ==
  IF "ldouble" \in {a, b} THEN "ldouble"
  ELSE IF "double" \in {a, b} THEN "double"
  ELSE IF "float" \in {a, b} THEN "float"
  ELSE LET x == Promote(a, lang, P)
           y == Promote(b, lang, P)
       IN  IF x = "?" \/ y = "?" THEN "?"
           ELSE IF x = y THEN x
           ELSE IF IsSigned(x, P) = IsSigned(y, P) THEN (IF Rank(x) >= Rank(y) THEN x ELSE y)
           ELSE LET u == IF IsSigned(x, P) THEN y ELSE x      \* the unsigned operand type
                    s == IF IsSigned(x, P) THEN x ELSE y      \* the signed operand type
                IN  IF Rank(u) >= Rank(s) THEN u
                    ELSE IF CanRepresent(s, u, P) THEN s
                    ELSE Unsigned(s)

--------------------------------------------------------------------------
(* Operators.  Binary operators are named by their token; unary ones:       *)
(*   "u+" "u-" "~" "!" "++x" "--x" "x++" "x--" "*x" "&x" "sizeof" "sizeof()" *)
(*   "cast" (second operand = target type)   "?:" (condition is an int)      *)
(*   "[]" subscript   "," comma                                              *)

MulOps == {"*", "/"}
AddOps == {"+", "-"}
IntOps == {"%", "&", "|", "^"}
ShiftOps == {"<<", ">>"}
RelOps == {"<", "<=", ">", ">="}
EqOps == {"==", "!="}
LogicOps == {"&&", "||"}
CompArith == {"+=", "-=", "*=", "/="}
CompInt == {"%=", "&=", "|=", "^=", "<<=", ">>="}
BinaryOps == MulOps \cup AddOps \cup IntOps \cup ShiftOps \cup RelOps \cup EqOps \cup LogicOps
             \cup {"="} \cup CompArith \cup CompInt \cup {",", "?:", "[]", "cast"}
UnaryOps == {"u+", "u-", "~", "!", "++x", "--x", "x++", "x--", "*x", "&x", "sizeof", "sizeof()"}

\* type of the result of a comparison / logical operator
TruthT(lang) == IF lang = "c" THEN "int" ELSE "bool"

Bad == [ok |-> FALSE, t |-> Open, rule |-> "ill-formed"]
Res(t, rule) == [ok |-> TRUE, t |-> t, rule |-> rule]

(* Result type of `a op b` (operands: lvalues of types a, b).  ok = FALSE:   *)
(* the expression is ill-formed or outside the modelled fragment (mixing     *)
(* pointers and integers in comparisons / assignments, which compilers       *)
(* accept only with a diagnostic) and no case is generated.                  *)
Binary(op, a, b, lang, P) ==
  CASE op \in MulOps ->
         IF IsArith(a) /\ IsArith(b) THEN Res(Ty(Usual(a.b, b.b, lang, P)), "usual") ELSE Bad
    [] op \in IntOps ->
         IF IsInt(a) /\ IsInt(b) THEN Res(Ty(Usual(a.b, b.b, lang, P)), "usual") ELSE Bad
    [] op \in AddOps ->
         IF IsArith(a) /\ IsArith(b) THEN Res(Ty(Usual(a.b, b.b, lang, P)), "usual")
         ELSE IF IsPtr(a) /\ IsInt(b) THEN Res(a, "ptr-arith")
         ELSE IF op = "+" /\ IsInt(a) /\ IsPtr(b) THEN Res(b, "ptr-arith")
         ELSE IF op = "-" /\ IsPtr(a) /\ a = b THEN Res(Ty(P.ptrdiffT), "ptrdiff")
         ELSE Bad
    [] op \in ShiftOps ->
         IF IsInt(a) /\ IsInt(b) THEN Res(Ty(Promote(a.b, lang, P)), "shift") ELSE Bad
    [] op \in RelOps \cup EqOps ->
         IF (IsArith(a) /\ IsArith(b)) \/ (IsPtr(a) /\ a = b) THEN Res(Ty(TruthT(lang)), "truth") ELSE Bad
    [] op \in LogicOps ->
         IF IsScalar(a) /\ IsScalar(b) THEN Res(Ty(TruthT(lang)), "truth") ELSE Bad
    [] op = "=" ->
         IF (IsArith(a) /\ IsArith(b) /\ (a.b # "enum" \/ b.b = "enum" \/ lang = "c")) \/ (IsPtr(a) /\ a = b)
         THEN Res(a, "assign") ELSE Bad
    [] op \in {"+=", "-="} ->
         IF (IsArith(a) /\ IsArith(b) /\ (a.b # "enum" \/ lang = "c")) \/ (IsPtr(a) /\ IsInt(b))
         THEN Res(a, "assign") ELSE Bad
    [] op \in {"*=", "/="} ->
         IF IsArith(a) /\ IsArith(b) /\ (a.b # "enum" \/ lang = "c") THEN Res(a, "assign") ELSE Bad
    [] op \in CompInt ->
         IF IsInt(a) /\ IsInt(b) /\ (a.b # "enum" \/ lang = "c") THEN Res(a, "assign") ELSE Bad
    [] op = "," -> Res(b, "comma")
    [] op = "?:" ->
         \* C11 6.5.15p5: arithmetic operands -> usual arithmetic conversions; C++ [expr.cond]: two lvalues of the
         \* same type give that type, otherwise the usual arithmetic conversions
         IF IsArith(a) /\ IsArith(b)
         THEN (IF lang = "c++" /\ a = b THEN Res(a, "cond-same") ELSE Res(Ty(Usual(a.b, b.b, lang, P)), "cond"))
         ELSE IF IsPtr(a) /\ a = b THEN Res(a, "cond-same")
         ELSE Bad
    [] op = "[]" ->
         IF IsPtr(a) /\ IsInt(b) THEN Res(Pointee(a), "subscript")
         ELSE IF IsInt(a) /\ IsPtr(b) THEN Res(Pointee(b), "subscript")
         ELSE Bad
    [] op = "cast" ->
         IF IsArith(a) /\ IsArith(b) /\ b.b # "enum" THEN Res(b, "cast") ELSE Bad

Unary(op, a, lang, P) ==
  CASE op \in {"u+", "u-"} -> IF IsArith(a) THEN Res(Ty(Promote(a.b, lang, P)), "promote") ELSE Bad
    [] op = "~" -> IF IsInt(a) THEN Res(Ty(Promote(a.b, lang, P)), "promote") ELSE Bad
    [] op = "!" -> IF IsScalar(a) THEN Res(Ty(TruthT(lang)), "truth") ELSE Bad
    [] op \in {"++x", "--x", "x++", "x--"} ->
         \* the result has the type of the operand; bool and enumerations cannot be incremented in C++
         IF IsPtr(a) \/ (IsArith(a) /\ (lang = "c" \/ a.b \notin {"bool", "enum"})) THEN Res(a, "incdec") ELSE Bad
    [] op = "*x" -> IF IsPtr(a) THEN Res(Pointee(a), "deref") ELSE Bad
    [] op = "&x" -> Res(PtrTo(a), "addr")
    [] op \in {"sizeof", "sizeof()"} -> Res(Ty(P.sizeT), "sizeof")

ResultType(op, a, b, lang, P) == IF op \in UnaryOps THEN Unary(op, a, lang, P) ELSE Binary(op, a, b, lang, P)

--------------------------------------------------------------------------
(* Source spelling *)

BaseSpelling(b) ==
  CASE b = "bool" -> "bool" [] b = "char" -> "char" [] b = "schar" -> "signed char" [] b = "uchar" -> "unsigned char"
    [] b = "short" -> "short" [] b = "ushort" -> "unsigned short" [] b = "int" -> "int" [] b = "uint" -> "unsigned int"
    [] b = "long" -> "long" [] b = "ulong" -> "unsigned long" [] b = "llong" -> "long long" [] b = "ullong" -> "unsigned long long"
    [] b = "wchar_t" -> "wchar_t" [] b = "enum" -> "enum E"
    [] b = "char8_t" -> "char8_t" [] b = "char16_t" -> "char16_t" [] b = "char32_t" -> "char32_t"
    [] b = "float" -> "float" [] b = "double" -> "double" [] b = "ldouble" -> "long double"
RECURSIVE Stars(_)
Stars(n) == IF n = 0 THEN "" ELSE "*" \o Stars(n - 1)
Spelling(t, lang) == (IF t.b = "bool" /\ lang = "c" THEN "_Bool" ELSE BaseSpelling(t.b)) \o (IF t.p > 0 THEN " " \o Stars(t.p) ELSE "")
\* identifier fragment
RECURSIVE Ps(_)
Ps(n) == IF n = 0 THEN "" ELSE "p" \o Ps(n - 1)
TypeId(t) == Ps(t.p) \o (IF t.b = "wchar_t" THEN "wchar" ELSE t.b)

--------------------------------------------------------------------------
(* What cppcheck's dump can express: (valueType-type, valueType-sign,        *)
(* valueType-pointer).  signed char / unsigned char / char share the name    *)
(* "char"; in C wchar_t is a typedef name of the platform's integer type.    *)
DumpName(b) ==
  CASE b = "bool" -> "bool" [] b \in {"char", "schar", "uchar"} -> "char" [] b \in {"short", "ushort"} -> "short"
    [] b \in {"int", "uint"} -> "int" [] b \in {"long", "ulong"} -> "long" [] b \in {"llong", "ullong"} -> "long long"
    [] b = "wchar_t" -> "wchar_t" [] b = "float" -> "float" [] b = "double" -> "double" [] b = "ldouble" -> "long double"
DumpSign(b, P) ==
  IF b \in FltBases \cup {"bool"} THEN "" ELSE IF IsSigned(b, P) THEN "signed" ELSE "unsigned"
DumpProj(t, P) == [type |-> DumpName(t.b), sign |-> DumpSign(t.b, P), pointer |-> t.p]

(* The observed triple agrees with type t.  A missing sign (cppcheck leaves   *)
(* the sign of plain char and of wchar_t undetermined) is not a wrong sign.   *)
(* In C, "wchar_t" names the typedef: it agrees with the platform's           *)
(* underlying type.                                                           *)
Agrees(obs, t, lang, P) ==
  LET e == DumpProj(t, P)
      o == IF obs.type = "wchar_t" /\ lang = "c"
           THEN [type |-> DumpName(P.wcharT), sign |-> IF obs.sign = "" THEN "" ELSE obs.sign, pointer |-> obs.pointer]
           ELSE obs
  IN  /\ o.type = e.type
      /\ o.pointer = e.pointer
      /\ (o.sign = "" \/ o.sign = e.sign)
=============================================================================
