
