INIT Init
NEXT Next
INVARIANT NeverReached
