
