#!/usr/bin/env python3
"""Scripted addon for C34: prints exactly the lines of case.json (next to this script) and exits with its exit code.

cppcheck calls:  python3 fake.py --cli <dumpfile | file.ctu-info | --file-list list>
For a .ctu-info argument (whole program stage) the received summaries are written to received-<n>.json and
nothing is printed. The substring @FILE@ in a line is replaced by the source file the dump belongs to.
"""
import json
import os
import re
import sys

here = os.path.dirname(os.path.abspath(__file__))
case = json.load(open(os.path.join(here, "case.json")))
args = [a for a in sys.argv[1:] if a != "--cli"]
target = args[-1] if args else ""
files = [target]
if "--file-list" in args:
    files = [l.strip() for l in open(target) if l.strip()]
if files and files[0].endswith(".ctu-info"):
    got = []
    for f in files:
        try:
            got += [l.strip() for l in open(f) if l.strip()]
        except OSError:
            pass
    n = 0
    while os.path.exists(os.path.join(here, "received-%d.json" % n)):
        n += 1
    json.dump(got, open(os.path.join(here, "received-%d.json" % n), "w"))
    sys.exit(0)
src = re.sub(r"(\.\d+)?\.dump$", "", target)      # t.c.dump or t.c.<pid>.dump; with a build dir the name is <base>.aN.dump
try:
    head = open(target, errors="replace").read(20000)
    m = re.search(r'<file index="0" name="([^"]*)"', head)
    if m:
        src = m.group(1)
except OSError:
    pass
for line in case["lines"]:
    sys.stdout.write(line.replace("@FILE@", os.path.basename(src)) + "\n")
sys.stdout.flush()
sys.exit(int(case.get("exit", 0)))
