"""Keeps one interpreter with pygments loaded and runs htmlreport/cppcheck-htmlreport in it, once per job (C36).

Job (one JSON line on stdin): {"script": path, "cwd": dir, "argv": [options...]}
Answer (one JSON line on stdout): {"rc": exit status, "err": last line of what the script wrote to stderr / the exception}
The script file is executed from its source with runpy (fresh module namespace per job, sys.argv set as on a command line);
only the already imported library modules (pygments, xml.sax ...) are shared between the jobs.
"""
import contextlib
import io
import json
import os
import runpy
import sys
import traceback


def main():
    real_out = sys.stdout
    for line in sys.stdin:
        job = json.loads(line)
        out, err = io.StringIO(), io.StringIO()
        rc = 0
        old_argv, old_cwd = sys.argv, os.getcwd()
        try:
            os.chdir(job["cwd"])
            sys.argv = [job["script"]] + job["argv"]
            with contextlib.redirect_stdout(out), contextlib.redirect_stderr(err):
                try:
                    runpy.run_path(job["script"], run_name="__main__")
                except SystemExit as ex:
                    rc = ex.code if isinstance(ex.code, int) else (0 if ex.code is None else 1)
                except BaseException:  # the script died with an exception: that is an observation
                    rc = 1
                    err.write(traceback.format_exc())
        finally:
            sys.argv = old_argv
            os.chdir(old_cwd)
        last = (err.getvalue().strip().splitlines() or [""])[-1][:200]
        real_out.write(json.dumps({"rc": rc, "err": last if rc != 0 else ""}) + "\n")
        real_out.flush()


if __name__ == "__main__":
    main()
