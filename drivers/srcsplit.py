"""srcsplit - cut C/C++ source files into small self-contained excerpts and make token-level mutants (text only).

split_items(text)         -> [(kind, text)] top-level items; kind in {"pp", "decl", "func"}
excerpts(text, max_lines) -> [text] : every excerpt = all preprocessor lines and declarations of the file (in order)
                                      + a run of consecutive function definitions of at most max_lines lines
lex(text)                 -> [token strings] rough C/C++ lexer (identifiers, numbers, strings, chars, punctuators)
mutate(text, rng)         -> (mutated text, description) one seeded token-level edit
"""
import re

_PUNCT = ["<<=", ">>=", "...", "->*", "::", "->", "++", "--", "<<", ">>", "<=", ">=", "==", "!=", "&&", "||",
          "+=", "-=", "*=", "/=", "%=", "&=", "|=", "^=", "##"]
_TOKEN_RE = re.compile(
    r"""(?P<ws>\s+)|(?P<lc>//[^\n]*)|(?P<bc>/\*.*?\*/)|(?P<str>(?:u8|[uUL])?"(?:\\.|[^"\\\n])*")|(?P<chr>(?:[uUL])?'(?:\\.|[^'\\\n])*')"""
    r"""|(?P<num>\.?\d(?:[eEpP][+-]|[\w.])*)|(?P<id>[A-Za-z_]\w*)|(?P<p>""" + "|".join(re.escape(p) for p in _PUNCT) + r"""|.)""",
    re.S)


def lex(text):
    """[(kind, text)] including whitespace and comments, so that "".join(t for _, t in lex(s)) == s."""
    out = []
    for m in _TOKEN_RE.finditer(text):
        out.append((m.lastgroup, m.group(0)))
    return out


def split_items(text):
    items = []
    cur = []
    depth = 0
    toks = lex(text)
    i = 0
    n = len(toks)
    at_line_start = True

    def flush(kind):
        s = "".join(cur)
        if s.strip():
            items.append((kind, s))
        del cur[:]

    while i < n:
        kind, t = toks[i]
        if kind == "ws":
            cur.append(t)
            if "\n" in t:
                at_line_start = True
            i += 1
            continue
        if kind == "p" and t == "#" and at_line_start and depth == 0:
            # preprocessor directive up to the end of the (continued) line
            if "".join(cur).strip():
                flush("decl")
            line = []
            while i < n:
                k2, t2 = toks[i]
                if k2 == "ws" and "\n" in t2:
                    # a backslash immediately before the newline continues the directive
                    prev = "".join(line).rstrip(" \t")
                    if prev.endswith("\\"):
                        line.append(t2)
                        i += 1
                        continue
                    break
                if k2 == "p" and t2 == "\\":
                    line.append(t2)
                    i += 1
                    continue
                line.append(t2)
                i += 1
            cur.extend(line)
            cur.append("\n")
            flush("pp")
            at_line_start = True
            continue
        at_line_start = False
        cur.append(t)
        i += 1
        if kind != "p":
            continue
        if t in "{":
            depth += 1
        elif t == "}":
            depth -= 1
            if depth <= 0:
                depth = 0
                # look ahead: "};" belongs to a declaration (struct, enum, initialiser)
                j = i
                while j < n and toks[j][0] in ("ws", "lc", "bc"):
                    j += 1
                if j < n and toks[j][1] == ";":
                    continue
                head = "".join(cur).split("{", 1)[0]
                if "(" in head or re.match(r"\s*(namespace|extern)\b", head):
                    flush("func")
                else:
                    flush("decl")
        elif t == ";" and depth == 0:
            flush("decl")
    if "".join(cur).strip():
        flush("decl")
    return items


def excerpts(text, max_lines=40):
    items = split_items(text)
    pre = "".join(s if s.endswith("\n") else s + "\n" for k, s in items if k != "func")
    res = []
    group = []
    lines = 0
    for k, s in items:
        if k != "func":
            continue
        nl = s.count("\n") + 1
        if group and lines + nl > max_lines:
            res.append(pre + "\n".join(group) + "\n")
            group, lines = [], 0
        group.append(s.strip("\n"))
        lines += nl
    if group:
        res.append(pre + "\n".join(group) + "\n")
    if not res and pre.strip():
        res.append(pre)
    return res


_OPS = ["+", "-", "*", "/", "%", "&", "|", "^", "<", ">", "<=", ">=", "==", "!=", "&&", "||", "<<", ">>", "=", "+=", "-=",
        "?", ":", ",", ".", "->", "!", "~", "++", "--", "::"]
_BR = ["(", ")", "[", "]", "{", "}"]


def mutate(text, rng):
    """One token-level edit of the part of the text after the last preprocessor line block (keeps #include lines intact)."""
    toks = lex(text)
    idx = [i for i, (k, t) in enumerate(toks) if k in ("id", "num", "p", "str", "chr") and t not in ("#", "\\")]
    # do not touch preprocessor lines
    pp = set()
    i = 0
    line_start = True
    while i < len(toks):
        k, t = toks[i]
        if k == "ws":
            if "\n" in t:
                line_start = True
            i += 1
            continue
        if line_start and t == "#":
            while i < len(toks) and not (toks[i][0] == "ws" and "\n" in toks[i][1] and not "".join(x[1] for x in toks[max(0, i - 1):i]).endswith("\\")):
                pp.add(i)
                i += 1
            continue
        line_start = False
        i += 1
    idx = [i for i in idx if i not in pp]
    if len(idx) < 4:
        return text, "none"
    kind = rng.choice(["delete", "dup", "swap", "op", "bracket", "insertop", "id2num", "paren"])
    p = rng.choice(idx)
    t = toks[p][1]
    desc = kind
    if kind == "delete":
        toks[p] = ("ws", " ")
        desc = "delete '%s'" % t
    elif kind == "dup":
        toks[p] = (toks[p][0], t + " " + t)
        desc = "duplicate '%s'" % t
    elif kind == "swap":
        q = idx[min(idx.index(p) + 1, len(idx) - 1)]
        toks[p], toks[q] = toks[q], toks[p]
        desc = "swap '%s' '%s'" % (t, toks[p][1])
    elif kind == "op":
        ops = [i for i in idx if toks[i][1] in _OPS]
        if ops:
            p = rng.choice(ops)
            new = rng.choice(_OPS)
            desc = "replace '%s' by '%s'" % (toks[p][1], new)
            toks[p] = ("p", " " + new + " ")
    elif kind == "bracket":
        brs = [i for i in idx if toks[i][1] in _BR]
        if brs:
            p = rng.choice(brs)
            new = rng.choice(_BR + [""])
            desc = "replace '%s' by '%s'" % (toks[p][1], new)
            toks[p] = ("p", new)
    elif kind == "insertop":
        new = rng.choice(_OPS + _BR + ["<", ">", "template", "struct", "sizeof", "return", "case", "else", ";"])
        toks[p] = (toks[p][0], t + " " + new + " ")
        desc = "insert '%s' after '%s'" % (new, t)
    elif kind == "id2num":
        ids = [i for i in idx if toks[i][0] == "id"]
        if ids:
            p = rng.choice(ids)
            new = rng.choice(["0", "1", "x", "int", "a.b", "f()", "(x)", "*p", "a[1]"])
            desc = "replace '%s' by '%s'" % (toks[p][1], new)
            toks[p] = ("id", new)
    elif kind == "paren":
        q = idx[min(idx.index(p) + rng.randint(0, 3), len(idx) - 1)]
        toks[p] = (toks[p][0], "(" + toks[p][1])
        toks[q] = (toks[q][0], toks[q][1] + ")")
        desc = "parenthesise from '%s'" % t
    return "".join(x[1] for x in toks), desc
