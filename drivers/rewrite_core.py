"""Structured programs, rewrites as functions on the structured form, renderer with exact maps, projection (C05, C06).

Nothing here decides the property: the module renders programs, converts cppcheck's output to projected keys and
writes the traces that spec/Rewrite.tla judges.

STRUCTURED FORM
    prog  = {"name", "langs": ["c","cpp"], "items": [item...], "origin": text}
    item  = {"kind": "inc"|"macro"|"type"|"glob"|"func"|"proto"|"other",
             "lines": [line...],             the item as written by the generator / importer
             "entity": "" | "typedef"|"using"|"macro"|"template"   (C06: the item DEFINES the expanded entity)
             "alt": {xkind: [line...]}       (C06: other form of the whole item, used when rendering.x[xkind] = 1)
             "pin": bool}                    pinned items (#include, #define) keep their place at the top
    line  = {"ind": indentation level, "toks": [tok...], "pp": preprocessor line (rendered verbatim),
             "sb": a statement boundary precedes the line (filler lines may be inserted in front of it)}
    tok   = "text"                            fixed text (keyword, operator, literal, library / member / global name)
          | ["l"|"p"|"t"|"f"|"g", key]        identifier with a role; base spelling = key up to "__"
                                              l local, p parameter (scope = the item), t type, f function (scope = program),
                                              g global variable (never renamed; used for the declaration order only)
          | ["X", xkind, [tok...], [tok...]]  C06 use site: sugar form / expanded form

RENDERING  (the record Rewrite.tla calls `rendering`; every rewrite changes only this)
    {"ws": 0..2, "ind": 0..3, "fill": [[kind "b"|"c", n]...], "names": {"l","p","t","f" -> 0|1|2}, "order": 0|1|2,
     "x": {xkind -> 0|1}}
"""
import os
import re

# ------------------------------------------------------------------ vocabulary
KEYWORDS = set("""auto break case char const continue default do double else enum extern float for goto if inline int long
register restrict return short signed sizeof static struct switch typedef union unsigned void volatile while _Bool bool
class public private protected template typename using namespace new delete this true false explicit virtual operator
nullptr try catch throw friend mutable constexpr noexcept static_cast const_cast reinterpret_cast dynamic_cast
override final decltype""".split())

ROLES_RENAMED = ("l", "p", "t", "f")
ID_ROLES = ("l", "p", "t", "f", "g")

_msgwords = None


def message_words(repo):
    """Lower-case words that occur in string literals of lib/*.cpp (cppcheck's message vocabulary). A renamable
    identifier must not be spelled like one of them: the projection maps names inside messages word by word."""
    global _msgwords
    if _msgwords is None:
        words = set()
        d = os.path.join(repo, "lib")
        for fn in sorted(os.listdir(d)):
            if fn.endswith(".cpp"):
                with open(os.path.join(d, fn), errors="replace") as f:
                    for lit in re.findall(r'"((?:\\.|[^"\\\n])*)"', f.read()):
                        # sentence-like literals only: Token::Match patterns and format strings are not messages
                        if re.search(r"%\w+%|[|\[\]]", lit) or len(re.findall(r"[A-Za-z]{2,}", lit)) < 3:
                            continue
                        words.update(re.findall(r"[A-Za-z_][A-Za-z0-9_]*", lit))
        _msgwords = words
    return _msgwords


# ------------------------------------------------------------------ lexer (templates of the generators, samples)
PUNCT = ["...", "<<=", ">>=", "->*", "::", "->", "++", "--", "<<", ">>", "<=", ">=", "==", "!=", "&&", "||", "+=", "-=", "*=",
         "/=", "%=", "&=", "|=", "^=", "##"]
_TOK = re.compile(r"""
    (?P<ws>[ \t]+)
  | (?P<lc>//[^\n]*)
  | (?P<bc>/\*.*?\*/)
  | (?P<str>(?:u8|u|U|L)?"(?:\\.|[^"\\])*")
  | (?P<chr>(?:u8|u|U|L)?'(?:\\.|[^'\\])*')
  | (?P<id>[A-Za-z_$][A-Za-z0-9_$]*)
  | (?P<num>\.?[0-9](?:[eEpP][+-]|[A-Za-z0-9_.])*)
  | (?P<p>""" + "|".join(re.escape(p) for p in PUNCT) + r"""|.)
""", re.X | re.S)


def lex_line(text):
    toks = []
    for m in _TOK.finditer(text):
        k = m.lastgroup
        if k in ("ws", "lc", "bc"):
            continue
        toks.append(m.group())
    return toks


def mark(tok):
    """`$l_name` in a template -> ["l", "name"]."""
    if tok.startswith("$") and len(tok) > 3 and tok[1] in ID_ROLES and tok[2] == "_":
        return [tok[1], tok[3:]]
    return tok


def parse_lines(text, roles=None):
    """Template / source text -> list of lines. Leading tabs (or 4 blanks) give the indentation level.
    roles: {spelling: role} for imported sources (identifiers after . -> :: are members and stay fixed)."""
    lines = []
    prev_end = None
    for raw in text.split("\n"):
        if not raw.strip():
            continue
        lead = raw[:len(raw) - len(raw.lstrip())]
        ind = lead.count("\t") + lead.count(" ") // 4
        s = raw.strip()
        if s.startswith("#"):
            m = re.match(r"#\s*(\w+)\s*(.*)$", s)
            toks = ["#" + m.group(1)] + ([m.group(2)] if m.group(2) else [])
            lines.append({"ind": 0, "toks": toks, "pp": True, "sb": True})
            prev_end = ";"
            continue
        toks = []
        for t in lex_line(s):
            t = mark(t)
            if roles and isinstance(t, str) and t in roles and not (toks and toks[-1] in (".", "->", "::")):
                t = [roles[t], t]
            toks.append(t)
        if not toks:
            continue
        sb = prev_end is None or prev_end in (";", "{", "}")
        lines.append({"ind": ind, "toks": toks, "pp": False, "sb": sb})
        last = toks[-1]
        prev_end = last if isinstance(last, str) else "id"
    return lines


def mk_item(kind, text, roles=None, pin=False, entity="", alt=None):
    return {"kind": kind, "lines": parse_lines(text, roles), "pin": pin, "entity": entity,
            "alt": {k: parse_lines(v, roles) for k, v in (alt or {}).items()}}


def X(xkind, sugar, expanded):
    """C06 use-site group from two template strings."""
    return ["X", xkind, [mark(t) for t in lex_line(sugar)], [mark(t) for t in lex_line(expanded)]]


def split_items(lines):
    """Lines of an imported file -> list of line lists, one per top-level item (brace depth 0, `;` or `}`)."""
    items, cur, depth = [], [], 0
    n = len(lines)
    for li, ln in enumerate(lines):
        if ln["pp"] and depth == 0 and not cur:
            items.append([ln])
            continue
        cur.append(ln)
        if ln["pp"]:
            continue
        for t in ln["toks"]:
            if t == "{":
                depth += 1
            elif t == "}":
                depth -= 1
        last = ln["toks"][-1]
        if depth == 0 and last in (";", "}"):
            nxt = lines[li + 1]["toks"][0] if li + 1 < n and not lines[li + 1]["pp"] else None
            if last == "}" and nxt == ";":
                continue
            items.append(cur)
            cur = []
    if cur or depth != 0:
        raise ValueError("unbalanced input")
    return items


# ------------------------------------------------------------------ structure queries
def base_of(key):
    return key.split("__")[0]


def item_lines(item, R):
    for xk, ls in item["alt"].items():
        if R["x"].get(xk, 0) == 1:
            return ls
    return item["lines"]


def flat_toks(toks, R):
    """Concrete token list of a line under rendering R: [(tok, abstract index, in_group)]."""
    out = []
    for ai, t in enumerate(toks):
        if isinstance(t, list) and t[0] == "X":
            for u in (t[3] if R["x"].get(t[1], 0) == 1 else t[2]):
                out.append((u, ai, True))
        else:
            out.append((t, ai, False))
    return out


def all_ids(item, both_forms=True):
    """(role, key) of every identifier token of the item (all forms)."""
    res = []

    def walk(toks):
        for t in toks:
            if isinstance(t, list):
                if t[0] == "X":
                    walk(t[2])
                    walk(t[3])
                else:
                    res.append((t[0], t[1]))
    for ls in [item["lines"]] + (list(item["alt"].values()) if both_forms else []):
        for ln in ls:
            walk(ln["toks"])
    return res


def fixed_words(prog):
    """Identifier-like fixed tokens (keywords, library names, members, ...)."""
    res = set()

    def walk(toks):
        for t in toks:
            if isinstance(t, list):
                if t[0] == "X":
                    walk(t[2])
                    walk(t[3])
            else:
                res.update(re.findall(r"[A-Za-z_][A-Za-z0-9_]*", t))
    for it in prog["items"]:
        for ls in [it["lines"]] + list(it["alt"].values()):
            for ln in ls:
                walk(ln["toks"])
    return res


def declared(item):
    """Program-scope names (roles f t g) that occur at brace/parenthesis depth 0 of the item: it declares them."""
    res = set()
    for ls in [item["lines"]] + list(item["alt"].values()):
        depth = 0
        for ln in ls:
            if ln["pp"]:
                continue
            for t in ln["toks"]:
                if isinstance(t, list):
                    if t[0] == "X":
                        for u in t[2] + t[3]:
                            if isinstance(u, list) and u[0] in ("f", "t", "g") and depth == 0:
                                res.add((u[0], base_of(u[1])))
                    elif t[0] in ("f", "t", "g") and depth == 0:
                        res.add((t[0], base_of(t[1])))
                elif t in ("{", "("):
                    depth += 1
                elif t in ("}", ")"):
                    depth -= 1
    return res


def dependencies(prog):
    """Pairs (i, j): item i must stay after item j (0-based).  An item that uses or declares a program-scope name stays
    behind the FIRST item that declares the name (a use never moves in front of every declaration; declarations of one
    name keep their order); an item that uses a name BEFORE its first declaration (implicit declaration) keeps that
    order too; pinned items keep their place."""
    items = prog["items"]
    decl = [declared(it) for it in items]
    used = [set((r, base_of(k)) for r, k in all_ids(it) if r in ("f", "t", "g")) for it in items]
    first = {}
    for i in range(len(items)):
        for nm in sorted(decl[i]):
            first.setdefault(nm, i)
    deps = set()
    for i in range(len(items)):
        for j in range(i):
            if items[i]["pin"] or items[j]["pin"]:
                deps.add((i, j))
            elif any(first.get(nm) == j for nm in used[i]):
                deps.add((i, j))
            elif decl[i] & decl[j]:
                deps.add((i, j))
            elif any(first.get(nm) == i for nm in used[j]):
                deps.add((i, j))      # j used the name before its first declaration in i
    return sorted(deps)


def orders(prog):
    """The item orders sigma_0 (as written), sigma_1, sigma_2: topological orders of the dependency relation.
    sigma_1 always takes the available item with the highest index, sigma_2 follows a fixed scrambled priority."""
    n = len(prog["items"])
    deps = dependencies(prog)
    need = {i: set(j for (a, j) in deps if a == i) for i in range(n)}

    def topo(prio):
        done, out = set(), []
        while len(out) < n:
            avail = [i for i in range(n) if i not in done and need[i] <= done]
            pick = min(avail, key=prio)
            out.append(pick)
            done.add(pick)
        return out
    return [list(range(n)), topo(lambda i: -i), topo(lambda i: ((i * 7 + 3) % 11, i))]


# ------------------------------------------------------------------ names
def scope_keys(prog, role, item_idx=None):
    """Sorted identifier keys of a role in its scope (function for l/p, program for t/f/g)."""
    keys = set()
    its = [prog["items"][item_idx]] if role in ("l", "p") else prog["items"]
    for it in its:
        for r, k in all_ids(it):
            if r == role:
                keys.add(k)
    return sorted(keys)


def scope_names(prog, role, item_idx=None):
    """Sorted base spellings of a role in its scope."""
    return sorted(set(base_of(k) for k in scope_keys(prog, role, item_idx)))


def name_table(prog, R):
    """{(scope, role, key): concrete} with scope = item index for l/p and -1 for t/f/g.
    scheme 0: as written.  scheme 1: rotation inside the scope's set of spellings of that role (spellings that another
    role uses too, and `main`, stay).  scheme 2: a fresh spelling zz<role><letter><rank> per IDENTIFIER (two variables
    that were spelled alike, one shadowing the other, get different spellings) in reverse lexicographic order."""
    table = {}
    n = len(prog["items"])
    keys_l = [scope_keys(prog, "l", j) for j in range(n)]
    keys_p = [scope_keys(prog, "p", j) for j in range(n)]
    prog_keys = {r: scope_keys(prog, r) for r in ("t", "f", "g")}
    bases = lambda ks: sorted(set(base_of(k) for k in ks))
    all_local = set()
    for j in range(n):
        all_local.update(bases(keys_l[j]))
        all_local.update(bases(keys_p[j]))
    for idx in range(n):
        loc = {"l": keys_l[idx], "p": keys_p[idx]}
        for role in ("l", "p", "t", "f", "g"):
            if role in ("t", "f", "g") and idx > 0:
                continue
            scope = idx if role in ("l", "p") else -1
            keys = loc[role] if role in ("l", "p") else prog_keys[role]
            names = bases(keys)
            others = set()
            for r2 in ("l", "p", "t", "f", "g"):
                if r2 != role:
                    others.update(bases(loc[r2]) if r2 in ("l", "p") else bases(prog_keys[r2]))
            if role in ("t", "f", "g"):
                others.update(all_local)      # a program-scope spelling that some function uses for a local / parameter
            scheme = R["names"].get(role, 0) if role != "g" else 0
            free = [b for b in names if b not in others and b != "main"]
            for k in keys:
                b = base_of(k)
                if scheme == 0 or b == "main":
                    c = b
                elif scheme == 1:
                    c = free[(free.index(b) + 1) % len(free)] if b in free else b
                else:
                    rank = keys.index(k)
                    c = "zz%s%s%d" % (role, "zyxwvutsrqponmlkjihgfedcba"[rank % 26], rank)
                table[(scope, role, k)] = c
    return table


def concrete(table, idx, tok):
    role, key = tok[0], tok[1]
    return table[(idx if role in ("l", "p") else -1, role, key)]


# ------------------------------------------------------------------ renderer
BRACK_OPEN = ("(", "[")
NOSPACE_BEFORE = (";", ",", ")", "]", "[")
WORDLIKE = re.compile(r"[A-Za-z0-9_\"']")


def wordlike(s):
    return bool(WORDLIKE.match(s[0])) or bool(WORDLIKE.match(s[-1]))


def sep_needed(a, b):
    """Must a separator stay between the concrete tokens a and b?  Conservative: only brackets, `;` and `,` never
    need one; a word next to an operator needs none unless a number could swallow the operator."""
    simple = ("(", ")", "[", "]", "{", "}", ";", ",")
    if a in simple or b in simple:
        return False
    wa, wb = bool(WORDLIKE.match(a[-1])), bool(WORDLIKE.match(b[0]))
    if wa and wb:
        return True
    if wa != wb:
        num = a if wa else b
        if num[0].isdigit() or num[0] == ".":
            return True          # 1e+5, 1.e, 0x1e+1 ...
        if (a[-1] in "\"'") or (b[0] in "\"'"):
            return False
        return False
    return True                   # operator next to operator: + +, - -, / *, < :, & & ...


def sep_ws(style, a, b, pos):
    if style == 0:
        if b in NOSPACE_BEFORE or a in BRACK_OPEN:
            return " " if sep_needed(a, b) else ""
        if b == "(" and WORDLIKE.match(a[-1]) and a not in KEYWORDS:
            return ""
        return " "
    if style == 1:
        return " " if sep_needed(a, b) else ""
    return "\t" if pos % 2 == 0 else "  "


INDENT_UNITS = ["    ", "\t", "", "  "]
SPLIT_AFTER = (",", "(", "+", "-", "*", "=", "==", "&&", "||", "<", ">")


def fill_positions(prog):
    """Eligible insertion points in abstract program order: (item, line) with a statement boundary in front."""
    res = []
    for i, it in enumerate(prog["items"]):
        for li, ln in enumerate(it["lines"]):
            if ln["sb"] and not (ln["pp"] and li > 0):
                res.append((i, li))
    return res


def fill_plan(prog, R):
    """{(item, line): [filler line texts]} - op j inserts n lines in front of every eligible position whose ordinal is
    congruent to j modulo M (M = 5, or 11 for n >= 100 so that files stay small)."""
    plan = {}
    pos = fill_positions(prog)
    for j, (kind, n) in enumerate(R["fill"]):
        m = 11 if n >= 100 else 5
        for o, p in enumerate(pos):
            if o % m != (2 * j + 1) % m:
                continue
            if kind == "b":
                fl = [""] * n
            elif n >= 3 and j % 2 == 0:
                # a block comment of n lines (with an empty line inside when it has room for one)
                fl = ["/* filler %d" % j] + ["" if (k == 0 and n >= 3) else " * text %d" % k for k in range(n - 2)] + [" */"]
            else:
                fl = ["// filler %d.%d" % (j, k) for k in range(n)]
            plan.setdefault(p, [])
            plan[p] = plan[p] + fl
    return plan


def render(prog, R):
    """-> (text, maps) with maps = {"line": {lineno: (item, line)}, "col": {lineno: [(c0, c1, tok, in_group)]},
    "names": {scope: {concrete: base}}, "entity": set of entity items}"""
    table = name_table(prog, R)
    order = orders(prog)[R["order"]]
    plan = fill_plan(prog, R)
    out = []
    linemap, colmap = {}, {}
    unit = INDENT_UNITS[R["ind"]]
    ws = R["ws"]
    for idx in order:
        it = prog["items"][idx]
        use_alt = item_lines(it, R) is not it["lines"]
        for li, ln in enumerate(item_lines(it, R)):
            if not use_alt:
                for fl in plan.get((idx, li), []):
                    out.append(fl)
            ft = flat_toks(ln["toks"], R)
            conc = [(t if isinstance(t, str) else concrete(table, idx, t)) for (t, _a, _g) in ft]
            if ln["pp"]:
                out.append(" ".join(conc))
                linemap[len(out)] = (idx, li)
                colmap[len(out)] = [(1, len(out[-1]) + 1, 0, False)]
                continue
            # physical lines: style 2 breaks long lines once after an operator near the middle
            brk = None
            if ws == 2 and len(conc) >= 6:
                mid = len(conc) // 2
                for k in list(range(mid, len(conc) - 2)) + list(range(mid - 1, 1, -1)):
                    if conc[k] in SPLIT_AFTER and conc[k + 1] not in (")", ";") and not conc[k + 1].startswith(("\"", "'")):
                        brk = k
                        break
            cur = unit * ln["ind"]
            cols = []
            for k, c in enumerate(conc):
                if k > 0:
                    if brk is not None and k == brk + 1:
                        out.append(cur + (" \t" if ws == 2 else ""))
                        linemap[len(out)] = (idx, li)
                        colmap[len(out)] = cols
                        cols = []
                        cur = unit * (ln["ind"] + 2)
                    else:
                        cur += sep_ws(ws, conc[k - 1], c, k)
                cols.append((len(cur) + 1, len(cur) + 1 + len(c), ft[k][1], ft[k][2]))
                cur += c
            out.append(cur + ("  " if ws == 2 else ""))
            linemap[len(out)] = (idx, li)
            colmap[len(out)] = cols
    names = {}
    for (scope, role, k), c in table.items():
        b = base_of(k)
        names.setdefault(scope, {})
        if c in names[scope] and names[scope][c] != b:
            raise AssertionError("rename collision %s in %s" % (c, prog["name"]))
        names[scope][c] = b
    return "\n".join(out) + "\n", {"line": linemap, "col": colmap, "names": names, "table": table, "groups": group_spellings(prog)}


def validate(prog, repo):
    """Generator / importer guarantees the rewrites rely on (raises AssertionError)."""
    fixed = fixed_words(prog)
    msgw = message_words(repo)
    n = len(prog["items"])
    for idx in range(n):
        for role in ROLES_RENAMED:
            for b in scope_names(prog, role, idx if role in ("l", "p") else None):
                assert b not in KEYWORDS, (prog["name"], b)
                assert b not in fixed, (prog["name"], "fixed word also renamable", b)
                assert not b.startswith("zz"), b
                assert b not in msgw or b == "main", (prog["name"], "message word", b)
    R0 = init_rendering()
    for role in ROLES_RENAMED:
        for s in (1, 2):
            R = dict(R0, names=dict(R0["names"], **{role: s}))
            render(prog, R)


# ------------------------------------------------------------------ rendering record and rewrites
XKINDS = ("typedef", "using", "macro", "template")


def init_rendering():
    return {"ws": 0, "ind": 0, "fill": [], "names": {"l": 0, "p": 0, "t": 0, "f": 0}, "order": 0,
            "x": {k: 0 for k in XKINDS}}


RENAME_ROLE = {"RenameLocals": "l", "RenameParams": "p", "RenameTypes": "t", "RenameFunctions": "f"}
EXPAND_KIND = {"InlineTypedef": "typedef", "InlineUsing": "using", "ExpandMacro": "macro", "HandInstantiate": "template"}


def apply_rewrite(R, letter):
    """The rewrite `Kind` or `Kind:param` as a function on the rendering record (mirrors Apply in Rewrite.tla)."""
    kind, _, par = letter.partition(":")
    R = {"ws": R["ws"], "ind": R["ind"], "fill": [list(f) for f in R["fill"]], "names": dict(R["names"]),
         "order": R["order"], "x": dict(R["x"])}
    if kind == "Whitespace":
        R["ws"] = (R["ws"] + 1) % 3
    elif kind == "Indent":
        R["ind"] = (R["ind"] + 1) % 4
    elif kind == "BlankLines":
        R["fill"].append(["b", int(par)])
    elif kind == "CommentLines":
        R["fill"].append(["c", int(par)])
    elif kind in RENAME_ROLE:
        R["names"][RENAME_ROLE[kind]] = int(par)
    elif kind == "ReorderTopLevel":
        R["order"] = int(par)
    elif kind in EXPAND_KIND:
        R["x"][EXPAND_KIND[kind]] = 1 - R["x"][EXPAND_KIND[kind]]
    else:
        raise ValueError(letter)
    return R


# ------------------------------------------------------------------ projection
TEMPLATE = "F|{file}|{line}|{column}|{severity}|{inconclusive:inconclusive}|{id}|{message}"
TEMPLATE_LOC = "L|{file}|{line}|{column}|{info}"
_WORD = re.compile(r"[A-Za-z_][A-Za-z0-9_]*")
_LINEREF = re.compile(r"\b(line|lines) (\d+)")


def project_pos(maps, line, col):
    """(line, column) of the rendering -> abstract position "item.line.token" (token = abstract token index; `g` marks a
    position inside a C06 use-site group, `+k` an offset inside a token, `~` a position between tokens)."""
    if line <= 0:
        return -1, "-.-.-", False
    if line not in maps["line"]:
        return -2, "filler.%d" % line, False       # a finding on an inserted line: reported as is
    item, li = maps["line"][line]
    for c0, c1, ti, ing in maps["col"][line]:
        if c0 <= col < c1:
            s = "%d.%d.%d" % (item, li, ti)
            if ing:
                s += "g"
            elif col != c0:
                s += "+%d" % (col - c0)
            return item, s, ing
    return item, "%d.%d.~%d" % (item, li, sum(1 for c in maps["col"][line] if c[0] < col)), False


def _norm_type(seq):
    """cppcheck prints a type the way its token list holds it: no `signed` / `unsigned`, `long long` as `long`."""
    out = [t for t in seq if t not in ("signed", "unsigned")]
    out = [t for k, t in enumerate(out) if not (t == "long" and k > 0 and out[k - 1] == "long")]
    return tuple(out) if out else ("int",)


def group_spellings(prog):
    """C06: [(spelling, canonical)] - every way a use site may be spelled inside a message (its sugar form, its expanded
    form, the expanded form as cppcheck prints types) with ONE canonical spelling; longest spelling first."""
    res = {}

    def sp(toks):
        return tuple(x for u in toks for x in _MTOK.findall(u if isinstance(u, str) else base_of(u[1])))

    def walk(toks):
        for t in toks:
            if isinstance(t, list) and t[0] == "X":
                sugar, exp = sp(t[2]), sp(t[3])
                canon = ("<" + "_".join(exp) + ">",)
                for v in (sugar, exp, _norm_type(exp)):
                    res.setdefault(v, canon)
    for it in prog["items"]:
        for ls in [it["lines"]] + list(it["alt"].values()):
            for ln in ls:
                walk(ln["toks"])
    return sorted(res.items(), key=lambda p: (-len(p[0]), p[0]))


_MTOK = re.compile(r"[A-Za-z_][A-Za-z0-9_]*|\d+|\S")


def project_text(maps, item, text):
    """A message as a token sequence: names -> spelling as written (through the rename map of the location's scope),
    `line N` -> abstract line, a use site (C06) in whatever form -> its canonical spelling."""
    loc = maps["names"].get(item, {})
    glob = maps["names"].get(-1, {})

    def lineref(m):
        n = int(m.group(2))
        if n in maps["line"]:
            return "%s @%d.%d" % (m.group(1), maps["line"][n][0], maps["line"][n][1])
        return m.group()
    toks = [loc.get(w, glob.get(w, w)) for w in _MTOK.findall(_LINEREF.sub(lineref, text))]
    for sugar, exp in maps.get("groups", []):
        n = len(sugar)
        k = 0
        out = []
        while k < len(toks):
            if tuple(toks[k:k + n]) == sugar:
                out += exp
                k += n
            else:
                out.append(toks[k])
                k += 1
        toks = out
    return " ".join(toks)


def parse_output(stderr_text):
    """cppcheck's template output -> [{"file","line","col","sev","inc","id","msg","locs":[(file,line,col,info)]}]"""
    res = []
    for ln in stderr_text.splitlines():
        if ln.startswith("F|"):
            p = ln.split("|", 7)
            if len(p) < 8:
                continue
            res.append({"file": p[1], "line": int(p[2]), "col": int(p[3]), "sev": p[4], "inc": p[5], "id": p[6], "msg": p[7],
                        "locs": []})
        elif ln.startswith("L|") and res:
            p = ln.split("|", 4)
            if len(p) == 5:
                res[-1]["locs"].append((p[1], int(p[2]), int(p[3]), p[4]))
    return res


def project_findings(prog, maps, findings):
    """-> list of {"id", "key", "mk", "indef"}: key = projected identity, mk = identity without locations,
    indef = the primary location lies in an item that defines an expanded entity or inside a use-site group of it."""
    res = []
    for f in findings:
        item, pos, ing = project_pos(maps, f["line"], f["col"])
        msg = project_text(maps, item, f["msg"])
        locs = []
        for (_file, l, c, info) in f["locs"]:
            it2, p2, _g = project_pos(maps, l, c)
            locs.append(p2 + ":" + project_text(maps, it2, info))
        indef = item >= 0 and bool(prog["items"][item]["entity"])
        mk = "%s|%s|%s|%s" % (f["id"], f["sev"], f["inc"], msg)
        res.append({"id": f["id"], "key": mk + "|@" + pos + "|" + "|".join(locs), "mk": mk, "pk": mk + "|@" + pos, "indef": indef,
                    "ingroup": ing, "sev": f["sev"]})
    res.sort(key=lambda r: r["key"])
    return res
