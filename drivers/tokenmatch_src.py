"""C33 helpers (format conversion only): extraction of the pattern literals from lib/*.cpp with matchcompiler's own
call parser, the token universe, rendering of the C++ pattern tables, splitting of source files into pieces.
Nothing here decides anything: which result is right is computed by TLC from spec/TokenMatch*.tla."""
import glob
import importlib.util
import os
import re

KINDS = ("Match", "simpleMatch", "findmatch", "findsimplematch")
KIND_ENUM = {"Match": "TM_MATCH", "simpleMatch": "TM_SIMPLEMATCH", "findmatch": "TM_FINDMATCH", "findsimplematch": "TM_FINDSIMPLEMATCH"}


def load_matchcompiler(repo):
    """The working tree's tools/matchcompiler.py as a module (its parsing helpers are reused)."""
    path = os.path.join(repo, "tools", "matchcompiler.py")
    spec = importlib.util.spec_from_file_location("matchcompiler_wt", path)
    mod = importlib.util.module_from_spec(spec)
    spec.loader.exec_module(mod)
    return mod


def c_unescape(raw):
    """Value of a C string literal body; None if it uses an escape this helper does not know."""
    out = []
    i = 0
    simple = {'"': '"', "\\": "\\", "'": "'", "n": "\n", "t": "\t", "?": "?"}
    while i < len(raw):
        ch = raw[i]
        if ch == "\\":
            if i + 1 >= len(raw) or raw[i + 1] not in simple:
                return None
            out.append(simple[raw[i + 1]])
            i += 2
        else:
            out.append(ch)
            i += 1
    return "".join(out)


def c_escape(s):
    return s.replace("\\", "\\\\").replace('"', '\\"')


def extract_patterns(repo):
    """All (kind, raw literal text, value, has_varid_arg) used with Token::Match / simpleMatch / findmatch / findsimplematch
    in lib/*.cpp, found the way matchcompiler finds them (one line, string literal argument)."""
    mc = load_matchcompiler(repo)
    lit = re.compile(r'\s*"((?:.|\\")*?)"\s*$')
    found = {}
    stats = {"calls": 0, "nonliteral": 0, "unparsed": 0, "skipped_escape": 0, "files": 0}
    for path in sorted(glob.glob(os.path.join(repo, "lib", "*.cpp"))):
        stats["files"] += 1
        with open(path, encoding="utf-8") as f:
            for line in f:
                if line.strip().startswith("//"):
                    continue
                for kind in KINDS:
                    start = 0
                    while True:
                        pos = line.find("Token::" + kind + "(", start)
                        if pos < 0:
                            break
                        res = mc.MatchCompiler.parseMatch(line, pos)
                        if res is None:
                            stats["unparsed"] += 1   # call continues on the next line: matchcompiler leaves it to the interpreter
                            break
                        start = pos + len(res[0])
                        stats["calls"] += 1
                        m = lit.match(res[2])
                        if not m:
                            stats["nonliteral"] += 1
                            continue
                        raw = m.group(1)
                        val = c_unescape(raw)
                        if val is None or '"' in raw.replace('\\"', ""):
                            stats["skipped_escape"] += 1
                            continue
                        if kind in ("Match", "findmatch"):
                            hv = "%varid%" in val
                        else:
                            hv = False
                        key = (kind, raw, hv)
                        found[key] = found.get(key, 0) + 1
    pats = [{"kind": k[0], "raw": k[1], "val": c_unescape(k[1]), "hv": k[2], "uses": n} for k, n in sorted(found.items())]
    return pats, stats


# ---------------------------------------------------------------- token universe
CORE_NAMES = ["x", "foo", "int", "unsigned", "char", "void", "const", "if", "else", "return", "struct", "class", "auto",
              "sizeof", "delete", "new", "operator", "this", "nullptr", "NULL", "std", "true", "false", "restrict", "case",
              "static", "volatile", "while", "for", "bool", "size_t", "asm", "throw", "template", "typename", "enum", "union"]
CORE_VARS = [("a", 1), ("b", 2), ("c", 3), ("x", 1), ("foo", 2)]
CORE_LITERALS = ["0", "1", "42", "1.5", "0x10", "1_km", "10UL", '"abc"', '""', 'L"w"', "'a'", "L'b'", "'\\0'"]
CORE_OPS = ["+", "-", "*", "/", "%", "<<", ">>", "=", "+=", "-=", "*=", "/=", "%=", "&=", "|=", "^=", "<<=", ">>=", "&", "|",
            "^", "~", "&&", "||", "!", "==", "!=", "<", ">", "<=", ">=", "<=>", "++", "--", ",", "?", ":", "(", ")", "[", "]",
            "{", "}", ";", ".", "::", "->", "...", "#", "##", ".*", "->*", "@"]


def universe(pattern_values):
    """[(str, varId, linked)]: the core first (its size is returned), then every word used by the patterns."""
    core = [(s, 0, 0) for s in CORE_NAMES] + [(s, v, 0) for s, v in CORE_VARS] + [(s, 0, 0) for s in CORE_LITERALS] \
        + [(s, 0, 0) for s in CORE_OPS] + [("<", 0, 1), (">", 0, 1)]
    seen = set(core)
    extra = []
    for val in pattern_values:
        for word in val.split(" "):
            if not word:
                continue
            cands = []
            if word.startswith("[") and word.endswith("]") and len(word) > 2:
                cands += list(word[1:-1])
            w = word[2:] if word.startswith("!!") and len(word) > 2 else word
            cands.append(w)
            cands += [p for p in w.split("|") if p]
            for c in cands:
                if re.fullmatch(r"%[a-z]+%", c):
                    continue
                t = (c, 0, 0)
                if t not in seen:
                    seen.add(t)
                    extra.append(t)
    return core + sorted(extra), len(core)


def write_universe(path, univ):
    with open(path, "w") as f:
        for i, (s, v, l) in enumerate(univ, 1):
            f.write("%d %d %d %s\n" % (i, v, l, s.encode("utf-8").hex() or "-"))


FLAG_NAMES = ["isName", "isNumber", "isBoolean", "isOp", "isConstOp", "isAssignmentOp", "isComparisonOp", "isKeyword",
              "isStandardType", "linked"]


def read_tokens(path):
    """Harness token table -> list of records (JSON objects for TLC), in id order (ids are dense from 1)."""
    rows = []
    with open(path) as f:
        for line in f:
            parts = line.split()
            if len(parts) != 5:
                continue
            tid, var_id, typ, flags, hx = parts
            s = "" if hx == "-" else bytes.fromhex(hx).decode("utf-8", "replace")
            row = {"id": int(tid), "s": s, "varId": int(var_id), "type": typ}
            for name, bit in zip(FLAG_NAMES, flags):
                row[name] = bit == "1"
            rows.append(row)
    for i, r in enumerate(rows, 1):
        if r["id"] != i:
            raise ValueError("token ids not dense at %d" % i)
    return rows


# ---------------------------------------------------------------- C++ rendering
def render_pattern_table(pats, tab="tm_pat"):
    """tokenmatch_pats.cpp: the pattern strings as data (NOT processed by matchcompiler)."""
    out = ['// generated by checks/C33.py: pattern strings as data', '#include "tokenmatch_api.h"', 'extern const char * const %s[];' % tab,
           'const char * const %s[] = {' % tab]
    for p in pats:
        out.append('    "%s",' % p["raw"])
    out.append('    ""')
    out.append('};')
    return "\n".join(out) + "\n"


def render_shard(shard_no, pats, index_of, tab="tm_pat"):
    """tokenmatch_gen_<n>.cpp: per pattern the call with the string literal (what matchcompiler rewrites) and the same call with
    a non-literal pattern (which it must leave to the interpreter in lib/token.cpp). One call per line: matchcompiler works on lines."""
    o = ['// generated by checks/C33.py; processed by tools/matchcompiler.py of the tree under test',
         '#include "token.h"', '#include "tokenmatch_api.h"', '#include <cstring>', 'extern const char * const tm_pat[];', '']
    rows = []
    for p in pats:
        k = index_of[id(p)]
        raw = p["raw"]
        nelem = max(1, len([w for w in p["val"].split(" ") if w]))
        kind = p["kind"]
        if kind == "Match":
            if p["hv"]:
                o.append('static bool c_%d(const Token *tok, int varid) { return Token::Match(tok, "%s", varid); }' % (k, raw))
                o.append('static bool i_%d(const Token *tok, int varid) { return Token::Match(tok, tm_pat[%d], varid); }' % (k, k))
            else:
                o.append('static bool c_%d(const Token *tok, int varid) { (void)varid; return Token::Match(tok, "%s"); }' % (k, raw))
                o.append('static bool i_%d(const Token *tok, int varid) { (void)varid; return Token::Match(tok, tm_pat[%d]); }' % (k, k))
            rows.append('    {%d, TM_MATCH, %d, tm_pat[%d], c_%d, i_%d, nullptr, nullptr, nullptr, nullptr},' % (p["pid"], nelem, k, k, k))
        elif kind == "simpleMatch":
            o.append('static bool c_%d(const Token *tok, int varid) { (void)varid; return Token::simpleMatch(tok, "%s"); }' % (k, raw))
            o.append('static bool i_%d(const Token *tok, int varid) { (void)varid; return Token::simpleMatch(tok, tm_pat[%d], std::strlen(tm_pat[%d])); }' % (k, k, k))
            rows.append('    {%d, TM_SIMPLEMATCH, %d, tm_pat[%d], c_%d, i_%d, nullptr, nullptr, nullptr, nullptr},' % (p["pid"], nelem, k, k, k))
        elif kind == "findmatch":
            if p["hv"]:
                o.append('static const Token *cf_%d(const Token *tok, const Token *end, int varid) { (void)end; return Token::findmatch(tok, "%s", varid); }' % (k, raw))
                o.append('static const Token *if_%d(const Token *tok, const Token *end, int varid) { (void)end; return Token::findmatch(tok, tm_pat[%d], varid); }' % (k, k))
                o.append('static const Token *ce_%d(const Token *tok, const Token *end, int varid) { return Token::findmatch(tok, "%s", end, varid); }' % (k, raw))
                o.append('static const Token *ie_%d(const Token *tok, const Token *end, int varid) { return Token::findmatch(tok, tm_pat[%d], end, varid); }' % (k, k))
            else:
                o.append('static const Token *cf_%d(const Token *tok, const Token *end, int varid) { (void)end; (void)varid; return Token::findmatch(tok, "%s"); }' % (k, raw))
                o.append('static const Token *if_%d(const Token *tok, const Token *end, int varid) { (void)end; (void)varid; return Token::findmatch(tok, tm_pat[%d]); }' % (k, k))
                o.append('static const Token *ce_%d(const Token *tok, const Token *end, int varid) { (void)varid; return Token::findmatch(tok, "%s", end); }' % (k, raw))
                o.append('static const Token *ie_%d(const Token *tok, const Token *end, int varid) { (void)varid; return Token::findmatch(tok, tm_pat[%d], end); }' % (k, k))
            rows.append('    {%d, TM_FINDMATCH, %d, tm_pat[%d], nullptr, nullptr, cf_%d, if_%d, ce_%d, ie_%d},' % (p["pid"], nelem, k, k, k, k, k))
        else:
            o.append('static const Token *cf_%d(const Token *tok, const Token *end, int varid) { (void)end; (void)varid; return Token::findsimplematch(tok, "%s"); }' % (k, raw))
            o.append('static const Token *if_%d(const Token *tok, const Token *end, int varid) { (void)end; (void)varid; return Token::findsimplematch(tok, tm_pat[%d], std::strlen(tm_pat[%d])); }' % (k, k, k))
            o.append('static const Token *ce_%d(const Token *tok, const Token *end, int varid) { (void)varid; return Token::findsimplematch(tok, "%s", end); }' % (k, raw))
            o.append('static const Token *ie_%d(const Token *tok, const Token *end, int varid) { (void)varid; return Token::findsimplematch(tok, tm_pat[%d], std::strlen(tm_pat[%d]), end); }' % (k, k, k))
            rows.append('    {%d, TM_FINDSIMPLEMATCH, %d, tm_pat[%d], nullptr, nullptr, cf_%d, if_%d, ce_%d, ie_%d},' % (p["pid"], nelem, k, k, k, k, k))
    o.append('')
    o.append('extern const TmPattern tm_shard_%s[];' % shard_no)
    o.append('extern const int tm_shard_%s_n;' % shard_no)
    o.append('const TmPattern tm_shard_%s[] = {' % shard_no)
    o += rows
    o.append('    {-1, 0, 0, nullptr, nullptr, nullptr, nullptr, nullptr, nullptr, nullptr}')
    o.append('};')
    o.append('const int tm_shard_%s_n = %d;' % (shard_no, len(rows)))
    if tab != "tm_pat":
        # only the references to the table are renamed, never the text of a pattern literal
        o = [re.sub(r"\btm_pat\[", tab + "[", line) if not line.lstrip().startswith(("static bool c_", "static const Token *cf_", "static const Token *ce_"))
             else line for line in o]
        o = [line.replace("extern const char * const tm_pat[];", "extern const char * const %s[];" % tab) for line in o]
    return "\n".join(o) + "\n"


def render_index_named(shard_names):
    o = ['// generated by checks/C33.py', '#include "tokenmatch_api.h"']
    for s in shard_names:
        o.append('extern const TmPattern tm_shard_%s[];' % s)
        o.append('extern const int tm_shard_%s_n;' % s)
    o.append('const TmShard tm_shards[] = {')
    for s in shard_names:
        o.append('    {tm_shard_%s, tm_shard_%s_n},' % (s, s))
    o.append('};')
    o.append('const int tm_nshards = %d;' % len(shard_names))
    return "\n".join(o) + "\n"


# ---------------------------------------------------------------- real code pieces
def strip_comments_and_directives(text):
    """Remove comments (keeping string / char literals) and preprocessor lines."""
    out = []
    i = 0
    n = len(text)
    while i < n:
        ch = text[i]
        if ch == '"' or ch == "'":
            j = i + 1
            while j < n and text[j] != ch:
                if text[j] == "\\":
                    j += 1
                if j < n and text[j] == "\n":
                    break
                j += 1
            out.append(text[i:j + 1])
            i = j + 1
        elif text.startswith("//", i):
            j = text.find("\n", i)
            i = n if j < 0 else j
        elif text.startswith("/*", i):
            j = text.find("*/", i + 2)
            i = n if j < 0 else j + 2
            out.append(" ")
        else:
            out.append(ch)
            i += 1
    lines = []
    cont = False
    for line in "".join(out).split("\n"):
        if cont or line.lstrip().startswith("#"):
            cont = line.rstrip().endswith("\\")
            continue
        lines.append(line)
    return "\n".join(lines)


def split_top_level(text):
    """Pieces that end where the brace depth returns to zero (function definitions, declarations)."""
    pieces = []
    depth = 0
    cur = []
    in_str = None
    i = 0
    n = len(text)
    while i < n:
        ch = text[i]
        cur.append(ch)
        if in_str:
            if ch == "\\" and i + 1 < n:
                cur.append(text[i + 1])
                i += 1
            elif ch == in_str or ch == "\n":
                in_str = None
        elif ch in "\"'":
            in_str = ch
        elif ch == "{":
            depth += 1
        elif ch == "}":
            depth = max(0, depth - 1)
            if depth == 0:
                # take a following ';' (struct / class definitions) with it
                j = i + 1
                while j < n and text[j] in " \t\r\n":
                    j += 1
                if j < n and text[j] == ";":
                    cur.append(text[i + 1:j + 1])
                    i = j
                pieces.append("".join(cur))
                cur = []
        elif ch == ";" and depth == 0:
            pieces.append("".join(cur))
            cur = []
        i += 1
    if "".join(cur).strip():
        pieces.append("".join(cur))
    return [p.strip() + "\n" for p in pieces if p.strip()]
