"""Seeded generator of MiniC programs (JSON ASTs in the format defined by spec/ProgGen.tla, operator WFProg).

A program is one entry function `f(params)` plus 0..2 helper functions, stored as a flat node table:
    prog = {"name", "plat", "profile", "funcs": [fn...], "nodes": [node...], "consts": [int...]}
    fn   = {"name", "ret": type, "np": number of parameters, "vars": [{"name","ty","n","pt"}...], "body": node id}
    node = {"k","op","a","b","c","d","v","ty","fn","ss"}     (ids are 1-based indexes into "nodes")
funcs[0] is the entry.  Variable i of a function (1-based) is vars[i-1]; the first np variables are parameters.
var.ty is an integer type name, "ptr" (pt = pointee type) or "arr" (pt = element type, n = length).

Node kinds (fields used)
  expressions: num(v,ty) var(v) un(op,a) bin(op,a,b) land(a,b) lor(a,b) cond(a,b,c) asg(op,a=lvalue,b) inc(op,v=1 prefix,a)
               deref(a) idx(a=var node of array,b) addr(a) cast(a,ty) callx(v=function index,ss=args)
  statements:  expr(a) block(ss) if(a,b,c) while(a,b) dowhile(a=cond,b=body) for(a=init,b=cond,c=step,d=body)
               switch(a,ss=case ids) case(op="case"|"default",v,ss) break continue ret(a) call(a=asg id or 0,b=callx id)

Guarantees the generator gives (the spec relies on none of them for soundness, they only keep executions useful):
  * every loop has a dedicated counter that bounds the trip count;
  * a variable modified by an operator nested inside a larger expression (x++ , x = e as operand) does not occur
    elsewhere in that full expression and its address is never taken (so evaluation order cannot matter);
  * negative literals are not right operands of + and - (cppcheck folds `a - (-3)` into `a + 3`, which would make
    the token-to-node mapping ambiguous).
"""
import random

import minic_types as T

CMP = ["<", "<=", ">", ">=", "==", "!="]
ARITH = ["+", "-", "*", "/", "%"]
BITOP = ["&", "|", "^"]
SHIFT = ["<<", ">>"]
ASGOPS = ["+=", "-=", "*=", "/=", "%=", "&=", "|=", "^=", "<<=", ">>="]


class Prog:
    def __init__(self, name, plat, profile):
        self.name = name
        self.plat = plat
        self.profile = profile
        self.nodes = []
        self.funcs = []
        self.consts = set()

    def node(self, k, fn, **kw):
        n = {"k": k, "op": "", "a": 0, "b": 0, "c": 0, "d": 0, "v": 0, "ty": "", "fn": fn, "ss": []}
        n.update(kw)
        self.nodes.append(n)
        return len(self.nodes)

    def N(self, i):
        return self.nodes[i - 1]

    def to_json(self):
        return {"name": self.name, "plat": self.plat, "profile": self.profile, "funcs": self.funcs, "nodes": self.nodes,
                "consts": sorted(self.consts)}


class FnCtx:
    """Generation context of one function."""

    def __init__(self, prog, fnidx, rng, ret):
        self.p = prog
        self.fn = fnidx
        self.rng = rng
        self.ret = ret
        self.vars = []
        self.np = 0
        self.init = set()        # variables definitely initialised here
        self.reserved = set()    # loop counters currently in use (not assigned by random statements)
        self.addr_taken = set()
        self.ptr_target = {}     # pointer var -> set of candidate target vars
        self.ptr_valid = set()   # pointers definitely pointing to an object
        self.loop_depth = 0
        self.loop_kinds = []
        self.in_switch = 0
        self.helpers = []        # callable helper function indexes (1-based) with signature info
        self.budget = 0

    # ---- variables
    def add_var(self, name, ty, n=0, pt="", param=False):
        self.vars.append({"name": name, "ty": ty, "n": n, "pt": pt})
        i = len(self.vars)
        if param:
            self.np += 1
            self.init.add(i)
        return i

    def vty(self, i):
        return self.vars[i - 1]["ty"]

    def scalars(self, initialised=True, writable=False):
        r = []
        for i, v in enumerate(self.vars, 1):
            if v["ty"] in ("ptr", "arr"):
                continue
            if initialised and i not in self.init:
                continue
            if writable and i in self.reserved:
                continue
            r.append(i)
        return r

    # ---- node helpers
    def mk(self, k, **kw):
        return self.p.node(k, self.fn, **kw)

    def num(self, v, suffix=""):
        plat = self.p.plat
        if v < 0:
            assert suffix == ""
            ty = T.literal_type(plat, -v, "")
            if ty != "int":
                v = -T.tmax(plat, "int")
                ty = "int"
        else:
            ty = T.literal_type(plat, v, suffix)
            if ty is None:
                v = T.tmax(plat, "int")
                ty = "int"
                suffix = ""
        self.p.consts.add(v)
        return self.mk("num", v=v, ty=ty, op=suffix)

    def var(self, i):
        return self.mk("var", v=i, ty=self.vty(i))

    def ty(self, e):
        return self.p.N(e)["ty"]

    def un(self, op, a):
        plat = self.p.plat
        ty = "int" if op == "!" else T.promote(plat, self.ty(a))
        return self.mk("un", op=op, a=a, ty=ty)

    def same(self, a, b):
        """Structural equality of two expression subtrees."""
        if a == b:
            return True
        if not a or not b:
            return False
        na, nb = self.p.N(a), self.p.N(b)
        if (na["k"], na["op"], na["v"], na["ty"]) != (nb["k"], nb["op"], nb["v"], nb["ty"]):
            return False
        return all(self.same(na[f], nb[f]) for f in ("a", "b", "c"))

    def mix_ok(self, t1, t2):
        """Operand types whose implicit conversion cppcheck models the way C defines it.

        cppcheck stores the value of an operand of a binary operator / assignment after converting it to
        max(size) bytes with the sign of the larger operand (the LEFT one if the sizes are equal) whenever the signs
        differ (lib/vf_settokenvalue.cpp truncateImplicitConversion).  That is the C conversion only if this type is
        the common type, or if it includes both operand types (then it changes nothing).  Other combinations
        (unsigned char + signed char, int + unsigned int, short + unsigned short, ...) give wrong values - a defect
        reported by the pinned programs of C01, kept out of the random population."""
        plat = self.p.plat
        if t1 not in T.RANK or t2 not in T.RANK or T.signed(plat, t1) == T.signed(plat, t2):
            return True
        n1, n2 = T.bits(plat, t1), T.bits(plat, t2)
        s = T.signed(plat, t2) if n1 < n2 else T.signed(plat, t1)
        b = max(n1, n2)
        ct = T.common(plat, t1, t2)
        if (T.bits(plat, ct), T.signed(plat, ct)) == (b, s):
            return True
        lo, hi = (-(1 << (b - 1)), (1 << (b - 1)) - 1) if s else (0, (1 << b) - 1)
        return lo <= min(T.tmin(plat, t1), T.tmin(plat, t2)) and max(T.tmax(plat, t1), T.tmax(plat, t2)) <= hi

    def fixmix(self, a, b):
        """Make operand b compatible with a (explicit cast to a's type) when the pair is not mix_ok."""
        ta, tb = self.ty(a), self.ty(b)
        if self.mix_ok(ta, tb):
            return b
        return self.cast(ta, b)

    def bin(self, op, a, b):
        plat = self.p.plat
        b = self.fixmix(a, b)
        ta, tb = self.ty(a), self.ty(b)
        if ta == "ptr" or tb == "ptr":
            assert op in ("==", "!=")
            ty = "int"
        elif op in CMP:
            ty = "int"
        elif op in SHIFT:
            ty = T.promote(plat, ta)
        else:
            ty = T.common(plat, ta, tb)
        return self.mk("bin", op=op, a=a, b=b, ty=ty)

    def cond(self, c, a, b):
        b = self.fixmix(a, b)
        return self.mk("cond", a=c, b=a, c=b, ty=T.common(self.p.plat, self.ty(a), self.ty(b)))

    def asg(self, op, lv, e):
        if op != "=":
            e = self.fixmix(lv, e)
        return self.mk("asg", op=op, a=lv, b=e, ty=self.ty(lv))

    def inc(self, op, prefix, lv):
        return self.mk("inc", op=op, v=1 if prefix else 0, a=lv, ty=self.ty(lv))

    def cast(self, ty, a):
        return self.mk("cast", a=a, ty=ty)

    def stmt_expr(self, e):
        return self.mk("expr", a=e)

    def block(self, ss):
        return self.mk("block", ss=list(ss))


# ------------------------------------------------------------------------------------------------ random pieces
class Gen:
    def __init__(self, seed, plat, profile):
        self.rng = random.Random(seed)
        self.plat = plat
        self.profile = profile

    # profile knobs
    def knob(self, name):
        P = self.profile
        table = {
            #            arith cond loop ptr  mix  c03
            "types":    {"arith": 0.7, "cond": 0.5, "loop": 0.2, "ptr": 0.2, "mix": 0.5, "c03": 0.6, "c04safe": 0.15, "c04bug": 0.15},
            "loops":    {"arith": 0.0, "cond": 0.15, "loop": 0.9, "ptr": 0.3, "mix": 0.5, "c03": 0.4, "c04safe": 0.3, "c04bug": 0.3},
            "ptrs":     {"arith": 0.0, "cond": 0.1, "loop": 0.1, "ptr": 1.0, "mix": 0.5, "c03": 0.3, "c04safe": 0.9, "c04bug": 0.9},
            "calls":    {"arith": 0.1, "cond": 0.1, "loop": 0.1, "ptr": 0.7, "mix": 0.4, "c03": 0.3, "c04safe": 0.5, "c04bug": 0.5},
            "conds":    {"arith": 0.3, "cond": 1.0, "loop": 0.5, "ptr": 0.4, "mix": 0.6, "c03": 1.0, "c04safe": 0.4, "c04bug": 0.4},
            "embedded": {"arith": 0.3, "cond": 0.2, "loop": 0.3, "ptr": 0.1, "mix": 0.3, "c03": 0.2, "c04safe": 0.1, "c04bug": 0.1},
        }
        return table[name].get(P, 0.3)

    def chance(self, p):
        return self.rng.random() < p

    def pick_type(self, wide=True):
        r = self.rng
        if not self.chance(self.knob("types")):
            return "int"
        # no plain char: cppcheck leaves its sign open on unix64 and converts to it as if it were unsigned even on a
        # platform file that declares it signed ((char)255 known 255) - reported defect, kept out of the population
        cands = ["schar", "uchar", "short", "ushort", "int", "uint"]
        if wide:
            cands += ["long", "ulong"]
        return r.choice(cands)

    def small_const(self, c):
        r = self.rng
        x = r.random()
        if x < 0.6:
            return r.choice([0, 1, 1, 2, 2, 3, 4, 5, 7, 8, 10])
        if x < 0.75:
            return -r.choice([1, 1, 2, 3, 5])
        if x < 0.9:
            return r.choice([15, 16, 31, 32, 63, 100, 127, 128, 200, 255, 256, 1000])
        plat = self.plat
        return r.choice([T.tmax(plat, "int"), T.tmax(plat, "int") - 1, T.tmax(plat, "short"), T.tmax(plat, "ushort"),
                         -T.tmax(plat, "int"), 300, 65535 if plat == "p32" else 30000])

    # ---- expressions -------------------------------------------------------------------------------------
    def const(self, c, nonneg=False):
        v = self.small_const(c)
        if nonneg and v < 0:
            v = -v
        suffix = ""
        if v >= 0 and self.chance(0.08 * self.knob("types") * 2):
            suffix = self.rng.choice(["u", "L"]) if v <= T.tmax(self.plat, "int") else "L"
        return c.num(v, suffix)

    def atom(self, c, nonneg_lit=False, exclude=()):
        r = self.rng
        sc = [i for i in c.scalars() if i not in exclude]
        x = r.random()
        if sc and x < 0.6:
            return c.var(r.choice(sc))
        if x < 0.7:
            e = self.arr_read(c, exclude)
            if e:
                return e
        if x < 0.78:
            e = self.ptr_read(c)
            if e:
                return e
        return self.const(c, nonneg=nonneg_lit)

    def arr_index(self, c, arr, exclude=()):
        """An index expression that is in range for every input (mostly)."""
        r = self.rng
        n = c.vars[arr - 1]["n"]
        x = r.random()
        cnt = [i for i in c.reserved if i in c.init and c.bound.get(i, 99) <= n and i not in exclude]
        if cnt and x < 0.5:
            return c.var(r.choice(cnt))
        if x < 0.8 or not c.scalars():
            return c.num(r.randrange(n))
        sc = [i for i in c.scalars() if i not in exclude]
        if not sc:
            return c.num(r.randrange(n))
        v = c.var(r.choice(sc))
        if n in (2, 4):
            return c.bin("&", v, c.num(n - 1))
        return c.num(r.randrange(n))

    def arr_read(self, c, exclude=()):
        arrs = [i for i, v in enumerate(c.vars, 1) if v["ty"] == "arr" and i in c.init]
        if not arrs:
            return 0
        a = self.rng.choice(arrs)
        return c.mk("idx", a=c.mk("var", v=a, ty="arr"), b=self.arr_index(c, a, exclude), ty=c.vars[a - 1]["pt"])

    def ptr_read(self, c):
        ps = [i for i in c.ptr_valid if all(t in c.init for t in c.ptr_target[i])]
        if not ps:
            return 0
        p = self.rng.choice(sorted(ps))
        return c.mk("deref", a=c.mk("var", v=p, ty="ptr"), ty=c.vars[p - 1]["pt"])

    def expr(self, c, depth, exclude=(), nonneg_lit=False):
        """A side-effect free integer expression without operators applied to two identical operands (x - x, b == b,
        !b || !b): cppcheck's duplicate-expression reasoning has defects of its own (pinned programs) and such code
        is not what the property is about."""
        for _ in range(6):
            e = self.expr0(c, depth, exclude, nonneg_lit)
            n = c.p.N(e)
            if n["k"] in ("bin", "land", "lor") and c.same(n["a"], n["b"]):
                continue
            if n["k"] == "cond" and c.same(n["b"], n["c"]):
                continue
            return e
        return self.atom(c, nonneg_lit, exclude)

    def expr0(self, c, depth, exclude=(), nonneg_lit=False):
        r = self.rng
        if depth <= 0 or self.chance(0.25):
            return self.atom(c, nonneg_lit, exclude)
        x = r.random()
        if x < 0.40:
            op = r.choice(["+", "+", "-", "-", "*", "/", "%"])
            a = self.nonlit(c, depth - 1, exclude)
            if op in ("/", "%"):
                b = self.const(c, nonneg=True) if self.chance(0.7) else self.expr(c, depth - 1, exclude, nonneg_lit=True)
            elif op == "*":
                b = c.num(r.choice([2, 3, 4, 10, 256])) if self.chance(0.7) else self.expr(c, depth - 1, exclude, nonneg_lit=True)
            else:
                b = self.expr(c, depth - 1, exclude, nonneg_lit=True)
            return c.bin(op, a, b)
        if x < 0.52:
            op = r.choice(BITOP)
            a = self.nonlit(c, depth - 1, exclude)
            b = c.num(r.choice([1, 3, 7, 15, 255, 256, 0x7f, 0x80])) if self.chance(0.6) else self.expr(c, depth - 1, exclude)
            return c.bin(op, a, b)
        if x < 0.60:
            op = r.choice(SHIFT)
            a = self.nonlit(c, depth - 1, exclude)
            b = c.num(r.choice([0, 1, 2, 3, 4, 7, 8, 15, 16, 31])) if self.chance(0.8) else self.expr(c, depth - 1, exclude)
            return c.bin(op, a, b)
        if x < 0.72:
            return self.cmp(c, depth - 1, exclude)
        if x < 0.78:
            e = self.nonlit(c, depth - 1, exclude)
            op = r.choice(["-", "~", "!"])
            ne = c.p.N(e)
            if op == "~" and (ne["k"] in ("land", "lor") or (ne["k"] == "bin" and ne["op"] in CMP) or (ne["k"] == "un" and ne["op"] == "!")
                              or T.RANK.get(ne["ty"], 9) < T.RANK["int"]):
                # cppcheck's impossible values for ~(a<b) and for ~ of an operand narrower than int ignore the promotion
                # to int (pinned programs); kept out of the random population
                op = "!"
            return c.un(op, e)
        if x < 0.86:
            return c.cond(self.condition(c, depth - 1, exclude), self.expr(c, depth - 1, exclude), self.expr(c, depth - 1, exclude))
        if x < 0.94:
            return c.cast(self.pick_type(wide=False) if self.chance(0.8) else r.choice(["uchar", "schar", "short", "ushort"]),
                          self.expr(c, depth - 1, exclude))
        e = self.condition(c, depth - 1, exclude)
        if c.ty(e) == "ptr":
            e = c.bin("!=", e, c.num(0))
        return e

    def nonlit(self, c, depth, exclude=()):
        e = self.expr(c, depth, exclude)
        if c.p.N(e)["k"] == "num":
            sc = [i for i in c.scalars() if i not in exclude]
            if sc:
                return c.var(self.rng.choice(sc))
            return c.bin("+", e, c.num(1))
        return e

    def cmp(self, c, depth, exclude=()):
        r = self.rng
        a = self.nonlit(c, depth, exclude)
        b = self.const(c)
        if not self.chance(0.7):
            for _ in range(6):
                b2 = self.expr(c, depth, exclude)
                if not c.same(a, b2):
                    b = b2
                    break
        return c.bin(r.choice(CMP), a, b)

    def condition(self, c, depth, exclude=()):
        r = self.rng
        x = r.random()
        if depth > 0 and x < 0.25:
            k = r.choice(["land", "lor"])
            a = self.condition(c, depth - 1, exclude)
            for _ in range(6):
                b = self.condition(c, depth - 1, exclude)
                if not c.same(a, b):
                    return c.mk(k, a=a, b=b, ty="int")
            return a
        if x < 0.33:
            return c.un("!", self.nonlit(c, max(depth - 1, 0), exclude))
        if x < 0.40:
            sc = [i for i in c.scalars() if i not in exclude]
            if sc:
                return c.var(r.choice(sc))
        if x < 0.45:
            ps = sorted(c.ptr_valid | set(p for p in c.ptr_target if p in c.init))
            if ps:
                p = c.mk("var", v=r.choice(ps), ty="ptr")
                return r.choice([lambda: p, lambda: c.un("!", p), lambda: c.bin("!=", p, c.num(0)), lambda: c.bin("==", p, c.num(0))])()
        return self.cmp(c, min(depth, 1), exclude)

    # ---- statements --------------------------------------------------------------------------------------
    def lvalue(self, c):
        """(lvalue node, kind, var index) for a random writable location."""
        r = self.rng
        x = r.random()
        arrs = [i for i, v in enumerate(c.vars, 1) if v["ty"] == "arr"]
        if arrs and x < 0.15:
            a = r.choice(arrs)
            return c.mk("idx", a=c.mk("var", v=a, ty="arr"), b=self.arr_index(c, a), ty=c.vars[a - 1]["pt"]), "idx", a
        ps = sorted(c.ptr_valid)
        if ps and x < 0.40:
            p = r.choice(ps)
            return c.mk("deref", a=c.mk("var", v=p, ty="ptr"), ty=c.vars[p - 1]["pt"]), "deref", p
        ws = [i for i in c.scalars(initialised=False, writable=True) if i > c.np or self.chance(0.3)]
        if not ws:
            ws = c.scalars(initialised=False, writable=True)
        i = r.choice(ws)
        return c.var(i), "var", i

    def st_assign(self, c):
        lv, kind, i = self.lvalue(c)
        e = self.expr(c, self.rng.choice([0, 1, 1, 2, 2, 3]))
        s = c.stmt_expr(c.asg("=", lv, e))
        if kind == "var":
            c.init.add(i)
        elif kind == "deref":
            # a write through p initialises the target only if p has a single candidate target
            if len(c.ptr_target[i]) == 1:
                c.init |= c.ptr_target[i]
        return s

    def st_compound(self, c):
        r = self.rng
        # (narrower variables: cppcheck's ranges ignore the conversion back to the narrow type - pinned program)
        ws = [i for i in c.scalars(writable=True) if T.RANK[c.vty(i)] >= T.RANK["int"]]
        if not ws:
            return self.st_assign(c)
        i = r.choice(ws)
        x = r.random()
        uns = not T.signed(self.plat, c.vty(i))
        if x < 0.35:
            return c.stmt_expr(c.inc("++" if uns else r.choice(["++", "--"]), self.chance(0.5), c.var(i)))
        op = r.choice([o for o in ASGOPS if not (uns and o == "-=")])
        if op in ("<<=", ">>="):
            e = c.num(r.choice([1, 2, 3, 4, 8]))
        elif op in ("/=", "%="):
            e = c.num(r.choice([1, 2, 3, 7, 10])) if self.chance(0.7) else self.expr(c, 1, nonneg_lit=True)
        elif op == "*=":
            e = c.num(r.choice([2, 3, 4]))
        else:
            e = self.expr(c, r.choice([0, 0, 1, 2]), nonneg_lit=True)
        return c.stmt_expr(c.asg(op, c.var(i), e))

    def st_embedded(self, c):
        """y = x++ ;  y = (x = e) + k ;  y = x-- * 2 ...  (x not address-taken, x not elsewhere in the expression)."""
        r = self.rng
        xs = [i for i in c.scalars(writable=True) if i not in c.addr_taken and T.RANK[c.vty(i)] >= T.RANK["int"]]
        ys = [i for i in c.scalars(initialised=False, writable=True)]
        if not xs or len(ys) < 2:
            return self.st_assign(c)
        x = r.choice(xs)
        y = r.choice([i for i in ys if i != x])
        k = r.random()
        uns = not T.signed(self.plat, c.vty(x))
        if k < 0.6:
            inner = c.inc("++" if uns else r.choice(["++", "--"]), self.chance(0.5), c.var(x))
        else:
            inner = c.asg(r.choice(["=", "+="] if uns else ["=", "+=", "-="]), c.var(x), self.expr(c, 1, exclude=(x, y), nonneg_lit=True))
        k = r.random()
        if k < 0.4:
            e = inner
        elif k < 0.8:
            e = c.bin(r.choice(["+", "-", "*"]), inner, self.expr(c, 1, exclude=(x, y), nonneg_lit=True))
        else:
            e = c.bin(r.choice(CMP), inner, self.const(c))
        s = c.stmt_expr(c.asg("=", c.var(y), e))
        c.init.add(y)
        return s

    def st_ptr_assign(self, c):
        r = self.rng
        ps = sorted(p for p in c.ptr_target if c.ptr_target[p])
        if not ps:
            return self.st_assign(c)
        p = r.choice(ps)
        tg = sorted(c.ptr_target[p])
        t = r.choice(tg)
        c.init.add(p)
        if self.chance(0.12):
            c.ptr_valid.discard(p)
            return c.stmt_expr(c.asg("=", c.mk("var", v=p, ty="ptr"), c.num(0)))
        if c.vars[t - 1]["ty"] == "arr":
            n = c.vars[t - 1]["n"]
            tgt = c.mk("idx", a=c.mk("var", v=t, ty="arr"), b=c.num(r.randrange(n)), ty=c.vars[t - 1]["pt"])
        else:
            tgt = c.var(t)
        c.ptr_valid.add(p)
        c.cur_target[p] = {t}
        return c.stmt_expr(c.asg("=", c.mk("var", v=p, ty="ptr"), c.mk("addr", a=tgt, ty="ptr")))

    def body(self, c, n, depth):
        ss = []
        for _ in range(n):
            if c.budget <= 0:
                break
            s = self.statement(c, depth)
            if s:
                ss.append(s)
        return ss

    def branch(self, c, depth):
        """A block generated in a copy of the flow facts; returns (block id, init set after, ptr_valid after)."""
        save = (set(c.init), set(c.ptr_valid))
        ss = self.body(c, self.rng.choice([1, 1, 2, 2, 3]), depth - 1)
        after = (set(c.init), set(c.ptr_valid))
        c.init, c.ptr_valid = save
        return c.block(ss), after

    def st_if(self, c, depth):
        cnd = self.condition(c, 1)
        b1, a1 = self.branch(c, depth)
        b2 = 0
        if self.chance(0.45):
            b2, a2 = self.branch(c, depth)
            c.init = a1[0] & a2[0]
            c.ptr_valid = a1[1] & a2[1]
        else:
            c.ptr_valid = c.ptr_valid & a1[1]
        return c.mk("if", a=cnd, b=b1, c=b2)

    def new_counter(self, c):
        free = [i for i in c.counters if i not in c.reserved]
        if not free:
            return 0
        return free[0]

    def trip_bound(self, c, i):
        """(condition expression, static bound) limiting counter i."""
        r = self.rng
        k = r.choice([1, 2, 2, 3, 3, 4, 5])
        x = r.random()
        if x < 0.6:
            return c.bin("<", c.var(i), c.num(k)), k
        if x < 0.7:
            return c.bin("!=", c.var(i), c.num(k)), k
        if x < 0.8:
            return c.bin("<=", c.var(i), c.num(k - 1)), k
        sc = [j for j in c.scalars() if j != i and j not in c.reserved]
        if sc:
            m = r.choice([1, 3, 3, 7])
            return c.bin("<", c.var(i), c.bin("&", c.var(r.choice(sc)), c.num(m))), m
        return c.bin("<", c.var(i), c.num(k)), k

    def st_loop(self, c, depth):
        r = self.rng
        i = self.new_counter(c)
        if not i or c.loop_depth >= 2:
            return self.st_assign(c)
        kind = r.choice(["while", "for", "for", "dowhile", "down"])
        pre = []
        save_init, save_pv = set(c.init), set(c.ptr_valid)
        c.reserved.add(i)
        c.init.add(i)
        c.loop_depth += 1
        c.loop_kinds.append("other")
        if kind == "down":
            # i = k; while (i-- > 0) body    or   while (i > 0) { body; i--; }
            k = r.choice([1, 2, 3, 4])
            c.bound[i] = k + 1
            pre.append(c.stmt_expr(c.asg("=", c.var(i), c.num(k))))
            if self.chance(0.5) and i not in c.addr_taken:
                cnd = c.bin(">", c.inc("--", False, c.var(i)), c.num(0))
                c.bound[i] = 99   # i is k-1..-1 inside
                c.loop_kinds[-1] = "cont-ok"
                ss = self.body(c, r.choice([1, 2, 3]), depth - 1)
            else:
                cnd = c.bin(">", c.var(i), c.num(0))
                ss = self.body(c, r.choice([1, 2, 3]), depth - 1)
                ss.append(c.stmt_expr(c.inc("--", self.chance(0.5), c.var(i))))
            loop = c.mk("while", a=cnd, b=c.block(ss))
        else:
            cnd, k = self.trip_bound(c, i)
            c.bound[i] = k
            if self.chance(0.25):
                cnd = c.mk("land", a=cnd, b=self.cmp(c, 0), ty="int")
            initv = c.num(0)
            step = c.inc("++", self.chance(0.5), c.var(i)) if self.chance(0.8) else c.asg("+=", c.var(i), c.num(1))
            if kind == "for":
                c.loop_kinds[-1] = "cont-ok"
                ss = self.body(c, r.choice([1, 2, 3]), depth - 1)
                loop = c.mk("for", a=c.asg("=", c.var(i), initv), b=cnd, c=step, d=c.block(ss))
            elif kind == "while":
                pre.append(c.stmt_expr(c.asg("=", c.var(i), initv)))
                ss = self.body(c, r.choice([1, 2, 3]), depth - 1)
                # `continue` would skip the increment: the body generator only emits continue in for loops
                ss.append(c.stmt_expr(step))
                loop = c.mk("while", a=cnd, b=c.block(ss))
            else:
                pre.append(c.stmt_expr(c.asg("=", c.var(i), initv)))
                c.bound[i] = 99 if c.p.N(cnd)["k"] == "bin" and c.p.N(cnd)["op"] == "!=" else k + 1
                ss = self.body(c, r.choice([1, 2, 3]), depth - 1)
                ss.append(c.stmt_expr(step))
                if c.p.N(cnd)["k"] == "bin" and c.p.N(cnd)["op"] == "!=":
                    # do { } while (i != k) must not start beyond k
                    pass
                loop = c.mk("dowhile", a=cnd, b=c.block(ss))
        c.loop_kinds.pop()
        c.loop_depth -= 1
        c.reserved.discard(i)
        c.init = save_init | {i}
        c.ptr_valid = save_pv & c.ptr_valid
        return c.block(pre + [loop]) if pre else loop

    def st_switch(self, c, depth):
        r = self.rng
        sc = c.scalars()
        if not sc:
            return self.st_assign(c)
        v = c.var(r.choice(sc))
        sel = c.bin("&", v, c.num(3)) if self.chance(0.5) else v
        labels = r.sample([0, 1, 2, 3, 5, -1], r.choice([2, 3, 3]))
        cases = []
        save = (set(c.init), set(c.ptr_valid))
        c.in_switch += 1
        inits = []
        has_default = self.chance(0.6)
        for j, lab in enumerate(labels + (["d"] if has_default else [])):
            c.init, c.ptr_valid = set(save[0]), set(save[1])
            ss = self.body(c, r.choice([1, 1, 2]), depth - 1)
            if self.chance(0.75):
                ss.append(c.mk("break"))
            inits.append(set(c.init))
            if lab == "d":
                cases.append(c.mk("case", op="default", ss=ss))
            else:
                c.p.consts.add(lab)
                cases.append(c.mk("case", op="case", v=lab, ss=ss))
        c.in_switch -= 1
        c.init, c.ptr_valid = save   # conservative: nothing new is definitely initialised
        return c.mk("switch", a=sel, ss=cases)

    def st_jump(self, c, depth):
        """if (cond) break/continue/return e;"""
        r = self.rng
        opts = ["ret"]
        if c.loop_depth > 0 and c.in_switch == 0:
            opts += ["break", "break"]
            if c.loop_kinds and c.loop_kinds[-1] == "cont-ok":
                opts += ["continue", "continue"]
        k = r.choice(opts)
        if k == "ret":
            j = c.mk("ret", a=self.ret_expr(c))
        else:
            j = c.mk(k)
        return c.mk("if", a=self.condition(c, 1), b=c.block([j]), c=0)

    def ret_expr(self, c):
        if c.ret == "void":
            return 0
        return self.expr(c, self.rng.choice([0, 1, 2]))

    def st_call(self, c):
        r = self.rng
        if not c.helpers:
            return self.st_assign(c)
        h = r.choice(c.helpers)
        args = []
        wrote = None
        for pk in h["params"]:
            if pk["ty"] == "ptr":
                tg = [i for i in c.scalars(initialised=False, writable=True) if c.vty(i) == pk["pt"] and i in c.addr_taken]
                if not tg:
                    return self.st_assign(c)
                t = r.choice(tg)
                wrote = t
                args.append(c.mk("addr", a=c.var(t), ty="ptr"))
                if not h["inits_ptr"] and t not in c.init:
                    return self.st_assign(c)
            else:
                args.append(self.expr(c, r.choice([0, 1, 1, 2])))
        cx = c.mk("callx", v=h["idx"], ss=args, ty=h["ret"])
        a = 0
        if h["ret"] != "void" and self.chance(0.85):
            ws = [i for i in c.scalars(initialised=False, writable=True) if i != wrote]
            if ws:
                y = r.choice(ws)
                a = c.asg("=", c.var(y), cx)
                c.init.add(y)
        if wrote:
            c.init.add(wrote)
        return c.mk("call", a=a, b=cx)


    # ---- C03: related conditions -------------------------------------------------------------------------
    def rel_cond(self, c, v, op, k, how):
        """A condition related to `v op k`: same / opposite / implied / contradicting / swapped operands."""
        NEG = {"<": ">=", "<=": ">", ">": "<=", ">=": "<", "==": "!=", "!=": "=="}
        SWAP = {"<": ">", "<=": ">=", ">": "<", ">=": "<=", "==": "==", "!=": "!="}
        if how == "same":
            return c.bin(op, c.var(v), c.num(k))
        if how == "opp":
            return c.bin(NEG[op], c.var(v), c.num(k))
        if how == "swap":
            return c.bin(SWAP[op], c.num(k), c.var(v)) if k >= 0 else c.bin(op, c.var(v), c.num(k))
        if how == "swapopp":
            return c.bin(SWAP[NEG[op]], c.num(k), c.var(v)) if k >= 0 else c.bin(NEG[op], c.var(v), c.num(k))
        if how == "near":
            return c.bin(self.rng.choice(CMP), c.var(v), c.num(k + self.rng.choice([-1, 1, 1, 2])))
        if how == "not":
            return c.un("!", c.bin(op, c.var(v), c.num(k)))
        return self.cmp(c, 1)

    def modifier(self, c, v):
        """A statement that (possibly) changes variable v between two related conditions."""
        r = self.rng
        wide = T.RANK[c.vty(v)] >= T.RANK["int"]
        uns = not T.signed(self.plat, c.vty(v))
        opts = ["asg", "asg", "other"]
        if wide:
            opts += ["inc", "cmp"]
        ps = [p for p in c.ptr_valid if v in c.ptr_target.get(p, ())]
        if ps:
            opts += ["alias", "alias"]
        hs = [h for h in c.helpers if h["params"] and h["params"][0]["ty"] == "ptr" and h["params"][0]["pt"] == c.vty(v)
              and v in c.addr_taken]
        if hs:
            opts += ["call", "call"]
        k = r.choice(opts)
        if k == "asg":
            return c.stmt_expr(c.asg("=", c.var(v), self.expr(c, r.choice([0, 1, 1]))))
        if k == "inc":
            return c.stmt_expr(c.inc("++" if uns else r.choice(["++", "--"]), self.chance(0.5), c.var(v)))
        if k == "cmp":
            return c.stmt_expr(c.asg(r.choice(["+=", "*=", "&=", "|="] + ([] if uns else ["-="])), c.var(v), c.num(r.choice([1, 2, 3]))))
        if k == "alias":
            p = r.choice(sorted(ps))
            return c.stmt_expr(c.asg("=", c.mk("deref", a=c.mk("var", v=p, ty="ptr"), ty=c.vars[p - 1]["pt"]), self.expr(c, 1)))
        if k == "call":
            h = r.choice(hs)
            args = [c.mk("addr", a=c.var(v), ty="ptr")] + [self.expr(c, 1) for _ in h["params"][1:]]
            return c.mk("call", a=0, b=c.mk("callx", v=h["idx"], ss=args, ty=h["ret"]))
        return self.st_assign(c)

    def st_related(self, c, depth):
        r = self.rng
        vs = [i for i in c.scalars(writable=True)]
        if not vs or depth <= 0:
            return self.st_assign(c)
        v = r.choice(vs)
        ty = c.vty(v)
        k = r.choice([0, 0, 1, 2, 3, 5, 10, 100, 127, 128, 255, 256, -1, 65535, 65536])
        op = r.choice(CMP)
        c1 = r.choice([lambda: c.bin(op, c.var(v), c.num(k)), lambda: c.bin(op, c.var(v), c.num(k)), lambda: c.var(v),
                       lambda: c.un("!", c.var(v))])()
        n1 = c.p.N(c1)
        if n1["k"] == "var":
            op2, k2 = "!=", 0
        elif n1["k"] == "un":
            op2, k2 = "==", 0
        else:
            op2, k2 = op, k
        how = r.choice(["same", "opp", "swap", "swapopp", "near", "near", "not", "other"])
        c2 = self.rel_cond(c, v, op2, k2, how)
        mid = []
        if self.chance(0.45):
            mid.append(self.modifier(c, v))
        if self.chance(0.2):
            mid.append(self.st_assign(c))
        form = r.choice(["nested", "nested", "early", "early", "else", "seq", "loop"])
        save = (set(c.init), set(c.ptr_valid))

        def blk(n=1):
            ss = self.body(c, n, depth - 1)
            c.init, c.ptr_valid = set(save[0]), set(save[1])
            return ss

        if form == "nested":
            inner = c.mk("if", a=c2, b=c.block(blk()), c=c.block(blk()) if self.chance(0.3) else 0)
            s = c.mk("if", a=c1, b=c.block(mid + [inner]), c=0)
        elif form == "else":
            inner = c.mk("if", a=c2, b=c.block(blk()), c=0)
            s = c.mk("if", a=c1, b=c.block(blk()), c=c.block(mid + [inner]))
        elif form == "early":
            jump = c.mk("ret", a=self.ret_expr(c))
            if c.loop_depth > 0 and c.in_switch == 0 and self.chance(0.5):
                jump = c.mk("break") if (not c.loop_kinds or c.loop_kinds[-1] != "cont-ok" or self.chance(0.5)) else c.mk("continue")
            first = c.mk("if", a=c1, b=c.block(blk(r.choice([0, 1])) + [jump]), c=0)
            second = c.mk("if", a=c2, b=c.block(blk()), c=0)
            s = c.block([first] + mid + [second])
        elif form == "seq":
            s = c.block([c.mk("if", a=c1, b=c.block(blk()), c=0)] + mid + [c.mk("if", a=c2, b=c.block(blk()), c=0)])
        else:
            # a loop whose body changes the tested variable between/around the conditions
            i = self.new_counter(c)
            if not i or c.loop_depth >= 2:
                s = c.mk("if", a=c1, b=c.block(mid + [c.mk("if", a=c2, b=c.block(blk()), c=0)]), c=0)
            else:
                c.reserved.add(i)
                c.init.add(i)
                kk = r.choice([2, 3, 4])
                body = [c.mk("if", a=c2, b=c.block(blk()), c=0), self.modifier(c, v)]
                if self.chance(0.5):
                    body.reverse()
                loop = c.mk("for", a=c.asg("=", c.var(i), c.num(0)), b=c.bin("<", c.var(i), c.num(kk)), c=c.inc("++", False, c.var(i)),
                            d=c.block(body))
                c.reserved.discard(i)
                s = c.mk("if", a=c1, b=c.block([loop]), c=0)
        c.init, c.ptr_valid = save
        return s

    # ---- C04: what the runtime-error checkers look at, correct by construction (guarded) or with the guard removed ----
    def st_c04(self, c, depth, bug):
        r = self.rng
        kind = r.choice(["div", "div", "idx", "idx", "ptr", "ptr", "init", "init", "shift", "ovf"])
        ints = [i for i in c.scalars() if T.RANK[c.vty(i)] >= T.RANK["int"] and T.signed(self.plat, c.vty(i)) and i not in c.reserved]
        outs = [i for i in c.scalars(initialised=False, writable=True) if i > c.np and c.vty(i) == "int"]
        if not ints or not outs:
            return self.st_assign(c)
        out = r.choice(outs)
        a = r.choice(ints)

        def done(s):
            return s

        if kind == "div":
            d = r.choice(ints)
            dv = lambda: c.var(d)
            opn = r.choice(["/", "%"])
            use = c.stmt_expr(c.asg("=", c.var(out), c.bin(opn, self.expr(c, 1), dv())))
            form = r.choice(["if", "ifnz", "early", "tern", "gt", "assign0"])
            if form == "assign0":
                # d = 0 on one path only
                setz = c.mk("if", a=self.cmp(c, 0), b=c.block([c.stmt_expr(c.asg("=", c.var(d), c.num(0)))]), c=0)
                if d in c.reserved or d <= 0:
                    return self.st_assign(c)
                guard = c.mk("if", a=c.bin("!=", dv(), c.num(0)), b=c.block([use]), c=0)
                c.init.add(out) if False else None
                return c.block([setz, use if bug else guard])
            if bug:
                c.init.add(out)
                return use
            if form == "if":
                return c.mk("if", a=c.bin("!=", dv(), c.num(0)), b=c.block([use]), c=0)
            if form == "ifnz":
                return c.mk("if", a=dv(), b=c.block([use]), c=0)
            if form == "gt":
                return c.mk("if", a=c.bin(">", dv(), c.num(0)), b=c.block([use]), c=0)
            if form == "early":
                c.init.add(out)
                return c.block([c.mk("if", a=c.bin("==", dv(), c.num(0)), b=c.block([c.mk("ret", a=self.ret_expr(c))]), c=0), use])
            c.init.add(out)
            return c.stmt_expr(c.asg("=", c.var(out), c.cond(c.bin("!=", dv(), c.num(0)), c.bin(opn, self.expr(c, 1), dv()), c.num(0))))
        if kind == "idx":
            arrs = [i for i, v in enumerate(c.vars, 1) if v["ty"] == "arr" and i in c.init]
            if not arrs:
                return self.st_assign(c)
            ar = r.choice(arrs)
            n = c.vars[ar - 1]["n"]
            ix = lambda: c.var(a)
            rd = lambda: c.mk("idx", a=c.mk("var", v=ar, ty="arr"), b=ix(), ty=c.vars[ar - 1]["pt"])
            use = c.stmt_expr(c.asg("=", c.var(out), rd())) if self.chance(0.6) else c.stmt_expr(c.asg("=", rd(), self.expr(c, 1)))
            form = r.choice(["range", "early", "const", "neg"])
            if form == "const":
                k = r.randrange(n) if not bug else r.choice([n, n + 1, -1])
                setk = c.stmt_expr(c.asg("=", c.var(a), c.num(k)))
                if a in c.reserved:
                    return self.st_assign(c)
                return c.block([setk, use])
            if bug:
                if form == "neg":
                    return c.mk("if", a=c.bin("<", ix(), c.num(0)), b=c.block([use]), c=0)
                return c.mk("if", a=c.bin(r.choice([">=", ">"]), ix(), c.num(n)), b=c.block([use]), c=0)
            if form == "early":
                g = c.mk("lor", a=c.bin("<", ix(), c.num(0)), b=c.bin(">=", ix(), c.num(n)), ty="int")
                return c.block([c.mk("if", a=g, b=c.block([c.mk("ret", a=self.ret_expr(c))]), c=0), use])
            g = c.mk("land", a=c.bin(">=", ix(), c.num(0)), b=c.bin("<", ix(), c.num(n)), ty="int")
            return c.mk("if", a=g, b=c.block([use]), c=0)
        if kind == "ptr":
            ps = sorted(p for p in c.ptr_target if c.ptr_target[p])
            if not ps:
                return self.st_assign(c)
            p = r.choice(ps)
            tg = [t for t in sorted(c.ptr_target[p]) if c.vars[t - 1]["ty"] != "arr" and t in c.init]
            if not tg:
                return self.st_assign(c)
            t = r.choice(tg)
            pv = lambda: c.mk("var", v=p, ty="ptr")
            setp = c.stmt_expr(c.asg("=", pv(), c.num(0)))
            cond_set = c.mk("if", a=self.cmp(c, 0), b=c.block([c.stmt_expr(c.asg("=", pv(), c.mk("addr", a=c.var(t), ty="ptr")))]), c=0)
            der = lambda: c.mk("deref", a=pv(), ty=c.vars[p - 1]["pt"])
            use = c.stmt_expr(c.asg("=", c.var(out), der())) if self.chance(0.5) else c.stmt_expr(c.asg("=", der(), self.expr(c, 1)))
            c.ptr_valid.discard(p)
            c.init.add(p)
            form = r.choice(["if", "ifne", "early", "not"])
            if bug:
                return c.block([setp] + ([cond_set] if self.chance(0.5) else []) + [use])
            if form == "if":
                g = c.mk("if", a=pv(), b=c.block([use]), c=0)
            elif form == "ifne":
                g = c.mk("if", a=c.bin("!=", pv(), c.num(0)), b=c.block([use]), c=0)
            elif form == "not":
                g = c.mk("if", a=c.un("!", pv()), b=c.block(self.body(c, 1, 0)), c=c.block([use]))
            else:
                g = c.block([c.mk("if", a=c.bin("==", pv(), c.num(0)), b=c.block([c.mk("ret", a=self.ret_expr(c))]), c=0), use])
            return c.block([setp, cond_set, g])
        if kind == "init":
            fresh = [i for i in c.scalars(initialised=False, writable=True) if i > c.np and i not in c.init and i != out]
            if not fresh:
                return self.st_assign(c)
            x = r.choice(fresh)
            form = r.choice(["ifelse", "switch", "ptrcall", "loop", "cond"])
            use = c.stmt_expr(c.asg("=", c.var(out), c.bin("+", c.var(x), c.num(1))))
            if form == "ptrcall":
                hs = [h for h in c.helpers if h["params"] and h["params"][0]["ty"] == "ptr" and h["params"][0]["pt"] == c.vty(x)
                      and h["inits_ptr"] and x in c.addr_taken]
                if hs and not bug:
                    h = r.choice(hs)
                    args = [c.mk("addr", a=c.var(x), ty="ptr")] + [self.expr(c, 1) for _ in h["params"][1:]]
                    c.init.add(x)
                    c.init.add(out)
                    return c.block([c.mk("call", a=0, b=c.mk("callx", v=h["idx"], ss=args, ty=h["ret"])), use])
                form = "ifelse"
            cnd = self.cmp(c, 0)
            a1 = c.stmt_expr(c.asg("=", c.var(x), self.expr(c, 1)))
            a2 = c.stmt_expr(c.asg("=", c.var(x), self.expr(c, 1)))
            if form in ("ifelse", "loop", "cond"):
                first = c.mk("if", a=cnd, b=c.block([a1]), c=0 if bug else c.block([a2]))
                if not bug:
                    c.init.add(x)
                    c.init.add(out)
                    return c.block([first, use])
                # bug variant: x is set on one path only; the use is guarded by the same condition half of the time
                if self.chance(0.5):
                    cnd2 = self.rel_cond(c, 1, "==", 0, "other")
                    return c.block([first, c.mk("if", a=cnd2, b=c.block([use]), c=0)])
                return c.block([first, use])
            sel = c.bin("&", c.var(a), c.num(3))
            cases = [c.mk("case", op="case", v=0, ss=[a1, c.mk("break")]), c.mk("case", op="case", v=1, ss=[a2, c.mk("break")])]
            if not bug:
                cases.append(c.mk("case", op="default", ss=[c.stmt_expr(c.asg("=", c.var(x), c.num(0))), c.mk("break")]))
                c.init.add(x)
                c.init.add(out)
            return c.block([c.mk("switch", a=sel, ss=cases), use])
        if kind == "shift":
            s = r.choice(ints)
            width = T.bits(self.plat, "int")
            base = c.num(1) if self.chance(0.6) else c.bin("&", c.var(a), c.num(255))
            form = r.choice(["mask", "guard", "const"])
            if form == "const":
                k = r.choice([0, 1, 7, width - 2]) if not bug else r.choice([width, width + 1, 64, -1])
                sh = c.num(k)
                c.init.add(out)
                return c.stmt_expr(c.asg("=", c.var(out), c.bin("<<", base, sh)))
            if form == "mask" and not bug:
                c.init.add(out)
                return c.stmt_expr(c.asg("=", c.var(out), c.bin("<<", base, c.bin("&", c.var(s), c.num(7)))))
            use = c.stmt_expr(c.asg("=", c.var(out), c.bin(r.choice(["<<", ">>"]), base, c.var(s))))
            if bug:
                return c.mk("if", a=c.bin(">=", c.var(s), c.num(width)), b=c.block([use]), c=0)
            g = c.mk("land", a=c.bin(">=", c.var(s), c.num(0)), b=c.bin("<", c.var(s), c.num(width - 1 - 8)), ty="int")
            return c.mk("if", a=g, b=c.block([use]), c=0)
        # overflow
        big = T.tmax(self.plat, "int")
        k = r.choice([1, 2, 100, big // 2, big - 1, big])
        if bug:
            seta = c.stmt_expr(c.asg("=", c.var(out), c.num(big - r.choice([0, 1]))))
            c.init.add(out)
            return c.block([seta, c.stmt_expr(c.asg("=", c.var(out), c.bin("+", c.var(out), c.num(k if k > 1 else 2))))])
        use = c.stmt_expr(c.asg("=", c.var(out), c.bin("+", c.var(a), c.num(k))))
        if k == big:
            g = c.bin("<=", c.var(a), c.num(0))
        else:
            g = c.bin("<", c.var(a), c.num(big - k))
        return c.mk("if", a=g, b=c.block([use]), c=0)

    def statement(self, c, depth):
        r = self.rng
        c.budget -= 1
        w = [("assign", 4.0), ("compound", 1.5), ("embedded", 1.2 * self.knob("embedded")),
             ("if", 2.5 * self.knob("conds") if depth > 0 else 0), ("loop", 2.5 * self.knob("loops") if depth > 0 else 0),
             ("switch", 0.7 * self.knob("conds") if depth > 0 else 0), ("jump", 0.8 * self.knob("conds")),
             ("ptr", 1.5 * self.knob("ptrs")), ("call", 1.5 * self.knob("calls") if c.helpers else 0),
             ("related", (4.0 if self.profile == "c03" else 0.3) if depth > 0 else 0),
             ("c04", 9.0 if self.profile in ("c04safe", "c04bug") else 0)]
        tot = sum(x for _, x in w)
        x = r.random() * tot
        for name, wt in w:
            x -= wt
            if x <= 0:
                break
        if name == "assign":
            return self.st_assign(c)
        if name == "compound":
            return self.st_compound(c)
        if name == "embedded":
            return self.st_embedded(c)
        if name == "if":
            return self.st_if(c, depth)
        if name == "loop":
            return self.st_loop(c, depth)
        if name == "switch":
            return self.st_switch(c, depth)
        if name == "jump":
            return self.st_jump(c, depth)
        if name == "ptr":
            return self.st_ptr_assign(c)
        if name == "related":
            return self.st_related(c, depth)
        if name == "c04":
            return self.st_c04(c, depth, self.profile == "c04bug" and self.chance(0.5))
        return self.st_call(c)

    # ---- functions ---------------------------------------------------------------------------------------
    def setup_locals(self, c, nloc, with_ptr, with_arr):
        r = self.rng
        names = ["x", "y", "z", "w"]
        for j in range(nloc):
            c.add_var(names[j], self.pick_type())
        c.counters = [c.add_var(n, "int") for n in ("i", "j")]
        c.bound = {}
        c.cur_target = {}
        if with_arr:
            ety = "int" if self.chance(0.7) else self.pick_type(wide=False)
            a = c.add_var("arr", "arr", n=r.choice([2, 3, 4]), pt=ety)
            c.arr = a
        if with_ptr:
            # the pointee type must match the target's type exactly
            sc = [i for i in c.scalars(initialised=False) if i not in c.counters]
            t1 = r.choice(sc)
            ty = c.vty(t1)
            same = [i for i in sc if c.vty(i) == ty]
            tg = set(r.sample(same, min(len(same), r.choice([1, 2, 2]))))
            p = c.add_var("p", "ptr", pt=ty)
            c.ptr_target[p] = tg
            c.addr_taken |= tg
            if self.chance(0.3) and len(same) > 1:
                q = c.add_var("q", "ptr", pt=ty)
                c.ptr_target[q] = set(r.sample(same, 1)) | (tg if self.chance(0.5) else set())
                c.addr_taken |= c.ptr_target[q]

    def helper(self, prog, idx, name):
        r = self.rng
        kind = r.choice(["val", "val", "ptr", "ptrret"])
        ret = "void" if kind == "ptr" else self.pick_type(wide=False)
        c = FnCtx(prog, idx, r, ret)
        params = []
        if kind in ("ptr", "ptrret"):
            pt = "int" if self.chance(0.7) else self.pick_type(wide=False)
            q = c.add_var("q", "ptr", pt=pt, param=True)
            c.ptr_target[q] = set()
            c.ptr_valid.add(q)
            params.append({"ty": "ptr", "pt": pt})
        for nm in ["u", "v"][:r.choice([1, 2])]:
            ty = self.pick_type(wide=False)
            c.add_var(nm, ty, param=True)
            params.append({"ty": ty, "pt": ""})
        c.add_var("t", self.pick_type(wide=False))
        c.counters = [c.add_var("k", "int")]
        c.bound = {}
        c.cur_target = {}
        c.budget = r.choice([1, 2, 3])
        ss = []
        inits_ptr = False
        if kind in ("ptr", "ptrret"):
            q = 1
            reads_first = self.chance(0.3)
            if reads_first:
                # *q is read: callers pass an initialised object
                ss.append(c.stmt_expr(c.asg("=", c.var(c.np + 1), c.bin("+", c.mk("deref", a=c.mk("var", v=q, ty="ptr"), ty=pt), c.num(1)))))
                c.init.add(c.np + 1)
            else:
                # the callee is the one that initialises *q: the write is unconditional and comes first
                inits_ptr = True
                ss.append(c.stmt_expr(c.asg("=", c.mk("deref", a=c.mk("var", v=q, ty="ptr"), ty=pt), self.expr(c, 1, nonneg_lit=True))))
            ss += self.body(c, c.budget, 1)
            if not inits_ptr or self.chance(0.5):
                wr = c.stmt_expr(c.asg(r.choice(["=", "=", "+="]), c.mk("deref", a=c.mk("var", v=q, ty="ptr"), ty=pt), self.expr(c, 1, nonneg_lit=True)))
                if self.chance(0.25):
                    wr = c.mk("if", a=self.condition(c, 1), b=c.block([wr]), c=0)
                ss.append(wr)
        else:
            ss += self.body(c, c.budget, 1)
        if ret != "void":
            ss.append(c.mk("ret", a=self.expr(c, r.choice([0, 1, 2]))))
        body = c.block(ss)
        prog.funcs.append({"name": name, "ret": ret, "np": c.np, "vars": c.vars, "body": body})
        return {"idx": idx, "ret": ret, "params": params, "inits_ptr": inits_ptr}

    def program(self, name):
        r = self.rng
        prog = Prog(name, self.plat, self.profile)
        prog.funcs.append(None)
        helpers = []
        nh = 0
        if self.chance(self.knob("calls")):
            nh = r.choice([1, 1, 2])
        for h in range(nh):
            helpers.append(self.helper(prog, len(prog.funcs) + 1, "%s_h%d" % (name, h + 1)))
        ret = self.pick_type() if self.chance(0.5) else "int"
        c = FnCtx(prog, 1, r, ret)
        for nm in ["a", "b", "c"][:r.choice([1, 2, 2, 2, 3])]:
            c.add_var(nm, self.pick_type(), param=True)
        with_ptr = self.chance(self.knob("ptrs"))
        with_arr = self.chance(self.knob("ptrs") * 0.6)
        self.setup_locals(c, r.choice([2, 2, 3]), with_ptr, with_arr)
        # helpers taking a pointer need an address-taken variable of the right type
        for h in helpers:
            for pk in h["params"]:
                if pk["ty"] == "ptr":
                    same = [i for i in c.scalars(initialised=False) if c.vty(i) == pk["pt"] and i > c.np]
                    if not same:
                        nv = c.add_var("v%d" % len(c.vars), pk["pt"])
                        same = [nv]
                    c.addr_taken.add(r.choice(same))
        c.helpers = helpers
        c.budget = r.choice([3, 4, 5, 6, 8, 10])
        ss = []
        if with_arr:
            # initialise the array completely first (element-wise)
            a = c.arr
            for k in range(c.vars[a - 1]["n"]):
                ss.append(c.stmt_expr(c.asg("=", c.mk("idx", a=c.mk("var", v=a, ty="arr"), b=c.num(k), ty=c.vars[a - 1]["pt"]),
                                            self.expr(c, 1))))
            c.init.add(a)
        # give the locals a value early most of the time
        for i in c.scalars(initialised=False):
            if i not in c.init and i not in c.counters and self.chance(0.75):
                ss.append(c.stmt_expr(c.asg("=", c.var(i), self.expr(c, r.choice([0, 0, 1])))))
                c.init.add(i)
        ss += self.body(c, c.budget, 2)
        ss.append(c.mk("ret", a=self.expr(c, r.choice([0, 1, 2]))))
        body = c.block(ss)
        prog.funcs[0] = {"name": name, "ret": ret, "np": c.np, "vars": c.vars, "body": body}
        return prog.to_json()


def generate(seed, plat, profile, count, prefix):
    g = Gen(seed, plat, profile)
    out = []
    for i in range(count):
        out.append(g.program("%s%04d" % (prefix, i)))
    return out


if __name__ == "__main__":
    import json
    import sys
    ps = generate(int(sys.argv[1]), sys.argv[2], sys.argv[3], int(sys.argv[4]), "f")
    for p in ps:
        print(json.dumps(p))


# ------------------------------------------------------------------------------------------------ edge profile
def edge_programs(seed, plat, count, prefix):
    """Small programs aimed at the places where a value-flow analysis typically goes wrong (independent of the random
    profiles above, own random stream): a value stored into a narrower variable and read back, the value of a loop
    counter after the loop, a variable written through a pointer or by a callee between assignment and use."""
    r = random.Random(seed * 7919 + 13)
    out = []
    for n in range(count):
        name = "%s%04d" % (prefix, n)
        prog = Prog(name, plat, "edge")
        shape = r.choice(["trunc", "trunc", "after", "after", "alias", "alias"])
        prog.funcs.append(None)
        hidx = 0
        if shape == "alias" and r.random() < 0.5:
            # static void h(int *q, int u) { *q = u + k; }
            h = FnCtx(prog, 2, r, "void")
            q = h.add_var("q", "ptr", pt="int", param=True)
            u = h.add_var("u", "int", param=True)
            body = h.block([h.stmt_expr(h.asg("=", h.mk("deref", a=h.mk("var", v=q, ty="ptr"), ty="int"),
                                              h.bin("+", h.var(u), h.num(r.choice([0, 1, 2])))))])
            prog.funcs.append({"name": name + "_h1", "ret": "void", "np": 2, "vars": h.vars, "body": body})
            hidx = 2
        c = FnCtx(prog, 1, r, "int")
        a = c.add_var("a", "int", param=True)
        ss = []
        if shape == "trunc":
            nty = r.choice(["schar", "uchar", "short", "ushort"])
            nv = c.add_var("n", nty)
            w = c.add_var("w", r.choice(["int", "int", "long"]))
            big = r.choice([127, 128, 200, 255, 256, 300, 1000, 32767, 32768, 40000, 65535, 65536, 70000, -1, -128, -129, -200, -32769])
            src = r.choice(["const", "const", "param", "expr"])
            if src == "const":
                e = c.num(big)
            elif src == "param":
                e = c.var(a)
            else:
                e = c.bin(r.choice(["+", "-", "|"]), c.var(a), c.num(abs(big)))
            ss.append(c.stmt_expr(c.asg("=", c.var(nv), e)))
            ss.append(c.stmt_expr(c.asg("=", c.var(w), c.var(nv))))
            if r.random() < 0.5:
                k2 = T.conv(plat, big, nty)
                ss.append(c.mk("if", a=c.bin(r.choice(["==", "<", ">="]), c.var(nv), c.num(r.choice([k2, big, 0]))),
                               b=c.block([c.stmt_expr(c.asg("=", c.var(w), c.bin("+", c.var(w), c.num(1))))]), c=0))
            ss.append(c.mk("ret", a=c.bin("+", c.var(w), c.var(nv)) if r.random() < 0.5 else c.var(w)))
        elif shape == "after":
            i = c.add_var("i", "int")
            x = c.add_var("x", "int")
            k = r.choice([1, 2, 3, 4, 5])
            ss.append(c.stmt_expr(c.asg("=", c.var(x), c.num(0))))
            form = r.choice(["for<", "for<=", "for!=", "step2", "down", "while", "forbreak"])
            body = [c.stmt_expr(c.asg("=", c.var(x), c.bin("+", c.var(x), c.var(i) if r.random() < 0.5 else c.num(2))))]
            if form == "forbreak":
                body.append(c.mk("if", a=c.bin("==", c.var(a), c.var(i)), b=c.block([c.mk("break")]), c=0))
            if form in ("for<", "forbreak"):
                loop = c.mk("for", a=c.asg("=", c.var(i), c.num(0)), b=c.bin("<", c.var(i), c.num(k)), c=c.inc("++", r.random() < 0.5, c.var(i)), d=c.block(body))
            elif form == "for<=":
                loop = c.mk("for", a=c.asg("=", c.var(i), c.num(0)), b=c.bin("<=", c.var(i), c.num(k)), c=c.inc("++", False, c.var(i)), d=c.block(body))
            elif form == "for!=":
                loop = c.mk("for", a=c.asg("=", c.var(i), c.num(0)), b=c.bin("!=", c.var(i), c.num(k)), c=c.inc("++", True, c.var(i)), d=c.block(body))
            elif form == "step2":
                loop = c.mk("for", a=c.asg("=", c.var(i), c.num(0)), b=c.bin("<", c.var(i), c.num(k)), c=c.asg("+=", c.var(i), c.num(2)), d=c.block(body))
            elif form == "down":
                loop = c.mk("for", a=c.asg("=", c.var(i), c.num(k)), b=c.bin(">", c.var(i), c.num(0)), c=c.inc("--", False, c.var(i)), d=c.block(body))
            else:
                ss.append(c.stmt_expr(c.asg("=", c.var(i), c.num(0))))
                loop = c.mk("while", a=c.bin("<", c.var(i), c.num(k)), b=c.block(body + [c.stmt_expr(c.inc("++", False, c.var(i)))]))
            ss.append(loop)
            ss.append(c.stmt_expr(c.asg("=", c.var(x), c.bin("+", c.var(x), c.var(i)))))
            ss.append(c.mk("ret", a=c.var(i) if r.random() < 0.5 else c.bin("*", c.var(x), c.num(2))))
        else:
            x = c.add_var("x", "int")
            y = c.add_var("y", "int")
            p = c.add_var("p", "ptr", pt="int")
            k = r.choice([0, 1, 5, 7])
            ss.append(c.stmt_expr(c.asg("=", c.var(x), c.num(k))))
            ss.append(c.stmt_expr(c.asg("=", c.var(y), c.num(k + 1))))
            tgt = r.choice([x, x, y])
            ss.append(c.stmt_expr(c.asg("=", c.mk("var", v=p, ty="ptr"), c.mk("addr", a=c.var(tgt), ty="ptr"))))
            if r.random() < 0.3:
                ss.append(c.mk("if", a=c.bin(">", c.var(a), c.num(0)), b=c.block([c.stmt_expr(c.asg("=", c.mk("var", v=p, ty="ptr"), c.mk("addr", a=c.var(y if tgt == x else x), ty="ptr")))]), c=0))
            if hidx:
                ss.append(c.mk("call", a=0, b=c.mk("callx", v=hidx, ss=[c.mk("var", v=p, ty="ptr") if r.random() < 0.5 else c.mk("addr", a=c.var(tgt), ty="ptr"), c.var(a)], ty="void")))
            else:
                ss.append(c.stmt_expr(c.asg(r.choice(["=", "=", "+="]), c.mk("deref", a=c.mk("var", v=p, ty="ptr"), ty="int"),
                                            c.var(a) if r.random() < 0.6 else c.num(9))))
            ss.append(c.mk("if", a=c.bin("==", c.var(x), c.num(k)), b=c.block([c.stmt_expr(c.asg("=", c.var(y), c.bin("+", c.var(y), c.var(x))))]), c=0))
            ss.append(c.mk("ret", a=c.bin("+", c.var(x), c.var(y))))
        body = c.block(ss)
        prog.funcs[0] = {"name": name, "ret": "int", "np": 1, "vars": c.vars, "body": body}
        out.append(prog.to_json())
    return out
