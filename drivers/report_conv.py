"""Format conversion for C26 (spec/Report.tla): bytes <-> token sequences, template rendering, addon line encoding,
XML / SARIF -> ndjson-able structures.  No verdicts here: a parser failure is reported as ok=False and judged by TLC.

Token alphabet: one token per BYTE.  A printable ASCII byte (0x20..0x7e) is the 1-character string itself, every other
byte is "xHH" (two upper-case hex digits).  A string of the specification is a sequence of such tokens.
"""
import json
import re
import xml.parsers.expat


# ------------------------------------------------------------------ tokens
def tok(b):
    """bytes (or str, encoded as UTF-8 with surrogateescape) -> list of tokens"""
    if isinstance(b, str):
        b = b.encode("utf-8", "surrogateescape")
    return [chr(c) if 0x20 <= c <= 0x7e else "x%02X" % c for c in b]


def untok(ts):
    """list of tokens -> bytes"""
    out = bytearray()
    for t in ts:
        if len(t) == 1:
            out.append(ord(t))
        else:
            out.append(int(t[1:], 16))
    return bytes(out)


# literal strings the specification needs as token sequences (TLA+ cannot look inside a string): every S("...") that
# occurs in the module text gets an entry  STRTAB[s] = tok(s)
_S_RE = re.compile(r'\bS\("((?:[^"\\]|\\.)*)"\)')


def strtab(spec_path):
    tab = {}
    with open(spec_path) as f:
        text = f.read()
    for m in _S_RE.finditer(text):
        lit = re.sub(r"\\(.)", lambda k: k.group(1), m.group(1))      # TLA+ escapes used here: \\ and \"
        tab[lit] = tok(lit)
    return tab


# ------------------------------------------------------------------ templates
def render_parts(parts):
    """template of the specification (sequence of parts) -> bytes of the command line option value"""
    out = bytearray()
    for p in parts:
        k = p["k"]
        if k == "lit":
            out += untok(p["v"])
        elif k == "f":
            out += b"{" + p["n"].encode() + b"}"
        elif k == "inc":
            out += b"{inconclusive:" + untok(p["v"]) + b"}"
        elif k == "esc":
            out += b"\\" + p["n"].encode()
        else:
            raise ValueError("unknown template part %r" % (p,))
    return bytes(out)


def template_args(tmpl):
    """the --template / --template-location options of a case's template record"""
    if tmpl["name"] != "custom":
        return [b"--template=" + tmpl["name"].encode()]
    args = [b"--template=" + render_parts(tmpl["parts"])]
    if tmpl["hasloc"]:
        args.append(b"--template-location=" + render_parts(tmpl["loc"]))
    return args


# ------------------------------------------------------------------ addon lines
def json_str(ts):
    """token sequence -> bytes of a JSON string literal as an addon would print it; bytes >= 0x80 are written raw (an
    addon printing with ensure_ascii=False / a native addon), control characters as \\u00XX"""
    out = bytearray(b'"')
    for t in ts:
        if len(t) == 1:
            if t in '"\\':
                out += b"\\" + t.encode()
            else:
                out += t.encode()
        else:
            c = int(t[1:], 16)
            if c < 0x20:
                out += b"\\u%04x" % c
            else:
                out.append(c)
    out += b'"'
    return bytes(out)


def addon_line(a):
    """one result line of the scripted addon for an AddonLine record of the specification (format of
    addons/cppcheckdata.py reportError; the "loc" form is the multi-location form CppCheck::executeAddons accepts)"""
    fields = []
    if a["shape"] == "file":
        l = a["locs"][0]
        fields += [b'"file":' + json_str(l["file"]), b'"linenr":%d' % l["line"], b'"column":%d' % l["col"]]
    elif a["shape"] == "loc":
        locs = []
        for l in a["locs"]:
            locs.append(b'{"file":' + json_str(l["file"]) + b',"linenr":%d,"column":%d,"info":' % (l["line"], l["col"]) +
                        json_str(l["info"]) + b"}")
        fields.append(b'"loc":[' + b",".join(locs) + b"]")
    fields += [b'"severity":' + json_str(tok(a["sev"])), b'"message":' + json_str(a["msg"]), b'"addon":"fake"',
               b'"errorId":' + json_str(a["errorId"]), b'"extra":""']
    if a["cwe"]:
        fields.append(b'"cwe":%d' % a["cwe"])
    return b"{" + b",".join(fields) + b"}\n"


# ------------------------------------------------------------------ XML -> tree
_ATTR_RE = re.compile(rb'\s+([A-Za-z_:][-A-Za-z0-9_:.]*)\s*=\s*(?:"([^"]*)"|\'([^\']*)\')')


def xml_to_tree(data):
    """Parse with expat (the arbiter of well-formedness).  Returns {"ok":True,"tree":...} or {"ok":False,"err":...}.
    element = {"tag", "attrs":[{"n","v","raw"}], "kids":[element...], "text": tokens}; "raw" is the attribute value as
    written in the document (between the quotes), "v" the value the parser delivers."""
    p = xml.parsers.expat.ParserCreate()
    p.ordered_attributes = True
    p.buffer_text = True
    root = []
    stack = []

    def start(name, attrs):
        off = p.CurrentByteIndex
        end = data.find(b">", off)
        raws = {}
        if end >= 0:
            for m in _ATTR_RE.finditer(data[off:end]):
                raws[m.group(1).decode("ascii", "replace")] = m.group(2) if m.group(2) is not None else m.group(3)
        el = {"tag": name, "attrs": [], "kids": [], "text": []}
        for i in range(0, len(attrs), 2):
            el["attrs"].append({"n": attrs[i], "v": tok(attrs[i + 1]), "raw": tok(raws.get(attrs[i], b"?unlexed?"))})
        if stack:
            stack[-1]["kids"].append(el)
        else:
            root.append(el)
        stack.append(el)

    def end_(name):
        stack.pop()

    def chars(s):
        if stack and s.strip():
            stack[-1]["text"] += tok(s)

    p.StartElementHandler = start
    p.EndElementHandler = end_
    p.CharacterDataHandler = chars
    try:
        p.Parse(data, True)
    except xml.parsers.expat.ExpatError as ex:
        return {"ok": False, "err": "expat: %s" % xml.parsers.expat.ErrorString(ex.code), "tree": empty_tree()}
    if len(root) != 1:
        return {"ok": False, "err": "no root element", "tree": empty_tree()}
    # the declared encoding must be honoured: expat has decoded as UTF-8 (or failed above)
    return {"ok": True, "err": "", "tree": root[0]}


def empty_tree():
    return {"tag": "", "attrs": [], "kids": [], "text": []}


# ------------------------------------------------------------------ SARIF -> projection
def empty_sarif():
    return {"version": "", "schema": "", "nruns": 0, "driver": [], "results": [], "rules": []}


def sarif_to_doc(data):
    """Parse with json (the arbiter of 'valid JSON', which includes valid UTF-8) and project to what the specification talks
    about.  A missing member is reported as ok=False with err 'structure: ...' (judged by TLC as a structure deviation)."""
    try:
        text = data.decode("utf-8")
    except UnicodeDecodeError as ex:
        return {"ok": False, "kind": "utf8", "err": "utf-8: invalid byte 0x%02x" % data[ex.start], "doc": empty_sarif()}
    try:
        j = json.loads(text)
    except ValueError as ex:
        return {"ok": False, "kind": "json", "err": "json: %s" % str(ex).split(":")[0], "doc": empty_sarif()}
    try:
        doc = {"version": j["version"], "schema": j["$schema"], "nruns": len(j["runs"]), "driver": [], "results": [], "rules": []}
        for run in j["runs"][:1]:
            drv = run["tool"]["driver"]
            doc["driver"] = tok(drv["name"])
            for r in drv["rules"]:
                doc["rules"].append({"id": tok(r["id"]), "level": r["defaultConfiguration"]["level"]})
            for r in run["results"]:
                locs = []
                for l in r["locations"]:
                    ph = l["physicalLocation"]
                    rg = ph["region"]
                    locs.append({"uri": tok(ph["artifactLocation"]["uri"]), "line": int(rg["startLine"]), "col": int(rg["startColumn"]),
                                 "eline": int(rg.get("endLine", rg["startLine"])), "ecol": int(rg.get("endColumn", rg["startColumn"]))})
                doc["results"].append({"ruleId": tok(r["ruleId"]), "level": r["level"], "msg": tok(r["message"]["text"]), "locs": locs})
    except (KeyError, TypeError, IndexError, ValueError) as ex:
        return {"ok": False, "kind": "structure", "err": "structure: %s %s" % (type(ex).__name__, ex), "doc": empty_sarif()}
    return {"ok": True, "kind": "", "err": "", "doc": doc}
