"""C06 corpus: programs in which a typedef / using alias / macro / explicitly instantiated template is used in
value-relevant positions (initialisers, conditions, array indices, call arguments, member access, sizeof, casts), in the
structured form of rewrite_core with BOTH forms of every use site (X groups) and of the template definition (alt)."""
import random
import re

import rewrite_core as rc
import rewrite_gen

KIND_LETTER = {"typedef": "InlineTypedef", "using": "InlineUsing", "macro": "ExpandMacro", "template": "HandInstantiate"}


def build(text, groups=None, **kw):
    """mk_item with `$X_k` placeholders replaced by the use-site groups."""
    it = rc.mk_item(kw.pop("kind", "func"), text, **kw)
    if groups:
        for ls in [it["lines"]] + list(it["alt"].values()):
            for ln in ls:
                ln["toks"] = [groups[t[3:]] if isinstance(t, str) and t.startswith("$X_") else t for t in ln["toks"]]
    return it


# ------------------------------------------------------------------ typedef / using
# (name key, underlying type tokens, category)
ALIASED = [
    ("u8", "unsigned char", "uint"), ("s8", "signed char", "int"), ("u16", "unsigned short", "uint"), ("cnt_t", "unsigned int", "uint"),
    ("num_t", "int", "int"), ("big_t", "long long", "int"), ("ubig_t", "unsigned long", "uint"), ("word_t", "unsigned", "uint"),
    ("small_t", "short", "int"),
]

# use-site fragments for a scalar alias: {T} is the alias group placeholder, {v}.. fresh locals, {x} int parameter, {r} accumulator
SCALAR_USES = [
    ("init_trunc", "$X_T $l_{v} = {BIG} ;\n$l_{r} += $l_{v} ;\nif ( $l_{v} == {BIG} ) {{\n\t$l_{r} ++ ;\n}}"),
    ("init_neg", "$X_T $l_{v} = - 1 ;\nif ( $l_{v} < 0 ) {{\n\t$l_{r} -- ;\n}}\n$l_{r} += $l_{v} > 0 ;"),
    ("cond_lt0", "$X_T $l_{v} = ( $X_T ) $p_{x} ;\nif ( $l_{v} < 0 )\n\t$l_{r} = {K} ;\n$l_{r} += $l_{v} ;"),
    ("index", "int $l_{v2} [ {N} ] ;\n$X_T $l_{v} = {N} ;\n$l_{v2} [ $l_{v} ] = 0 ;\n$l_{r} += $l_{v2} [ 0 ] ;"),
    ("index_expr", "char $l_{v2} [ {N} ] ;\n$X_T $l_{v} = {K} ;\n$l_{v2} [ $l_{v} + {N} ] = 1 ;\n$l_{r} += $l_{v2} [ 1 ] ;"),
    ("call_arg", "$X_T $l_{v} = 0 ;\n$l_{r} += $f_{callee} ( $l_{v} ) ;"),
    ("call_cast", "$l_{r} += $f_{callee} ( ( $X_T ) 0 ) ;"),
    ("sizeof_val", "$l_{r} += ( int ) sizeof ( $X_T ) ;\nif ( sizeof ( $X_T ) > 16 ) {{\n\t$l_{r} = 0 ;\n}}"),
    ("sizeof_arr", "char $l_{v} [ sizeof ( $X_T ) ] ;\n$l_{v} [ sizeof ( $X_T ) ] = 0 ;\n$l_{r} += $l_{v} [ 0 ] ;"),
    ("div", "$X_T $l_{v} = 0 ;\n$l_{r} = $p_{x} / $l_{v} ;"),
    ("uninit", "$X_T $l_{v} ;\n$l_{r} += $l_{v} ;"),
    ("shift", "$X_T $l_{v} = 1 ;\n$l_{r} += $l_{v} << 40 ;"),
    ("cast_trunc", "$l_{r} += ( $X_T ) {BIG} ;\nif ( ( $X_T ) {BIG} == {BIG} ) {{\n\t$l_{r} ++ ;\n}}"),
    ("ptr_alias", "$X_T $l_{v} = {K} ;\n$X_T * $l_{v2} = & $l_{v} ;\n$l_{r} += * $l_{v2} ;\n$l_{v2} = 0 ;\n$l_{r} += * $l_{v2} ;"),
    ("loop", "$X_T $l_{v} ;\nint $l_{v2} [ {N} ] ;\nfor ( $l_{v} = 0 ; $l_{v} <= {N} ; $l_{v} ++ )\n\t$l_{v2} [ $l_{v} ] = 0 ;\n$l_{r} += $l_{v2} [ 0 ] ;"),
]


def alias_program(rng, name, kind, P):
    """kind: typedef | using."""
    key, under, cat = rng.choice(ALIASED)
    tname = key
    fn = rng.sample(P["f"], 6)
    items = []
    if kind == "typedef":
        items.append(build("typedef %s $t_%s ;" % (under, tname), kind="type", entity="typedef"))
    else:
        items.append(build("using $t_%s = %s ;" % (tname, under), kind="type", entity="using"))
    G = {"T": rc.X(kind, "$t_" + tname, under)}
    # a second alias of structure / pointer / array shape
    shape = rng.choice(["struct", "ptr", "array", "fnptr", "none"])
    sname, pname = rng.sample(P["t"], 2)
    if shape == "struct":
        items.append(build("struct $t_%s {\n\tint first ;\n\tint second ;\n} ;" % sname, kind="type"))
        if kind == "typedef":
            items.append(build("typedef struct $t_%s $t_%s ;" % (sname, pname), kind="type", entity="typedef"))
        else:
            items.append(build("using $t_%s = struct $t_%s ;" % (pname, sname), kind="type", entity="using"))
        G["S"] = rc.X(kind, "$t_" + pname, "struct $t_" + sname)
    elif shape == "ptr":
        items.append(build(("typedef int * $t_%s ;" if kind == "typedef" else "using $t_%s = int * ;") % pname, kind="type", entity=kind))
        G["P"] = rc.X(kind, "$t_" + pname, "int *")
    elif shape == "array":
        items.append(build(("typedef int $t_%s [ 4 ] ;" if kind == "typedef" else "using $t_%s = int [ 4 ] ;") % pname, kind="type", entity=kind))
    elif shape == "fnptr":
        items.append(build(("typedef int ( * $t_%s ) ( int ) ;" if kind == "typedef" else "using $t_%s = int ( * ) ( int ) ;") % pname,
                           kind="type", entity=kind))
    callee = fn[0]
    items.append(build("static int $f_%s ( $X_T $p_dv )\n{\n\treturn 100 / $p_dv ;\n}" % callee, G))
    nfunc = rng.choice([2, 3, 4])
    for fi in range(nfunc):
        ln = rng.sample(P["l"], len(P["l"]))
        pn = rng.sample(P["p"], 3)
        env = {"r": ln[0], "x": pn[0], "callee": callee}
        fresh = ln[1:]
        body = []
        for (_n, tmpl) in rng.sample(SCALAR_USES, rng.choice([2, 3, 3, 4])):
            e = dict(env, v=fresh.pop(), v2=fresh.pop(), K=rng.choice([1, 2, 3, 5]), N=rng.choice([2, 3, 4, 8]),
                     BIG=rng.choice([200, 300, 40000, 70000, 3000000000]))
            body += tmpl.format(**e).split("\n")
        if fi == 0 and shape == "struct":
            v = fresh.pop()
            body += ("$X_S $l_%s ;\n$l_%s . first = 1 ;\n$l_%s += $l_%s . second ;" % (v, v, env["r"], v)).split("\n")
        if fi == 0 and shape == "ptr":
            v = fresh.pop()
            body += ("$X_P $l_%s = 0 ;\n$l_%s += * $l_%s ;" % (v, env["r"], v)).split("\n")
        if fi == 0 and shape == "array":
            v = fresh.pop()
            G["A" + v] = rc.X(kind, "$t_%s $l_%s" % (pname, v), "int $l_%s [ 4 ]" % v)
            body += ("$X_A%s ;\n$l_%s [ 4 ] = 0 ;\n$l_%s += $l_%s [ 0 ] ;" % (v, v, env["r"], v)).split("\n")
        if fi == 0 and shape == "fnptr":
            v = fresh.pop()
            G["F" + v] = rc.X(kind, "$t_%s $l_%s" % (pname, v), "int ( * $l_%s ) ( int )" % v)
            body += ("$X_F%s = 0 ;\n$l_%s += $l_%s ( 1 ) ;" % (v, env["r"], v)).split("\n")
        text = "int $f_%s ( int $p_%s )\n{\n\tint $l_%s = 0 ;\n" % (fn[1 + fi], env["x"], env["r"])
        text += "".join("\t" + b + "\n" for b in body) + "\treturn $l_%s ;\n}" % env["r"]
        items.append(build(text, G))
    langs = ["c", "cpp"] if kind == "typedef" else ["cpp"]
    return {"name": name, "langs": langs, "items": items, "origin": "generated %s alias of %s" % (kind, under), "xkinds": [kind]}


# ------------------------------------------------------------------ macros
def expand_text(toks, defs, depth=0):
    """Own expansion for simple macros (no # / ##, no self reference): arguments are expanded first, substituted for
    the parameters, and the result is scanned again.  toks: token list; defs: {name: (params or None, body text)}."""
    assert depth < 20
    out = []
    k = 0
    while k < len(toks):
        t = toks[k]
        if t in defs and defs[t][0] is None:
            out += expand_text(rc.lex_line(defs[t][1]), defs, depth + 1)
            k += 1
        elif t in defs and k + 1 < len(toks) and toks[k + 1] == "(":
            params, body = defs[t]
            args, cur, d = [], [], 0
            k += 2
            while True:
                u = toks[k]
                if u == "(":
                    d += 1
                elif u == ")":
                    if d == 0:
                        break
                    d -= 1
                if u == "," and d == 0:
                    args.append(cur)
                    cur = []
                else:
                    cur.append(u)
                k += 1
            args.append(cur)
            k += 1
            args = [expand_text(a, defs, depth + 1) for a in args]
            assert len(args) == len(params), (t, args)
            sub = []
            for b in rc.lex_line(body):
                sub += args[params.index(b)] if b in params else [b]
            out += expand_text(sub, defs, depth + 1)
        else:
            out.append(t)
            k += 1
    return out


# (name, params, body)
MACROS = [
    ("LIMIT", None, "{N}"), ("ZERO", None, "( 1 - 1 )"), ("SIZE2", None, "( 2 * LIMIT )"), ("NEGONE", None, "( - 1 )"),
    ("SQR", ["v"], "( ( v ) * ( v ) )"), ("MAXV", ["a", "b"], "( ( a ) > ( b ) ? ( a ) : ( b ) )"), ("TWICE", ["v"], "( 2 * ( v ) )"),
    ("AT", ["arr", "i"], "( arr ) [ ( i ) ]"), ("DIVBY", ["a", "b"], "( ( a ) / ( b ) )"), ("ISNEG", ["v"], "( ( v ) < 0 )"),
    ("DEREF", ["p"], "( * ( p ) )"), ("NPTR", None, "( ( int * ) 0 )"), ("FOURTH", ["v"], "TWICE ( TWICE ( v ) )"),
]

# use-site fragments: @<invocation text>@ becomes a use-site group (sugar = the text, expanded = its full expansion)
MACRO_USES = [
    "int $l_{v} [ @LIMIT@ ] ;\n$l_{v} [ @LIMIT@ ] = $p_{x} ;\n$l_{r} += $l_{v} [ 0 ] ;",
    "int $l_{v} = @LIMIT@ ;\nif ( $l_{v} == @LIMIT@ ) {{\n\t$l_{r} ++ ;\n}}",
    "$l_{r} = $p_{x} / @ZERO@ ;",
    "int $l_{v} = @ZERO@ ;\n$l_{r} += {K} % $l_{v} ;",
    "char $l_{v} [ @SIZE2@ ] ;\n$l_{v} [ @SIZE2@ + {K} ] = 0 ;\n$l_{r} += $l_{v} [ 1 ] ;",
    "int $l_{v} [ {N} ] ;\n$l_{v} [ @NEGONE@ ] = 0 ;\n$l_{r} += $l_{v} [ 0 ] ;",
    "int $l_{v} = @SQR ( {K} )@ ;\nint $l_{v2} [ 4 ] ;\n$l_{v2} [ $l_{v} + 3 ] = 0 ;\n$l_{r} += $l_{v2} [ 0 ] + $l_{v} ;",
    "int $l_{v} = {K} ;\n$l_{r} += @SQR ( $l_{v} )@ ;\nif ( @SQR ( $l_{v} )@ < 0 ) {{\n\t$l_{r} = 0 ;\n}}",
    "int $l_{v} = @MAXV ( {K} , {N} )@ ;\n$l_{r} += 100 / ( $l_{v} - $l_{v} ) ;",
    "$l_{r} += $f_{callee} ( @MAXV ( 0 , - 1 )@ ) ;",
    "int $l_{v2} [ {N} ] ;\n$l_{v2} [ @TWICE ( {N} )@ ] = 1 ;\n$l_{r} += $l_{v2} [ 0 ] ;",
    "int $l_{v} [ {N} ] ;\n@AT ( $l_{v} , {N} )@ = 0 ;\n$l_{r} += @AT ( $l_{v} , 0 )@ ;",
    "$l_{r} += @DIVBY ( $p_{x} , 0 )@ ;",
    "int $l_{v} = 0 ;\n$l_{r} += @DIVBY ( {K} , $l_{v} )@ ;",
    "unsigned $l_{v} = ( unsigned ) $p_{x} ;\nif ( @ISNEG ( $l_{v} )@ )\n\t$l_{r} = 1 ;",
    "int * $l_{v} = 0 ;\n$l_{r} += @DEREF ( $l_{v} )@ ;",
    "int * $l_{v} = @NPTR@ ;\n* $l_{v} = {K} ;",
    "$l_{r} += $f_{pcallee} ( @NPTR@ ) ;",
    # nested invocations: arguments that are macro invocations, a body that invokes macros
    "int $l_{v} [ @SQR ( LIMIT )@ ] ;\n$l_{v} [ @SQR ( LIMIT )@ ] = 0 ;\n$l_{r} += $l_{v} [ 0 ] ;",
    "$l_{r} += @DIVBY ( {K} , MAXV ( ZERO , NEGONE ) )@ ;",
    "int $l_{v} [ 8 ] ;\n$l_{v} [ @FOURTH ( 2 )@ ] = 0 ;\n$l_{r} += $l_{v} [ @TWICE ( SQR ( 2 ) )@ - 8 ] ;",
    "int $l_{v} = @FOURTH ( TWICE ( {K} ) )@ ;\nif ( $l_{v} == 8 * {K} ) {{\n\t$l_{r} ++ ;\n}}",
    "$l_{r} += $f_{callee} ( @MAXV ( ZERO , TWICE ( ZERO ) )@ ) ;",
]


def macro_program(rng, name, P):
    fn = rng.sample(P["f"], 7)
    N = rng.choice([2, 3, 4, 8])
    chosen = rng.sample(MACRO_USES, rng.choice([4, 5, 6, 7]))
    mdef = {m[0]: (m[1], m[2].format(N=N)) for m in MACROS}
    need = set()

    def closure(text):
        for t in rc.lex_line(text):
            if t in mdef and t not in need:
                need.add(t)
                closure(mdef[t][1])
    for c in chosen:
        for inv in re.findall(r"@([^@]+)@", c):
            closure(inv)
    order = [m[0] for m in MACROS if m[0] in need]
    items = []
    for m in order:
        params, body = mdef[m]
        head = m + ("(" + ", ".join(params) + ")" if params else "")
        items.append(build("#define %s %s" % (head, body), kind="macro", pin=True, entity="macro"))
    callee, pcallee = fn[0], fn[1]
    items.append(build("static int $f_%s ( int $p_dv )\n{\n\treturn 100 / $p_dv ;\n}" % callee))
    items.append(build("static int $f_%s ( int * $p_dp )\n{\n\treturn * $p_dp ;\n}" % pcallee))
    expansions = []
    per_func = [chosen[i::2] for i in range(2)] if len(chosen) < 6 else [chosen[i::3] for i in range(3)]
    for fi, frs in enumerate(per_func):
        ln = rng.sample(P["l"], len(P["l"]))
        pn = rng.sample(P["p"], 2)
        env = {"r": ln[0], "x": pn[0], "callee": callee, "pcallee": pcallee}
        fresh = ln[1:]
        G = {}
        body = []
        for tmpl in frs:
            e = dict(env, v=fresh.pop(), v2=fresh.pop(), K=rng.choice([1, 2, 3, 5]), N=N)
            txt = tmpl.format(**e)

            def repl(mo):
                sugar = mo.group(1)
                exp = " ".join(expand_text(rc.lex_line(sugar), mdef))
                k = "g%d" % len(G)
                G[k] = rc.X("macro", sugar, exp)
                expansions.append((sugar, exp))
                return "$X_" + k
            txt = re.sub(r"@([^@]+)@", repl, txt)
            body += txt.split("\n")
        text = "int $f_%s ( int $p_%s )\n{\n\tint $l_%s = 0 ;\n" % (fn[2 + fi], env["x"], env["r"])
        text += "".join("\t" + b + "\n" for b in body) + "\treturn $l_%s ;\n}" % env["r"]
        items.append(build(text, G))
    return {"name": name, "langs": ["c", "cpp"], "items": items, "origin": "generated macros " + ",".join(order), "xkinds": ["macro"],
            "expansions": expansions, "macro_defs": [(m, mdef[m][0], mdef[m][1]) for m in order]}


# ------------------------------------------------------------------ templates
def template_program(rng, name, P):
    fn = rng.sample(P["f"], 8)
    tn = rng.sample(P["t"], 3)
    items = []
    G = {}
    N = rng.choice([2, 3, 4, 8])
    ty = rng.choice(["int", "unsigned char", "long", "short"])
    tyid = ty.replace(" ", "_")
    variant = rng.choice(["func", "class", "both"])
    if variant in ("func", "both"):
        f = fn[0]
        body = rng.choice(["return $p_ta > $p_tb ? $p_ta : $p_tb ;", "return $p_ta / $p_tb ;", "return $p_ta - $p_tb ;"])
        items.append(build(
            "template < class T > T $f_%s ( T $p_ta , T $p_tb )\n{\n\t%s\n}\ntemplate %s $f_%s < %s > ( %s , %s ) ;" % (f, body, ty, f, ty, ty, ty),
            kind="func", entity="template",
            alt={"template": "%s $f_%s_%s ( %s $p_ta , %s $p_tb )\n{\n\t%s\n}" % (ty, f, tyid, ty, ty, body)}))
        G["F"] = rc.X("template", "$f_%s < %s >" % (f, ty), "$f_%s_%s" % (f, tyid))
        # non-type parameter
        g = fn[1]
        items.append(build(
            "template < int N > int $f_%s ( int $p_ta )\n{\n\tint $l_tbuf [ N ] ;\n\t$l_tbuf [ 0 ] = $p_ta ;\n\treturn $l_tbuf [ 0 ] + N ;\n}\n"
            "template int $f_%s < %d > ( int ) ;" % (g, g, N),
            kind="func", entity="template",
            alt={"template": "int $f_%s_%d ( int $p_ta )\n{\n\tint $l_tbuf [ %d ] ;\n\t$l_tbuf [ 0 ] = $p_ta ;\n\treturn $l_tbuf [ 0 ] + %d ;\n}" % (g, N, N, N)}))
        G["G"] = rc.X("template", "$f_%s < %d >" % (g, N), "$f_%s_%d" % (g, N))
    if variant in ("class", "both"):
        c = tn[0]
        items.append(build(
            "template < class T , int N > struct $t_%s {\n\tT data [ N ] ;\n\tint first ;\n\tint count ( ) const { return N ; }\n"
            "\tT front ( ) const { return data [ 0 ] ; }\n} ;\ntemplate struct $t_%s < %s , %d > ;" % (c, c, ty, N),
            kind="type", entity="template",
            alt={"template": "struct $t_%s_%s_%d {\n\t%s data [ %d ] ;\n\tint first ;\n\tint count ( ) const { return %d ; }\n"
                             "\t%s front ( ) const { return data [ 0 ] ; }\n} ;" % (c, tyid, N, ty, N, N, ty)}))
        G["C"] = rc.X("template", "$t_%s < %s , %d >" % (c, ty, N), "$t_%s_%s_%d" % (c, tyid, N))
    callee = fn[2]
    items.append(build("static int $f_%s ( int $p_dv )\n{\n\treturn 100 / $p_dv ;\n}" % callee))
    uses_f = [
        "int $l_{v} = $X_F ( {K} , {K} ) ;\nint $l_{v2} [ 4 ] ;\n$l_{v2} [ $l_{v} + 4 ] = 0 ;\n$l_{r} += $l_{v2} [ 0 ] ;",
        "$l_{r} += $X_F ( $p_{x} , 0 ) ;",
        "if ( $X_F ( {K} , 1 ) == {K} ) {{\n\t$l_{r} ++ ;\n}}",
        "$l_{r} += $f_{callee} ( $X_F ( 0 , 0 ) ) ;",
        "$l_{r} += $X_G ( $p_{x} ) ;\nint $l_{v} = $X_G ( 0 ) ;\n$l_{r} += 10 / ( $l_{v} - {N} ) ;",
    ]
    uses_c = [
        "$X_C $l_{v} ;\n$l_{v} . data [ {N} ] = 0 ;\n$l_{r} += $l_{v} . data [ 0 ] ;",
        "$X_C $l_{v} ;\n$l_{v} . first = {K} ;\n$l_{r} += $l_{v} . count ( ) ;\nif ( $l_{v} . count ( ) == {N} ) {{\n\t$l_{r} ++ ;\n}}",
        "$X_C $l_{v} ;\n$l_{r} += $l_{v} . first ;",
        "$X_C * $l_{v} = 0 ;\n$l_{r} += $l_{v} -> first ;",
        "$l_{r} += ( int ) sizeof ( $X_C ) ;",
        "$X_C $l_{v} ;\nint $l_{v2} [ {N} ] ;\n$l_{v} . first = 0 ;\n$l_{v2} [ $l_{v} . count ( ) ] = $l_{v} . first ;\n$l_{r} += $l_{v2} [ 0 ] ;",
    ]
    pool = (uses_f if variant in ("func", "both") else []) + (uses_c if variant in ("class", "both") else [])
    nfunc = rng.choice([2, 3])
    for fi in range(nfunc):
        ln = rng.sample(P["l"], len(P["l"]))
        pn = rng.sample(P["p"], 2)
        env = {"r": ln[0], "x": pn[0], "callee": callee}
        fresh = ln[1:]
        body = []
        for tmpl in rng.sample(pool, min(len(pool), rng.choice([2, 3]))):
            e = dict(env, v=fresh.pop(), v2=fresh.pop(), K=rng.choice([1, 2, 3, 5]), N=N)
            body += tmpl.format(**e).split("\n")
        text = "int $f_%s ( int $p_%s )\n{\n\tint $l_%s = 0 ;\n" % (fn[3 + fi], env["x"], env["r"])
        text += "".join("\t" + b + "\n" for b in body) + "\treturn $l_%s ;\n}" % env["r"]
        items.append(build(text, G))
    return {"name": name, "langs": ["cpp"], "items": items, "origin": "generated template %s over %s N=%d" % (variant, ty, N), "xkinds": ["template"]}


def gen_program(seed, idx, repo):
    rng = random.Random(seed * 1000003 + idx)
    P = rewrite_gen.pools(repo)
    kind = ["typedef", "macro", "template", "using"][idx % 4]
    name = "x%d_%d_%s" % (seed, idx, kind)
    if kind in ("typedef", "using"):
        prog = alias_program(rng, name, kind, P)
    elif kind == "macro":
        prog = macro_program(rng, name, P)
    else:
        prog = template_program(rng, name, P)
    rc.validate(prog, repo)
    return prog


def corpus(seed, n, repo):
    return [gen_program(seed, i, repo) for i in range(n)]
