"""Shared driver of C05 / C06: TLC-enumerated rewrite histories are applied to structured programs, every rendering is
analysed by the hooked cppcheck, observations are projected and the recorded traces are judged by spec/Rewrite.tla."""
import concurrent.futures
import hashlib
import json
import os
import random
import re
import shutil
import time
import xml.etree.ElementTree as ET

import rewrite_core as rc
import vlib

WORKERS = 6
CPPCHECK_OPTS = ["--enable=all", "--inconclusive", "-q", "--template=" + rc.TEMPLATE, "--template-location=" + rc.TEMPLATE_LOC]


# ------------------------------------------------------------------ TLC: histories, model, judge
def tlc_histories(prop, maxlen):
    work = vlib.mktmp("rwgen")
    pin, out = os.path.join(work, "params.ndjson"), os.path.join(work, "hist.ndjson")
    vlib.write_ndjson(pin, [{"prop": prop, "maxlen": maxlen}])
    r = vlib.tlc("Rewrite", "RewriteIO.cfg", env={"MODE": "gen", "PARAMS": pin, "OUT": out}, workers=1, timeout=900)
    if not r.ok:
        raise vlib.InfraError("Rewrite.tla (gen) failed\n" + r.out[-3000:])
    hs = [row["h"] for row in vlib.read_ndjson(out)]
    m = re.search(r'"HISTORIES",\s*(\d+)', r.out)
    if not m or int(m.group(1)) != len(hs):
        raise vlib.InfraError("Rewrite.tla (gen): count mismatch")
    return sorted(hs)


MODEL_VARIANTS = {"C05": [("ideal", "TRUE", True), ("ideal", "FALSE", False), ("line8", "TRUE", False), ("nameKeyed", "TRUE", False),
                          ("orderDep", "TRUE", False)],
                  "C06": [("ideal", "TRUE", True), ("ideal", "FALSE", False), ("aliasLosesSign", "TRUE", False)]}


def model_check_one(variant, table, expect_ok, maxlen):
    work = vlib.mktmp("rwmodel")
    cfg = os.path.join(work, "m.cfg")
    with open(cfg, "w") as f:
        f.write('SPECIFICATION Spec\nCONSTANTS\n Variant = "%s"\n UseTable = %s\n MaxLen = %d\n'
                "PROPERTY Invariance\nPROPERTY OnlyRendering\nPROPERTY ProgFixed\nCHECK_DEADLOCK FALSE\n" % (variant, table, maxlen))
    r = vlib.tlc("Rewrite", cfg, env={"MODE": "model"}, workers=1, timeout=1500)
    if r.error:
        raise vlib.InfraError("Rewrite.tla model failure (%s)\n%s" % (variant, r.out[-2000:]))
    if expect_ok and not r.ok:
        raise vlib.InfraError("Rewrite.tla: the ideal analyzer violates %s - the spec contradicts itself\n%s" % (r.violated_name(), r.out[-2000:]))
    if not expect_ok and (r.ok or r.violated_name() != "Invariance"):
        raise vlib.InfraError("Rewrite.tla: variant %s/table=%s does not violate Invariance - the property would be vacuous" % (variant, table))
    return {"model": "Rewrite", "variant": variant, "table": table, "maxlen": maxlen, "distinct": r.distinct, "holds": r.ok}


def model_check_async(pool, maxlen, prop="C05"):
    return [pool.submit(model_check_one, v, t, e, maxlen) for (v, t, e) in MODEL_VARIANTS[prop]]


def judge(records):
    """records: prog / trace records (see Rewrite.tla). Returns (nsteps, deviations, driver problems)."""
    work = vlib.mktmp("rwjudge")
    inp, out = os.path.join(work, "traces.ndjson"), os.path.join(work, "dev.ndjson")
    vlib.write_ndjson(inp, records)
    r = vlib.tlc("Rewrite", "RewriteIO.cfg", env={"MODE": "judge", "TRACES": inp, "OUT": out}, workers=1, timeout=1800)
    if not r.ok:
        raise vlib.InfraError("Rewrite.tla (judge) failed rc=%s\n%s" % (r.rc, r.out[-3000:]))
    m = re.search(r'"STEPS",\s*(\d+),\s*"DEVIATIONS",\s*(\d+),\s*"DRIVER",\s*(\d+)', r.out)
    if not m:
        raise vlib.InfraError("Rewrite.tla (judge) gave no verdict\n" + r.out[-2000:])
    rows = vlib.read_ndjson(out)
    dev = [x for x in rows if x["t"] == "dev"]
    drv = [x for x in rows if x["t"] == "driver"]
    if len(dev) != int(m.group(2)) or len(drv) != int(m.group(3)):
        raise vlib.InfraError("Rewrite.tla (judge): verdict/output mismatch")
    shutil.rmtree(work, ignore_errors=True)
    return int(m.group(1)), dev, drv


# ------------------------------------------------------------------ one analysis
def parse_dump_facts(path):
    """Known integer values per token of the first configuration: [(line, column, str, value)]."""
    res = []
    try:
        root = ET.parse(path).getroot()
    except (ET.ParseError, OSError):
        return None
    d = root.find("dump")
    if d is None:
        return res
    vals = {}
    vf = d.find("valueflow")
    if vf is not None:
        for vs in vf:
            vals[vs.get("id")] = [v.attrib for v in vs]
    tl = d.find("tokenlist")
    for t in (tl if tl is not None else []):
        a = t.attrib
        if "values" not in a or a.get("type") == "number":
            continue
        for v in vals.get(a["values"], []):
            if v.get("known") == "true" and "intvalue" in v and v.get("indirect", "0") == "0" and v.get("path", "0") == "0":
                res.append((int(a["linenr"]), int(a["column"]), a["str"], v["intvalue"]))
    return res


def analyze(text, lang, facts, witness):
    d = vlib.mktmp("rw")
    fn = "p.c" if lang == "c" else "p.cpp"
    with open(os.path.join(d, fn), "w") as f:
        f.write(text)
    args = list(CPPCHECK_OPTS) + (["--dump"] if facts else []) + [fn]
    for attempt in range(5):
        try:
            rc_, _out, err = vlib.run_cppcheck(args, cwd=d, timeout=300)
            break
        except OSError as ex:          # the shared build tree is being re-linked by another check: wait and try again
            if attempt == 4:
                raise vlib.InfraError("cannot execute %s: %s" % (vlib.cppcheck_bin(), ex))
            time.sleep(3 + 4 * attempt)
    if rc_ is None:
        raise vlib.InfraError("cppcheck timeout on\n" + text[:2000])
    res = {"rc": rc_, "findings": rc.parse_output(err), "facts": None, "cc": -1}
    if rc_ is not None and rc_ < 0:
        res["findings"].append({"file": "nofile", "line": 0, "col": 0, "sev": "error", "inc": "", "id": "CRASH", "msg": "signal %d" % -rc_, "locs": []})
    if facts:
        res["facts"] = parse_dump_facts(os.path.join(d, fn + ".dump"))
    if witness:
        cmd = (["gcc", "-x", "c", "-std=gnu11"] if lang == "c" else ["g++", "-x", "c++", "-std=gnu++17"]) + ["-fsyntax-only", "-w", fn]
        r2, _o, _e = vlib.run(cmd, cwd=d, timeout=120)
        res["cc"] = -1 if r2 is None else (1 if r2 == 0 else 0)
    shutil.rmtree(d, ignore_errors=True)
    return res


def observation(prog, maps, res, facts):
    obs = rc.project_findings(prog, maps, res["findings"])
    if facts and res["facts"] is not None:
        seen = set()
        for (line, col, _s, v) in res["facts"]:
            item, pos, ing = rc.project_pos(maps, line, col)
            if item < 0 or ing:
                continue           # inside a use-site group / not in the file: position legitimately differs
            key = "valueflow|@%s|=%s" % (pos, v)
            if key in seen:
                continue
            seen.add(key)
            obs.append({"id": "valueflow", "key": key, "mk": "valueflow|=%s" % v, "pk": key, "indef": bool(prog["items"][item]["entity"]),
                        "ingroup": False, "sev": "fact"})
    obs.sort(key=lambda r: r["key"])
    return obs


# ------------------------------------------------------------------ histories -> traces
def choose_chains(hists, letters_ok, rng, nchains, first_cycle, maxlen=3):
    """nchains histories of maximal length (their prefixes are histories too), first letters taken round-robin from
    first_cycle so that every letter is applied directly to the base rendering somewhere in the corpus."""
    full = [h for h in hists if len(h) == maxlen and all(letters_ok(a) for a in h)]
    by_first = {}
    for h in full:
        by_first.setdefault(h[0], []).append(h)
    firsts = sorted(by_first)
    res = []
    for c in range(nchains):
        f = firsts[(first_cycle + c) % len(firsts)]
        res.append(rng.choice(by_first[f]))
    return res


def run_corpus(progs, chains_of, facts=False, witness_every=1, log=None, both_langs=False):
    """chains_of(i, prog) -> list of histories. Returns (records for the judge, index, stats)."""
    # 1. renderings
    jobs = {}            # (pi, lang, digest) -> text
    wit = set()          # renderings that also go to the compiler (all renderings of every witness_every-th history)
    plan = []            # (pi, lang, chain, [ (letter, R, digest, maps) ... ] with element 0 = base)
    for pi, prog in enumerate(progs):
        chains = chains_of(pi, prog)
        cache = {}
        for ci, ch in enumerate(chains):
            # every history of a program runs in one language; the languages alternate over its histories
            for lang in (prog["langs"] if both_langs else [prog["langs"][(pi + ci) % len(prog["langs"])]]):
                R = rc.init_rendering()
                seq = []
                for step in [None] + list(ch):
                    if step is not None:
                        R = rc.apply_rewrite(R, step)
                    rk = json.dumps(R, sort_keys=True)
                    if rk not in cache:
                        text, maps = rc.render(prog, R)
                        cache[rk] = (text, maps, hashlib.sha1(text.encode()).hexdigest())
                    text, maps, dg = cache[rk]
                    jobs[(pi, lang, dg)] = text
                    if witness_every and ci % witness_every == 0:
                        wit.add((pi, lang, dg))
                    seq.append((step, R, dg, maps))
                plan.append((pi, lang, ch, seq))
    # 2. analyses
    results = {}
    keys = sorted(jobs)
    with concurrent.futures.ThreadPoolExecutor(max_workers=WORKERS) as ex:
        futs = {k: ex.submit(analyze, jobs[k], k[1], facts, k in wit) for k in keys}
        for n, k in enumerate(keys):
            results[k] = futs[k].result()
            if log and n % 200 == 0:
                log("analysed %d/%d renderings" % (n, len(keys)))
    # 3. records
    records = []
    index = {}
    stats = {"runs": len(keys), "steps": 0, "steps_text_changed": 0, "findings_base": 0, "ids": {}, "sev": {}, "facts_base": 0,
             "witness_runs": sum(1 for k in keys if results[k]["cc"] >= 0), "witness_ok": sum(1 for k in keys if results[k]["cc"] == 1)}
    prog_line = {}
    per_prog = {}
    for pi, prog in enumerate(progs):
        per_prog[pi] = {"obs": [], "obs_idx": {}, "maps": [], "maps_idx": {}}
    trace_recs = []
    counted = set()
    pairs = set()
    stats["samples"] = []
    for (pi, lang, ch, seq) in plan:
        prog = progs[pi]
        pp = per_prog[pi]
        steps = []
        o0 = cc0 = None
        for si, (step, R, dg, maps) in enumerate(seq):
            res = results[(pi, lang, dg)]
            ob = observation(prog, maps, res, facts)
            ok = json.dumps(ob, sort_keys=True)
            if ok not in pp["obs_idx"]:
                pp["obs"].append(ob)
                pp["obs_idx"][ok] = len(pp["obs"])
            mk = json.dumps(R["names"], sort_keys=True)
            if mk not in pp["maps_idx"]:
                pp["maps"].append([{"scope": s, "conc": c, "base": rc.base_of(k)} for (s, _r, k), c in sorted(maps["table"].items())])
                pp["maps_idx"][mk] = len(pp["maps"])
            if si == 0:
                o0, cc0 = pp["obs_idx"][ok], res["cc"]
                if pi not in counted:
                    counted.add(pi)
                    stats["findings_base"] += sum(1 for f in ob if f["id"] != "valueflow")
                    stats["facts_base"] += sum(1 for f in ob if f["id"] == "valueflow")
                    for f in ob:
                        stats["ids"][f["id"]] = stats["ids"].get(f["id"], 0) + 1
                        sev = f["key"].split("|")[1] if f["id"] != "valueflow" else "fact"
                        stats["sev"][sev] = stats["sev"].get(sev, 0) + 1
            else:
                kind, _, par = step.partition(":")
                steps.append({"k": kind, "n": int(par or 0), "r": R, "o": pp["obs_idx"][ok], "m": pp["maps_idx"][mk], "cc": res["cc"]})
                stats["steps"] += 1
                if dg != seq[si - 1][2]:
                    stats["steps_text_changed"] += 1
                    pairs.add((pi, lang, kind, seq[si - 1][2], dg))
                    if len(stats["samples"]) < 2 and si == len(seq) - 1:
                        stats["samples"].append({"program": prog["name"], "language": lang, "history": list(ch),
                                                 "last_rewrite": step,
                                                 "text_before": jobs[(pi, lang, seq[si - 1][2])][:600],
                                                 "text_after": jobs[(pi, lang, dg)][:600],
                                                 "observation_size": len(ob)})
        trace_recs.append((pi, {"t": "trace", "pi": None, "lang": lang, "o0": o0, "cc0": cc0, "steps": steps}, ch))
    stats["distinct_pairs"] = len(pairs)
    line = 0
    for pi, prog in enumerate(progs):
        pp = per_prog[pi]
        fixed = sorted(rc.fixed_words(prog) | rc.KEYWORDS)
        records.append({"t": "prog", "p": prog["name"], "n": len(prog["items"]), "deps": [list(d) for d in rc.dependencies(prog)],
                        "orders": rc.orders(prog), "maps": pp["maps"], "fixed": fixed, "obs": pp["obs"]})
        line += 1
        prog_line[pi] = line
    for (pi, tr, ch) in trace_recs:
        tr["pi"] = prog_line[pi]
        records.append(tr)
        line += 1
        index[line] = (pi, tr["lang"], ch)
    return records, index, stats


def strip(prog):
    return {k: v for k, v in prog.items() if not k.startswith("_")}


def replay_one(payload, facts):
    """Re-runs one recorded (program, language, history). Returns the deviations TLC finds."""
    prog = payload["prog"]
    prog = dict(prog, langs=[payload["lang"]])
    records, _index, _stats = run_corpus([prog], lambda i, p: [payload["hist"]], facts=facts, witness_every=1)
    _n, dev, drv = judge(records)
    return dev, drv


def show_renderings(prog, hist):
    out = []
    R = rc.init_rendering()
    for step in [None] + list(hist):
        if step is not None:
            R = rc.apply_rewrite(R, step)
        out.append((step or "base", rc.render(prog, R)[0]))
    return out
