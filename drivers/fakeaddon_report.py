"""Scripted addon for C26: prints, for the analysed dump file, exactly the result lines the case prepared.

Descriptor (generated per case): {"script": ".../fakeaddon_report.py", "python": "<interpreter>", "args": ["--lines-dir", "<dir>"]}
cppcheck calls:  python runaddon.py fakeaddon_report.py --cli --lines-dir <dir> <file>[.<pid>].dump
The lines for the source file <file> are the bytes of <dir>/<basename of file>.lines (written verbatim: they may contain
bytes that are not valid UTF-8).  No such file (e.g. the whole-program .ctu-info call): nothing is printed.
(drivers/fakeaddon_report.sh is the same addon in the "executable" descriptor form.)
"""
import os
import sys


def main():
    argv = sys.argv
    if "--lines-dir" not in argv:
        return 0
    d = argv[argv.index("--lines-dir") + 1]
    b = os.path.basename(argv[-1])
    if not b.endswith(".dump"):
        return 0
    b = b[:-5]
    stem, _, ext = b.rpartition(".")
    if stem and ext.isdigit():
        b = stem
    p = os.path.join(d, b + ".lines")
    if os.path.isfile(p):
        with open(p, "rb") as f:
            sys.stdout.buffer.write(f.read())
        sys.stdout.buffer.flush()
    return 0


if __name__ == "__main__":
    main()
