"""Scripted addon for C26: prints, for the analysed dump file, exactly the result lines the case prepared.

Descriptor (generated per case): {"script": ".../fakeaddon_report.py", "python": "<interpreter>", "args": ["--lines-dir", "<dir>"]}
cppcheck calls:  python runaddon.py fakeaddon_report.py --cli --lines-dir <dir> <file>.dump
The lines for <file>.dump are the bytes of <dir>/<basename of the dump file>.lines (written verbatim: they may contain
bytes that are not valid UTF-8).  No file for a dump (e.g. the whole-program .ctu-info call): nothing is printed.
"""
import os
import sys


def main():
    argv = sys.argv
    if "--lines-dir" not in argv:
        return 0
    d = argv[argv.index("--lines-dir") + 1]
    p = os.path.join(d, os.path.basename(argv[-1]) + ".lines")
    if os.path.isfile(p):
        with open(p, "rb") as f:
            sys.stdout.buffer.write(f.read())
        sys.stdout.buffer.flush()
    return 0


if __name__ == "__main__":
    main()
