#!/bin/sh
# Scripted addon for C26, executable form (addon descriptor {"executable": ".../fakeaddon_report.sh", "args": ["--lines-dir", DIR]}).
# cppcheck calls:  fakeaddon_report.sh --cli --lines-dir DIR <file>[.<pid>].dump
# Prints the bytes of DIR/<file>.lines verbatim (the result lines the case prepared for that source file); nothing for
# other calls (e.g. the whole-program .ctu-info call).  Same behaviour as fakeaddon_report.py, without an interpreter start.
d=""; last=""
while [ $# -gt 0 ]; do
  if [ "$1" = "--lines-dir" ]; then d="$2"; shift; fi
  last="$1"; shift
done
b=${last##*/}
case "$b" in *.dump) b=${b%.dump} ;; *) exit 0 ;; esac
ext=${b##*.}
case "$ext" in ''|*[!0-9]*) ;; *) b=${b%.*} ;; esac
f="$d/$b.lines"
if [ -f "$f" ]; then cat "$f"; fi
exit 0
