"""C35: the clang processes started by `cppcheck --clang` as traces of spec/ClangStream.tla (validated by TLC, ClangStreamTrace.tla).

harness/clangtee (given to cppcheck as the clang executable) writes <prefix>.argv, <prefix>.fds and <prefix>.strace; read_run()
turns them into the events of one run, validate() lets TLC decide whether the runs are behaviours of the specification and
whether Intact / Delivered hold in every state of them."""
import math
import os
import re
import shutil
import sys

sys.path.insert(0, os.path.join(os.path.dirname(os.path.abspath(__file__)), "..", "lib"))
import vlib  # noqa: E402

TEE = os.path.join(vlib.VERIF, "harness", "clangtee")
W = re.compile(r"^(\d+)\s+(write|writev)\((\d+),.*\)\s+=\s+(-?\d+)")


def read_run(prefix, label):
    """-> {"label", "argv", "carets", "merged", "events": [{"e": "W", "fd", "n"}]} or None when cppcheck did not start clang."""
    if not os.path.exists(prefix + ".argv"):
        return None
    argv = open(prefix + ".argv").read().strip()
    fds = open(prefix + ".fds").read().split("\n")
    events = []
    traced = not os.environ.get("CLANGTEE_NOSTRACE")
    if traced and not os.path.exists(prefix + ".strace"):
        raise vlib.InfraError("strace did not write %s.strace (is ptrace permitted here?)" % prefix)
    for line in (open(prefix + ".strace", errors="replace") if traced else ()):
        if "unfinished" in line or "resumed" in line:
            raise vlib.InfraError("interleaved system calls in %s.strace: %s" % (prefix, line.strip()))
        m = W.match(line)
        if not m:
            continue
        fd, n = int(m.group(3)), int(m.group(4))
        if fd in (1, 2) and n > 0:
            events.append({"e": "W", "fd": fd, "n": n})
    return {"label": label, "argv": argv, "carets": "-fno-caret-diagnostics" not in argv.split(),
            "merged": len(fds) >= 2 and fds[0] == fds[1] and fds[0] != "", "events": events, "traced": traced}


def _rows(runs):
    rows = []
    for r in runs:
        w1 = [e["n"] for e in r["events"] if e["fd"] == 1]
        sizes = sorted(set(w1))
        g = 0
        for n in w1[:-1]:                  # every write but the last is a multiple of the buffer size
            g = math.gcd(g, n)
        rows.append({"e": "Header", "label": r["label"], "carets": r["carets"], "merged": r["merged"],
                     "bufs": sorted(set(sizes + ([g] if g else []))) or [1], "tails": [0] + sizes})
        rows += r["events"]
    rows.append({"e": "End"})
    return rows


def _tlc(runs):
    work = vlib.mktmp("clangstream")
    trace = os.path.join(work, "trace.ndjson")
    rows = _rows(runs)
    vlib.write_ndjson(trace, rows)
    r = vlib.tlc("ClangStreamTrace", "ClangStreamTrace.cfg", env={"TRACE": trace}, workers=1, timeout=900, xmx="2g")
    shutil.rmtree(work, ignore_errors=True)
    name = r.violated_name() if r.violation else None
    if r.error or (r.violation and name not in ("NotAccepted", "Intact", "Delivered", "TypeOK")):
        raise vlib.InfraError("ClangStreamTrace.tla failed rc=%s\n%s" % (r.rc, r.out[-3000:]))
    if name == "NotAccepted":
        return "accepted", r, len(rows)
    if name:
        m = re.findall(r'/\\ run = "([^"]*)"', r.out)
        return "invariant:%s:%s" % (name, m[-1] if m else ""), r, len(rows)
    return "rejected", r, len(rows)


CHUNK_EVENTS = 6000     # events per TLC start


def _chunks(runs):
    part, n = [], 0
    for r in runs:
        if part and n + len(r["events"]) + 1 > CHUNK_EVENTS:
            yield part
            part, n = [], 0
        part.append(r)
        n += len(r["events"]) + 1
    if part:
        yield part


def validate(runs):
    """-> (bad, stats); bad: [{"label", "key", "what"}] (at most a few: the first offending runs), stats: events / states."""
    import concurrent.futures
    runs = [r for r in runs if r.get("traced", True)]
    stats = {"stream_runs": len(runs), "stream_events": 0, "stream_states": 0, "stream_tlc_starts": 0,
             "stream_runs_merged": sum(1 for r in runs if r["merged"]),
             "stream_runs_with_fd2_writes": sum(1 for r in runs if any(e["fd"] == 2 for e in r["events"])),
             "stream_runs_merged_with_fd2_writes_and_several_fd1_writes":
                 sum(1 for r in runs if r["merged"] and any(e["fd"] == 2 for e in r["events"]) and sum(1 for e in r["events"] if e["fd"] == 1) > 1)}
    if not runs:
        return [], stats
    parts = list(_chunks(runs))
    with concurrent.futures.ThreadPoolExecutor(4) as ex:
        verdicts = list(ex.map(_tlc, parts))
    suspects = []
    for part, (verdict, r, n) in zip(parts, verdicts):
        stats["stream_events"] += n
        stats["stream_states"] += r.distinct
        stats["stream_tlc_starts"] += 1
        if verdict != "accepted":
            suspects.append((part, verdict))
    bad = []
    for part, verdict in suspects:
        found = len(bad)
        if len(bad) >= 3:
            break
        with concurrent.futures.ThreadPoolExecutor(8) as ex:      # name the runs (one TLC start each; only on the way to a VIOLATION line)
            single = list(ex.map(lambda x: _tlc([x])[0], part))
        for run, v in zip(part, single):
            if v == "accepted" or len(bad) >= 3:
                continue
            mode = "merged" if run["merged"] else "separate"
            if v.startswith("invariant:"):
                inv = v.split(":")[1]
                bad.append({"label": run["label"], "key": "stream:%s-violated:%s" % (inv, mode),
                            "what": "the writes of the clang process started by cppcheck (%s; fd 2 %s) violate %s of ClangStream.tla: "
                                    "the AST dump that the importer reads is interleaved with clang's stderr" % (run["argv"], mode, inv)})
            else:
                bad.append({"label": run["label"], "key": "stream:not-a-behaviour:%s" % mode,
                            "what": "the writes of the clang process started by cppcheck (%s; fd 2 %s) are not a behaviour of ClangStream.tla"
                                    % (run["argv"], mode)})
        if len(bad) == found and len(bad) < 3:
            raise vlib.InfraError("ClangStreamTrace: a concatenated log is %s but every run of it alone is accepted" % verdict)
    return bad, stats


def configs(runs):
    """Every way cppcheck was seen to start clang (carets shown?, fd 2 merged?) must be one for which the design keeps the dump
    intact for all buffer sizes and dump lengths of the small model (TLC, exhaustive).  Needs argv and descriptors only.
    -> (bad, {config: distinct states})"""
    seen = {}
    for r in runs:
        seen.setdefault((r["carets"], r["merged"]), r)
    bad, stats = [], {}
    for (carets, merged), r in sorted(seen.items()):
        work = vlib.mktmp("clangcfg")
        cfg = os.path.join(work, "ClangStreamCfg.cfg")
        b = lambda x: "TRUE" if x else "FALSE"  # noqa: E731
        with open(cfg, "w") as f:
            f.write("SPECIFICATION Spec\nCONSTANTS\n  CaretsSet = {%s}\n  MergedSet = {%s}\n  BufSet = {1, 2, 3, 4}\n  MaxDump = 9\n"
                    "  MaxDiag = 3\n  MaxSum = 2\nINVARIANT TypeOK\nINVARIANT Intact\nINVARIANT Delivered\nCHECK_DEADLOCK FALSE\n" % (b(carets), b(merged)))
        t = vlib.tlc("ClangStream", cfg, workers=1, timeout=600, xmx="2g")
        shutil.rmtree(work, ignore_errors=True)
        name = "carets=%s,merged=%s" % (b(carets), b(merged))
        if t.error:
            raise vlib.InfraError("ClangStream.tla for %s: rc=%s\n%s" % (name, t.rc, t.out[-2000:]))
        stats[name] = t.distinct
        if t.violation:
            bad.append({"label": r["label"], "key": "stream:command-admits-interleaving:%s" % name,
                        "what": "cppcheck starts clang as `%s` with fd 2 %s: for this configuration ClangStream.tla has behaviours that violate %s "
                                "(clang's summary line lands inside the AST dump the importer reads)"
                                % (r["argv"], "merged into the pipe (2>&1)" if merged else "in a file of its own", t.violated_name())})
    return bad, stats


def design():
    """The design-level checks (exhaustive for small constants): the code's command line keeps the dump intact; clang's default
    does not (the model can fail).  -> {cfg: distinct states}"""
    res = {}
    for cfg, expect in (("ClangStream.cfg", None), ("ClangStreamSep.cfg", None), ("ClangStreamNeg.cfg", "Intact")):
        r = vlib.tlc("ClangStream", cfg, workers=2, timeout=600, xmx="2g")
        got = r.violated_name() if r.violation else None
        if r.error or got != expect:
            raise vlib.InfraError("ClangStream.tla / %s: expected %s, TLC says %s (rc=%s)\n%s" % (cfg, expect or "no violation", got, r.rc, r.out[-2000:]))
        res[cfg] = r.distinct
    return res


if __name__ == "__main__":          # clangstream.py <prefix>...   (manual use)
    rs = [read_run(p, os.path.basename(p)) for p in sys.argv[1:]]
    print(validate([x for x in rs if x]))
