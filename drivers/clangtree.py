"""clangtree - read the shape of statements off `clang -Xclang -ast-dump=json` (second witness of C07).

stmt_trees(source, lang, names) -> {function name: tree | None}
  `source` contains functions gK whose body is  `int x; int *y; <one statement> return 0;`; the third statement of the
  body is converted into the tree record format of spec/ExprGrammar.tla (Leaf/Bin/Pre/Post/Cond/Call/Sub/Cast/SzE/SzT/
  If/Ret/Init).  Only a change of notation: ParenExpr / ImplicitCastExpr and similar wrappers are transparent, nothing is
  compared here.  None = clang reported an error for that function or a node kind outside the notation occurred.
"""
import json
import subprocess


class _Unsupported(Exception):
    pass


_TRANSPARENT = {"ParenExpr", "ImplicitCastExpr", "ExprWithCleanups", "ConstantExpr", "MaterializeTemporaryExpr", "CXXBindTemporaryExpr"}


def _inner(n):
    return [c for c in n.get("inner", []) if c.get("kind")]


def conv(n):
    k = n.get("kind")
    if k in _TRANSPARENT:
        return conv(_inner(n)[0])
    if k in ("BinaryOperator", "CompoundAssignOperator"):
        a, b = _inner(n)
        return {"k": "bin", "op": n["opcode"], "x": conv(a), "y": conv(b)}
    if k == "UnaryOperator":
        (a,) = _inner(n)
        return {"k": "post" if n.get("isPostfix") else "pre", "op": n["opcode"], "x": conv(a)}
    if k == "ConditionalOperator":
        c, a, b = _inner(n)
        return {"k": "cond", "c": conv(c), "x": conv(a), "y": conv(b)}
    if k == "CallExpr":
        inner = _inner(n)
        return {"k": "call", "f": conv(inner[0]), "args": [conv(a) for a in inner[1:]]}
    if k == "ArraySubscriptExpr":
        a, b = _inner(n)
        return {"k": "sub", "x": conv(a), "i": conv(b)}
    if k == "MemberExpr":
        (a,) = _inner(n)
        return {"k": "bin", "op": "->" if n.get("isArrow") else ".", "x": conv(a), "y": {"k": "leaf", "s": n.get("name", "?")}}
    if k == "CStyleCastExpr":
        (a,) = _inner(n)
        return {"k": "cast", "ty": n.get("type", {}).get("qualType", "?"), "x": conv(a)}
    if k == "UnaryExprOrTypeTraitExpr" and n.get("name") == "sizeof":
        inner = _inner(n)
        if inner:
            # sizeof ( e ): the ParenExpr is transparent as everywhere
            return {"k": "szE", "x": conv(inner[0])}
        return {"k": "szT", "ty": n.get("argType", {}).get("qualType", "?")}
    if k == "DeclRefExpr":
        return {"k": "leaf", "s": n.get("referencedDecl", {}).get("name", "?")}
    if k == "UnresolvedLookupExpr":
        return {"k": "leaf", "s": n.get("name", "?")}
    if k == "IntegerLiteral":
        return {"k": "leaf", "s": str(n.get("value"))}
    if k == "IfStmt":
        return {"k": "if", "x": conv(_inner(n)[0])}
    if k == "ReturnStmt":
        return {"k": "ret", "x": conv(_inner(n)[0])}
    if k == "DeclStmt":
        (v,) = _inner(n)
        if v.get("kind") == "VarDecl" and v.get("init") == "c":
            return {"k": "init", "x": conv(_inner(v)[0])}
    raise _Unsupported(k)


def stmt_trees(source_path, lang, timeout=120):
    cmd = ["clang", "-x", "c" if lang == "c" else "c++", "-std=c11" if lang == "c" else "-std=c++17", "-fsyntax-only", "-w",
           "-Xclang", "-ast-dump=json", source_path]
    try:
        r = subprocess.run(cmd, stdout=subprocess.PIPE, stderr=subprocess.PIPE, timeout=timeout)
    except subprocess.TimeoutExpired:
        return None, "timeout"
    try:
        tu = json.loads(r.stdout.decode("utf-8", "replace"))
    except ValueError:
        return None, "no json: " + r.stderr.decode("utf-8", "replace")[-300:]
    res = {}
    for d in tu.get("inner", []):
        if d.get("kind") != "FunctionDecl" or not d.get("name", "").startswith("g"):
            continue
        body = [c for c in _inner(d) if c["kind"] == "CompoundStmt"]
        if not body:
            continue
        stmts = _inner(body[0])
        try:
            # int x; int *y; <stmt> return 0;
            res[d["name"]] = conv(stmts[2]) if len(stmts) == 4 and not _has_error(stmts[2]) else None
        except (_Unsupported, IndexError, ValueError, KeyError):
            res[d["name"]] = None
    return res, r.stderr.decode("utf-8", "replace")[-500:]


def _has_error(n):
    if n.get("kind") in ("RecoveryExpr",) or n.get("containsErrors"):
        return True
    return any(_has_error(c) for c in _inner(n))
