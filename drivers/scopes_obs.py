"""scopes_obs - what cppcheck's --dump says about the name tokens of a rendered Scopes.tla program (format conversion).

token_table(cfg)  cfg = one configuration record of drivers/dump2nd.dump_to_records:
    {(line, col): [ {"str", "varId", "var", "vl", "vc", "fun", "fl", "fc"} ]}   for every token with a non-empty str
      var/fun  1 when the token has a `variable` / `function` attribute
      vl, vc   position of the nameToken of that variable   (0, 0 without attribute; -1, -1 when the variable has no
               name token or the id does not resolve)
      fl, fc   position of the tokenDef of that function    (same conventions)
Nothing is compared here; spec/ScopesJudge.tla decides what the links should be.
"""


def token_table(cfg, only_names=True):
    tok_pos = {t["id"]: (t["linenr"], t["column"]) for t in cfg["tokens"]}
    var_pos = {}
    for v in cfg["variables"]:
        var_pos[v["id"]] = tok_pos.get(v["nameToken"], (-1, -1))
    fun_pos = {}
    for f in cfg["functions"]:
        fun_pos[f["id"]] = tok_pos.get(f["tokenDef"], (-1, -1))
    table = {}
    for t in cfg["tokens"]:
        s = t["str"]
        if only_names and not (s[:1].isalpha() or s[:1] == "_"):
            continue
        var = t["variable"] not in ("", "0")
        fun = t["function"] not in ("", "0")
        vl, vc = var_pos.get(t["variable"], (-1, -1)) if var else (0, 0)
        fl, fc = fun_pos.get(t["function"], (-1, -1)) if fun else (0, 0)
        table.setdefault((t["linenr"], t["column"]), []).append(
            {"str": s, "varId": t["varId"], "var": 1 if var else 0, "vl": vl, "vc": vc, "fun": 1 if fun else 0, "fl": fl, "fc": fc})
    return table


def observe(toks, names, cpp_table, clang):
    """Attach the observations to the token positions of one program.
    toks: [{"i","s","line","col"}] from scopes_render; names: {(i, s): rendered name};
    clang: result of clangrefs.refs (or None: no clang observation)."""
    out = []
    for t in toks:
        pos = (t["line"], t["col"])
        name = names[(t["i"], t["s"])]
        cv = [{k: o[k] for k in ("varId", "var", "vl", "vc", "fun", "fl", "fc")} for o in cpp_table.get(pos, []) if o["str"] == name]
        cl = []
        if clang is not None:
            if pos in clang["refs"]:
                cl = [list(p) for p in sorted(clang["refs"][pos])]
            elif pos in clang["decls"]:
                cl = [list(pos)]
        out.append({"i": t["i"], "s": t["s"], "line": t["line"], "col": t["col"], "cv": cv, "cl": cl})
    return out


def observe_by_line(toks, names, cfg, clang):
    """The same observation for a dump whose token POSITIONS are not those of the source text (cppcheck --clang places
    tokens at clang's range starts).  Tokens are identified by (line, spelling, how many tokens of that spelling come
    before it on the line): the k-th token spelt n on line L of the dump is the k-th name token n of line L of the text.
    A line where the two counts differ is left unobserved (cv = []).  The position a `variable` / `function` link leads
    to is translated back to the position of the corresponding name token of the text (-1, -1 if it is none of them).
    Returns (rows, number of tokens left unobserved)."""
    by_line = {}
    for t in cfg["tokens"]:
        by_line.setdefault((t["linenr"], t["str"]), []).append(t)
    mine = {}
    for t in toks:
        mine.setdefault((t["line"], names[(t["i"], t["s"])]), []).append(t)
    pair = {}           # dump token id -> (line, col) of the token of the text
    mapped = {}         # (i, s) -> [dump tokens]
    for key, ts in mine.items():
        ts = sorted(ts, key=lambda t: t["col"])
        ds = by_line.get(key, [])
        # `int x = 0;` is imported as one token x; the native front end splits it in two - accept a multiple
        if ds and len(ds) == len(ts):
            for t, d in zip(ts, ds):
                pair[d["id"]] = (t["line"], t["col"])
                mapped[(t["i"], t["s"])] = [d]
    var_pos = {v["id"]: pair.get(v["nameToken"], (-1, -1)) for v in cfg["variables"]}
    fun_pos = {f["id"]: pair.get(f["tokenDef"], (-1, -1)) for f in cfg["functions"]}
    out = []
    unobserved = 0
    for t in toks:
        pos = (t["line"], t["col"])
        cv = []
        for d in mapped.get((t["i"], t["s"]), []):
            var = d["variable"] not in ("", "0")
            fun = d["function"] not in ("", "0")
            vl, vc = var_pos.get(d["variable"], (-1, -1)) if var else (0, 0)
            fl, fc = fun_pos.get(d["function"], (-1, -1)) if fun else (0, 0)
            cv.append({"varId": d["varId"], "var": 1 if var else 0, "vl": vl, "vc": vc, "fun": 1 if fun else 0, "fl": fl, "fc": fc})
        if not cv:
            unobserved += 1
        cl = []
        if pos in clang["refs"]:
            cl = [list(p) for p in sorted(clang["refs"][pos])]
        elif pos in clang["decls"]:
            cl = [list(pos)]
        out.append({"i": t["i"], "s": t["s"], "line": t["line"], "col": t["col"], "cv": cv, "cl": cl})
    return out, unobserved


def flat_program(clang):
    """A program description in the item format of spec/ScopesText.tla for ARBITRARY source text, read off clang's AST:
    one `decl` item per variable / parameter / field / function declaration, one `use` / `call` item per reference, in
    text order; ids = clang's binding.  Used by C35 for programs that were not generated from Scopes.tla: the judge
    (mode "refs") takes the expected binding from clang anyway, the items only give every token a kind.
    Returns (prog, toks, names)."""
    kinds = {"VarDecl": "local", "ParmVarDecl": "param", "FieldDecl": "field", "FunctionDecl": "fdecl", "CXXMethodDecl": "fdecl",
             "InitCapture": "local"}
    pos_list = sorted(set(clang["decls"]) | set(clang["refs"]))
    ids = {}
    for p in sorted(clang["decls"]):
        ids[p] = len(ids) + 1
    prog, toks, names = [], [], {}
    for p in pos_list:
        name = clang["names"].get(p, "")
        if not name:
            continue
        if p in clang["decls"]:
            k = kinds.get(clang["decls"][p], "local")
            it = {"op": "fdecl" if k == "fdecl" else "decl", "nm": name, "id": ids[p], "form": "" if k == "fdecl" else ("local" if k == "param" else k),
                  "q": [], "sub": []}
        else:
            targets = sorted(clang["refs"][p])
            if len(targets) != 1 or targets[0] not in ids:
                continue
            isfun = clang["ref_kinds"].get(p) in ("FunctionDecl", "CXXMethodDecl")
            it = {"op": "call" if isfun else "use", "nm": name, "id": ids[targets[0]], "form": "" if isfun else "plain", "q": [], "sub": []}
        prog.append(it)
        i = len(prog)
        toks.append({"i": i, "s": 0, "line": p[0], "col": p[1]})
        names[(i, 0)] = name
    return prog, toks, names
