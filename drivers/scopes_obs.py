"""scopes_obs - what cppcheck's --dump says about the name tokens of a rendered Scopes.tla program (format conversion).

token_table(cfg)  cfg = one configuration record of drivers/dump2nd.dump_to_records:
    {(line, col): [ {"str", "varId", "var", "vl", "vc", "fun", "fl", "fc"} ]}   for every token with a non-empty str
      var/fun  1 when the token has a `variable` / `function` attribute
      vl, vc   position of the nameToken of that variable   (0, 0 without attribute; -1, -1 when the variable has no
               name token or the id does not resolve)
      fl, fc   position of the tokenDef of that function    (same conventions)
Nothing is compared here; spec/ScopesJudge.tla decides what the links should be.
"""


def token_table(cfg, only_names=True):
    tok_pos = {t["id"]: (t["linenr"], t["column"]) for t in cfg["tokens"]}
    var_pos = {}
    for v in cfg["variables"]:
        var_pos[v["id"]] = tok_pos.get(v["nameToken"], (-1, -1))
    fun_pos = {}
    for f in cfg["functions"]:
        fun_pos[f["id"]] = tok_pos.get(f["tokenDef"], (-1, -1))
    table = {}
    for t in cfg["tokens"]:
        s = t["str"]
        if only_names and not (s[:1].isalpha() or s[:1] == "_"):
            continue
        var = t["variable"] not in ("", "0")
        fun = t["function"] not in ("", "0")
        vl, vc = var_pos.get(t["variable"], (-1, -1)) if var else (0, 0)
        fl, fc = fun_pos.get(t["function"], (-1, -1)) if fun else (0, 0)
        table.setdefault((t["linenr"], t["column"]), []).append(
            {"str": s, "varId": t["varId"], "var": 1 if var else 0, "vl": vl, "vc": vc, "fun": 1 if fun else 0, "fl": fl, "fc": fc})
    return table


def observe(toks, names, cpp_table, clang):
    """Attach the observations to the token positions of one program.
    toks: [{"i","s","line","col"}] from scopes_render; names: {(i, s): rendered name};
    clang: result of clangrefs.refs (or None: no clang observation)."""
    out = []
    for t in toks:
        pos = (t["line"], t["col"])
        name = names[(t["i"], t["s"])]
        cv = [{k: o[k] for k in ("varId", "var", "vl", "vc", "fun", "fl", "fc")} for o in cpp_table.get(pos, []) if o["str"] == name]
        cl = []
        if clang is not None:
            if pos in clang["refs"]:
                cl = [list(p) for p in sorted(clang["refs"][pos])]
            elif pos in clang["decls"]:
                cl = [list(pos)]
        out.append({"i": t["i"], "s": t["s"], "line": t["line"], "col": t["col"], "cv": cv, "cl": cl})
    return out
