"""C05 corpus: generated programs with many findings of all severities + the samples/*/bad.c* files, in the
structured form of rewrite_core.  Everything is a deterministic function of the seed."""
import os
import random

import rewrite_core as rc

LOCALS = "j k q w buf len cnt idx acc sum lo hi cur val dst dat blk nxt tot mask flag lim cap off sz aa bb cc dd ee gg hh kk mm nn".split()
PARAMS = "arg inp cfg ctx nel qty amt lvl pw px py pz ua ub uc".split()
FUNCS = "helper deref divide compute process fetch store update reduce merge apply collect drain probe walk visit emit".split()
TYPES = "Pair Node Buf Rec Item Vec Box Acc Span Cell Slot".split()


def pools(repo):
    w = rc.message_words(repo)
    ok = lambda xs: [x for x in xs if x not in w and x not in rc.KEYWORDS]
    return {"l": ok(LOCALS), "p": ok(PARAMS), "f": ok(FUNCS), "t": ok(TYPES)}


# ---- fragments: (name, needs, langs, decl template, body template); placeholders {r} accumulator, {x} int parameter,
# {p} int* parameter, {u} unsigned parameter, {v} {v2} fresh locals, {K} {K2} small constants, {N} array size, {M} index >= N
FRAGS = [
    ("zerodiv", "", "both", "int $l_{v} = 0 ;", "$l_{r} = $p_{x} / $l_{v} ;"),
    ("zerodiv_mod", "", "both", "", "$l_{r} += {K} % 0 ;"),
    ("zerodiv_cond", "", "both", "", "if ( $p_{x} == 0 )\n\t$l_{r} = {K} / $p_{x} ;"),
    ("nullptr", "", "both", "int * $l_{v} = 0 ;", "* $l_{v} = $p_{x} ;"),
    ("nullptr_cond", "", "both", "", "if ( ! $p_{p} ) {{\n\t* $p_{p} = {K} ;\n}}"),
    ("nullptr_redundant", "", "both", "", "$l_{r} += * $p_{p} ;\nif ( $p_{p} ) {{\n\t$l_{r} ++ ;\n}}"),
    ("array_oob", "", "both", "int $l_{v} [ {N} ] ;", "$l_{v} [ {M} ] = $p_{x} ;\n$l_{r} += $l_{v} [ 0 ] ;"),
    ("array_loop", "", "both", "int $l_{v} [ {N} ] ;\nint $l_{v2} ;",
     "for ( $l_{v2} = 0 ; $l_{v2} <= {N} ; $l_{v2} ++ )\n\t$l_{v} [ $l_{v2} ] = $l_{v2} ;\n$l_{r} += $l_{v} [ 1 ] ;"),
    ("array_neg", "", "both", "char $l_{v} [ {N} ] ;", "$l_{v} [ - 1 ] = 0 ;\n$l_{r} += $l_{v} [ 0 ] ;"),
    ("uninit", "", "both", "int $l_{v} ;", "$l_{r} += $l_{v} ;"),
    ("uninit_cond", "", "both", "int $l_{v} ;", "if ( $p_{x} > {K} )\n\t$l_{v} = 1 ;\n$l_{r} += $l_{v} ;"),
    ("known_cond", "", "both", "int $l_{v} = {K} ;", "if ( $l_{v} == {K} ) {{\n\t$l_{r} ++ ;\n}}"),
    ("known_cond2", "", "both", "int $l_{v} = {K} ;", "if ( $l_{v} > {K2} + {K} ) {{\n\t$l_{r} -- ;\n}}"),
    ("unread", "", "both", "int $l_{v} ;", "$l_{v} = $p_{x} + {K} ;"),
    ("scope", "", "both", "int $l_{v} ;", "if ( $p_{x} > {K} ) {{\n\t$l_{v} = $p_{x} * 2 ;\n\t$l_{r} += $l_{v} ;\n}}"),
    ("memleak", "stdlib", "both", "char * $l_{v} = ( char * ) malloc ( {N} ) ;",
     "if ( $p_{x} == {K} )\n\treturn {K2} ;\n$l_{v} [ 0 ] = 1 ;\n$l_{r} += $l_{v} [ 0 ] ;\nfree ( $l_{v} ) ;"),
    ("doublefree", "stdlib", "both", "char * $l_{v} = ( char * ) malloc ( {N} ) ;", "free ( $l_{v} ) ;\nfree ( $l_{v} ) ;"),
    ("useafterfree", "stdlib", "both", "int * $l_{v} = ( int * ) malloc ( sizeof ( int ) ) ;",
     "if ( $l_{v} ) {{\n\t* $l_{v} = $p_{x} ;\n\tfree ( $l_{v} ) ;\n\t$l_{r} += * $l_{v} ;\n}}"),
    ("resleak", "stdio", "both", "FILE * $l_{v} = fopen ( \"data.txt\" , \"r\" ) ;", "if ( ! $l_{v} )\n\treturn {K} ;\n$l_{r} ++ ;"),
    ("redundant_assign", "", "both", "int $l_{v} ;", "$l_{v} = {K} ;\n$l_{v} = $p_{x} ;\n$l_{r} += $l_{v} ;"),
    ("dup_expr", "", "both", "", "if ( $p_{x} == $p_{x} )\n\t$l_{r} -- ;"),
    ("dup_branch", "", "both", "", "if ( $p_{x} > {K} )\n\t$l_{r} = {K2} ;\nelse\n\t$l_{r} = {K2} ;"),
    ("unsigned_lt0", "", "both", "", "if ( $p_{u} < 0 )\n\t$l_{r} = {K} ;"),
    ("logic_op", "", "both", "", "if ( $p_{x} >= 0 || $p_{x} <= {K} ) {{\n\t$l_{r} ++ ;\n}}"),
    ("logic_and", "", "both", "", "if ( $p_{x} > {K2} + {K} && $p_{x} < {K} ) {{\n\t$l_{r} ++ ;\n}}"),
    ("opposite_inner", "", "both", "", "if ( $p_{x} > {K} ) {{\n\tif ( $p_{x} <= {K} )\n\t\t$l_{r} = 1 ;\n}}"),
    ("struct_uninit", "struct", "both", "struct $t_{S} $l_{v} ;", "$l_{v} . first = {K} ;\n$l_{r} += $l_{v} . second ;"),
    ("call_null", "deref", "both", "", "$l_{r} += $f_{deref} ( 0 ) ;"),
    ("call_div", "divide", "both", "", "$l_{r} += $f_{divide} ( $p_{x} , 0 ) ;"),
    ("addr_to_int", "", "c", "int $l_{v} ;", "$l_{v} = $p_{p} ;\n$l_{r} += $l_{v} ;"),
    ("shadow_arg", "", "both", "", "if ( $p_{x} ) {{\n\tint $l_{x} = 0 ;\n\t$l_{r} += $l_{x} ;\n}}\n$l_{r} += {K2} / $p_{x} ;"),
    ("shadow_var", "", "both", "int $l_{v} = {K} ;",
     "if ( $p_{x} > 1 ) {{\n\tint $l_{v}__in = {K2} ;\n\t$l_{r} += $l_{v}__in ;\n}}\nif ( $l_{v} == {K} ) {{\n\t$l_{r} ++ ;\n}}"),
    ("strcpy_oob", "string", "both", "char $l_{v} [ {N} ] ;", "strcpy ( $l_{v} , \"0123456789abcdef\" ) ;\n$l_{r} += $l_{v} [ 0 ] ;"),
    ("printf_args", "stdio", "both", "", "printf ( \"%s %d\\n\" , $p_{x} ) ;"),
    ("printf_sign", "stdio", "both", "", "printf ( \"%u\\n\" , $p_{x} ) ;"),
    ("dup_break", "", "both", "", "switch ( $p_{x} ) {{\ncase {K} :\n\t$l_{r} = 1 ;\n\tbreak ;\n\tbreak ;\ndefault :\n\t$l_{r} = 2 ;\n}}"),
    ("susp_semicolon", "", "both", "", "if ( $p_{x} == {K} ) ;\n{{\n\t$l_{r} ++ ;\n}}"),
    ("bitmask", "", "both", "", "if ( ( $p_{x} & 0 ) == {K} )\n\t$l_{r} ++ ;"),
    ("sizeof_ptr", "string", "both", "", "memset ( $p_{p} , 0 , sizeof ( $p_{p} ) ) ;"),
    ("self_assign", "", "both", "int $l_{v} = $p_{x} ;", "$l_{v} = $l_{v} ;\n$l_{r} += $l_{v} ;"),
    ("clarify_calc", "", "both", "", "$l_{r} = $p_{x} - {K} ? 1 : 2 ;"),
    ("ptr_arith_null", "", "both", "int * $l_{v} = 0 ;", "$l_{r} += * ( $l_{v} + {K} ) ;"),
    ("shift_neg", "", "both", "", "$l_{r} += $p_{x} << - 1 ;"),
    ("shift_big", "", "both", "", "$l_{r} += 1 << 40 ;"),
    ("int_overflow", "", "both", "int $l_{v} = 2147483647 ;", "$l_{r} = $l_{v} + 1 ;"),
    ("auto_var", "", "both", "int $l_{v} = {K} ;", "* $p_{pp} = & $l_{v} ;"),
    ("comma_return", "", "both", "", "if ( $p_{x} == {K} + 40 )\n\treturn $p_{x} ,\n\t\t{K2} ;"),
    ("const_var", "", "both", "int $l_{v} [ 2 ] = {{ 1 , 2 }} ;", "$l_{r} += $l_{v} [ 1 ] ;"),
]
FRAG = {f[0]: f for f in FRAGS}

HELPERS = {
    "deref": "static int $f_{deref} ( int * $p_{hp} )\n{{\n\treturn * $p_{hp} ;\n}}",
    "divide": "static int $f_{divide} ( int $p_{ha} , int $p_{hb} )\n{{\n\treturn $p_{ha} / $p_{hb} ;\n}}",
    "struct": "struct $t_{S} {{\n\tint first ;\n\tint second ;\n\tint third ;\n}} ;",
}
INCLUDES = {"stdlib": "#include <stdlib.h>", "stdio": "#include <stdio.h>", "string": "#include <string.h>"}

CPP_ITEMS = [
    # uninitMemberVar, functionConst / functionStatic (inconclusive), noExplicitConstructor
    ("class $t_{C} {{\npublic :\n\t$t_{C} ( int $p_{ca} ) {{ first = $p_{ca} ; }}\n\tint $f_{m1} ( ) {{ return first ; }}\n"
     "\tint $f_{m2} ( int $p_{cb} ) {{ return $p_{cb} + 1 ; }}\nprivate :\n\tint first ;\n\tint second ;\n}} ;"),
    # copy constructor / operator= missing with allocation, virtual destructor
    ("class $t_{C} {{\npublic :\n\t$t_{C} ( ) : data ( new int [ 4 ] ) {{ }}\n\t~ $t_{C} ( ) {{ delete data ; }}\n"
     "\tint $f_{m1} ( ) const {{ return data [ 4 ] ; }}\nprivate :\n\tint * data ;\n}} ;"),
]


def gen_program(seed, idx, repo, nfunc=None):
    rng = random.Random(seed * 100003 + idx)
    P = pools(repo)
    name = "g%d_%d" % (seed, idx)
    tnames = rng.sample(P["t"], 3)
    fnames = rng.sample(P["f"], len(P["f"]))
    prog_names = {"S": tnames[0], "C": tnames[1], "deref": fnames[0], "divide": fnames[1], "m1": fnames[2], "m2": fnames[3]}
    free_f = fnames[4:]
    nfunc = nfunc or rng.choice([4, 5, 6, 7])
    cpp_only = rng.random() < 0.25
    lang_pool = [f for f in FRAGS if f[2] == "both" or (f[2] == "c" and not cpp_only)]
    needs = set()
    c_only = False
    funcs = []
    calls = []
    for fi in range(nfunc):
        ln = rng.sample(P["l"], len(P["l"]))
        pn = rng.sample(P["p"], 6)
        env = dict(prog_names, r=ln[0], x=pn[0], p=pn[1], u=pn[2], pp=pn[3], hp=pn[4], ha=pn[4], hb=pn[5], ca=pn[4], cb=pn[5])
        fresh = ln[1:]
        chosen = rng.sample(lang_pool, rng.choice([2, 3, 3, 4]))
        decls, body = [], []
        uses_pp = False
        for fr in chosen:
            e = dict(env, v=fresh.pop(), v2=fresh.pop(), K=rng.choice([1, 2, 3, 5, 7, 10]), K2=rng.choice([4, 6, 8, 9]),
                     N=rng.choice([2, 3, 4, 8]))
            e["M"] = e["N"] + rng.choice([0, 1, 5])
            if fr[1]:
                needs.add(fr[1])
            if fr[2] == "c":
                c_only = True
            if "{pp}" in fr[4]:
                uses_pp = True
            if fr[3]:
                decls += fr[3].format(**e).split("\n")
            body += fr[4].format(**e).split("\n")
        fname = free_f[fi]
        sig = "int $f_%s ( int $p_%s , int * $p_%s , unsigned $p_%s%s )" % (
            fname, env["x"], env["p"], env["u"], (" , int * * $p_%s" % env["pp"]) if uses_pp else "")
        static = "static " if rng.random() < 0.3 else ""
        text = static + sig + "\n{\n\tint $l_%s = 0 ;\n" % env["r"]
        text += "".join("\t" + d + "\n" for d in decls)
        text += "".join("\t" + b + "\n" for b in body)
        text += "\treturn $l_%s ;\n}" % env["r"]
        funcs.append((fname, text, uses_pp, static))
        calls.append((fname, uses_pp))
    items = []
    for inc in sorted(needs & set(INCLUDES)):
        items.append(rc.mk_item("inc", INCLUDES[inc], pin=True))
    # a prototype for one function (declared with other / no parameter names in some programs)
    proto = rng.random() < 0.5
    if proto:
        fname, _t, upp, static = funcs[-1]
        style = rng.choice(["same", "none", "other"])
        pnm = {"same": None, "none": "", "other": "zq"}[style]
        if style == "same":
            # parameter names are chosen per function; reproduce them by parsing the definition's signature line
            sigline = funcs[-1][1].split("\n")[0]
            items.append(rc.mk_item("proto", sigline + " ;"))
        elif style == "none":
            items.append(rc.mk_item("proto", "%sint $f_%s ( int , int * , unsigned%s ) ;" % (static, fname, " , int * *" if upp else "")))
        else:
            items.append(rc.mk_item("proto", "%sint $f_%s ( int $p_n1 , int * $p_n2 , unsigned $p_n3%s ) ;" % (
                static, fname, " , int * * $p_n4" if upp else "")))
    if "struct" in needs:
        items.append(rc.mk_item("type", HELPERS["struct"].format(**prog_names)))
    # prototypes of the helpers in some programs: their definitions may then move behind their callers
    helper_protos = rng.random() < 0.5
    if helper_protos and "deref" in needs:
        items.append(rc.mk_item("proto", "static int $f_%s ( int * $p_hp ) ;" % prog_names["deref"]))
    if helper_protos and "divide" in needs:
        items.append(rc.mk_item("proto", "static int $f_%s ( int $p_ha , int $p_hb ) ;" % prog_names["divide"]))
    for h in ("deref", "divide"):
        if h in needs:
            env = dict(prog_names, hp="hp", ha="ha", hb="hb")
            items.append(rc.mk_item("func", HELPERS[h].format(**env)))
    if cpp_only:
        env = dict(prog_names, ca="ca", cb="cb")
        items.append(rc.mk_item("type", rng.choice(CPP_ITEMS).format(**env)))
    for fname, text, _u, _s in funcs:
        items.append(rc.mk_item("func", text))
    # a driver that calls some of the functions (creates declaration-order constraints)
    ncall = rng.choice([0, 1, 2, 3])
    if ncall:
        body = ""
        for fname, upp in rng.sample(calls, min(ncall, len(calls))):
            body += "\t$l_tot += $f_%s ( $p_inp , 0 , 1u%s ) ;\n" % (fname, " , 0" if upp else "")
        items.append(rc.mk_item("func", "int $f_%s ( int $p_inp )\n{\n\tint $l_tot = 0 ;\n%s\treturn $l_tot ;\n}" % (free_f[nfunc], body)))
    langs = ["cpp"] if cpp_only else (["c"] if c_only else ["c", "cpp"])
    prog = {"name": name, "langs": langs, "items": items, "origin": "generated seed=%d idx=%d" % (seed, idx)}
    rc.validate(prog, repo)
    return prog


# ------------------------------------------------------------------ samples
# role tables written by hand from reading each file (names that occur in cppcheck's messages stay fixed)
SAMPLE_ROLES = {
    "AssignmentAddressToInteger/bad.c": {"foo": "f", "p": "p", "a": "l", "i": "l"},
    "accessMoved/bad.cpp": {"foo": "f", "s": "l"},
    "arrayIndexOutOfBounds_1/bad.c": {"a": "g"},
    "arrayIndexOutOfBounds_2/bad.c": {"a": "l", "i": "l"},
    "autoVariables/bad.c": {"foo": "f", "a": "p", "b": "l", "c": "l"},
    "bufferAccessOutOfBounds/bad.c": {"str": "l"},
    "incorrectLogicOperator/bad.c": {"foo": "f", "x": "p", "dummy": "g"},
    "invalidContainer/bad.cpp": {"items": "l", "iter": "l"},
    "memleak/bad.c": {"result": "l", "a": "l"},
    "multiCondition/bad.c": {"f": "f", "b": "p"},
    "passedByValue_1/bad.cpp": {"C": "t", "s": "p", "foo": "f", "_s": "g"},
    "passedByValue_2/bad.cpp": {"foo": "f", "s": "l"},
    "resourceLeak/bad.c": {"a": "l"},
    "unreadVariable/bad.cpp": {"foo": "f", "s1": "l", "s2": "l"},
}
# passedByValue_2: `s` is the parameter of foo and a local of main - one spelling, the role per item is fixed below
SAMPLE_ITEM_ROLES = {"passedByValue_2/bad.cpp": {0: {"s": "p"}}}


def load_samples(repo):
    progs = []
    msgw = rc.message_words(repo)
    for rel in sorted(SAMPLE_ROLES):
        path = os.path.join(repo, "samples", rel)
        if not os.path.exists(path):
            continue
        with open(path) as f:
            text = f.read()
        roles = {n: r for n, r in SAMPLE_ROLES[rel].items() if r == "g" or (n not in msgw and n not in rc.KEYWORDS)}
        try:
            groups = rc.split_items(rc.parse_lines(text, roles))
        except ValueError:
            continue
        items = []
        for gi, ls in enumerate(groups):
            over = SAMPLE_ITEM_ROLES.get(rel, {}).get(gi, {})
            for ln in ls:
                ln["toks"] = [[over[t[1]], t[1]] if isinstance(t, list) and t[1] in over else t for t in ln["toks"]]
            items.append({"kind": "inc" if ls[0]["pp"] else "other", "lines": ls, "pin": ls[0]["pp"], "entity": "", "alt": {}})
        lang = "cpp" if rel.endswith(".cpp") else "c"
        prog = {"name": "sample_" + rel.split("/")[0], "langs": [lang], "items": items, "origin": "samples/" + rel}
        rc.validate(prog, repo)
        progs.append(prog)
    return progs


def corpus(seed, n, repo):
    """n programs: all samples first, the rest generated."""
    progs = load_samples(repo)[:max(0, n // 3)]
    k = 0
    while len(progs) < n:
        progs.append(gen_program(seed, k, repo))
        k += 1
    return progs
