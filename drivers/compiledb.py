"""C32 helpers: render the cases enumerated by spec/CompileDb.tla into compile_commands.json (+ probe sources), run
the unit harness / the real binary, convert what they print into observations. No verdicts here - TLC judges
(CompileDb.tla MODE=judge). The two compiler-side witnesses (/bin/sh for word splitting, gcc -### for the options)
only decide whether a case may be held against cppcheck at all.
"""
import concurrent.futures
import json
import os
import re
import shlex
import tempfile
import time

import vlib

FILEWORD = "@FILE@"
NFORMS = 7
TEMPLATE = "--template={file}:{line}:{id}"
HEADERS = {"inc": "H_INC", "sub/inc": "H_SUB_INC", "sub/sub/inc": "H_SUB_SUB_INC", "sp ace": "H_SP_ACE", "sub/sp ace": "H_SUB_SP_ACE"}


def run_cppcheck(args, cwd, timeout):
    """vlib.run_cppcheck, retried while the shared binary is being relinked by a concurrent build."""
    for _attempt in range(8):
        try:
            return vlib.run_cppcheck(args, cwd=cwd, timeout=timeout)
        except OSError:
            time.sleep(3)
    raise vlib.InfraError("cannot execute %s" % vlib.cppcheck_bin())


def dir_of(kind, root):
    """-> (value of the "directory" field, absolute directory)"""
    if kind == "abs":
        return root, root
    if kind == "abs-sub":
        return root + "/sub", root + "/sub"
    if kind == "rel-dot":
        return ".", root
    return "sub", root + "/sub"


def plan(cases, root, share=True):
    """One compilation-database entry per (case, form). -> (entries, slots) where slots[i] = (case index, form index
    1..7, absolute source path, shared). The last form of two neighbouring cases with the same directory/file kind
    names the same source file (a file that occurs twice in the database)."""
    entries, slots = [], []
    last_of_kind = {}
    for ci, c in enumerate(cases):
        dfield, dabs = dir_of(c["dirkind"], root)
        for f in range(1, NFORMS + 1):
            name = "c%d_%d.c" % (c["id"], f)
            shared = False
            if share and f == NFORMS:
                k = (c["dirkind"], c["filekind"])
                if k in last_of_kind:
                    name = last_of_kind.pop(k)
                    shared = True
                else:
                    last_of_kind[k] = name
            path = dabs + "/" + name
            fileval = name if c["filekind"] == "rel" else path
            e = {"directory": dfield, "file": fileval}
            if f == 1:
                e["arguments"] = [fileval if a == FILEWORD else a for a in c["arguments"]]
            else:
                e["command"] = c["commands"][f - 2].replace(FILEWORD, fileval)
            entries.append(e)
            slots.append((ci, f, path, shared))
    # a file is "shared" for both of its entries
    count = {}
    for _ci, _f, p, _s in slots:
        count[p] = count.get(p, 0) + 1
    slots = [(ci, f, p, count[p] > 1) for ci, f, p, _s in slots]
    return entries, slots


def norm(root, p):
    return os.path.normpath(os.path.join(root, p))


def empty_obs(cases):
    return [{"id": c["id"], "forms": [{"ok": False, "defines": "", "undefs": [], "incs": [], "std": "-", "e2e": False, "facts": []}
                                      for _ in range(NFORMS)]} for c in cases]


def assign(cases, slots, blocks_by_path):
    """blocks_by_path: {abs path: [observation dicts in order of analysis]} -> observations per case"""
    obs = empty_obs(cases)
    seen = {}
    for ci, f, path, _shared in slots:
        k = seen.get(path, 0)
        seen[path] = k + 1
        bl = blocks_by_path.get(path, [])
        if k < len(bl):
            obs[ci]["forms"][f - 1] = bl[k]
    return obs


# ----------------------------------------------------------------------------------------- unit binding
def run_unit(exe, cases, work, tag):
    root = os.path.join(work, "unit-%s" % tag)
    os.makedirs(root, exist_ok=True)
    entries, slots = plan(cases, root)
    db = os.path.join(root, "compile_commands.json")
    with open(db, "w") as f:
        json.dump(entries, f)
    rc, out, err = vlib.run([exe, db], cwd=root, timeout=1800)
    if rc is None:
        raise vlib.InfraError("compiledb_harness timed out")
    blocks = {}
    lines = out.splitlines()
    ok = rc == 0 and lines and json.loads(lines[0]).get("ok")
    if ok:
        for ln in lines[1:]:
            o = json.loads(ln)
            blocks.setdefault(norm(root, o["file"]), []).append(
                {"ok": True, "defines": o["defines"], "undefs": o["undefs"], "incs": [norm(root, p) for p in o["incs"]],
                 "std": o["std"], "e2e": False, "facts": []})
    return assign(cases, slots, blocks), root, len(entries)


# ----------------------------------------------------------------------------------------- end to end
def probe_source(probes):
    """-> (text, {line: fact})"""
    out = ['#include "h_%s.h"' % d.replace("/", "_").replace(" ", "_") for d in HEADERS]
    where = {}
    for k, p in enumerate(probes):
        out.append("#if %s" % p["cond"])
        out.append("void p%d(void) { char a[2]; a[2] = 0; }" % k)
        where[len(out)] = p["fact"]
        out.append("#endif")
    return "\n".join(out) + "\n", where


def parse_verbose(stdout, root):
    """-> {abs path: [ {defines, undefs, incs} in order ]}"""
    blocks = {}
    lines = stdout.splitlines()
    i = 0
    while i < len(lines):
        m = re.match(r"^Checking (.*) \.\.\.$", lines[i])
        if m and i + 3 < len(lines) and lines[i + 1].startswith("Defines:") and lines[i + 2].startswith("Undefines:") and lines[i + 3].startswith("Includes:"):
            undefs = [u.strip() for u in lines[i + 2][len("Undefines:"):].split(";") if u.strip()]
            incs = [norm(root, p) for p in lines[i + 3][len("Includes:"):].split(" -I") if p.strip()]
            blocks.setdefault(norm(root, m.group(1)), []).append({"defines": lines[i + 1][len("Defines:"):], "undefs": undefs, "incs": incs})
            i += 4
        else:
            i += 1
    return blocks


def run_e2e_chunk(cases, probes, work, tag, absolute_project):
    root = os.path.join(work, "e2e-%s" % tag)
    for d in ("", "sub"):
        os.makedirs(os.path.join(root, d), exist_ok=True)
    for d, macro in HEADERS.items():
        os.makedirs(os.path.join(root, d), exist_ok=True)
        with open(os.path.join(root, d, "h_%s.h" % d.replace("/", "_").replace(" ", "_")), "w") as f:
            f.write("#define %s 1\n" % macro)
    entries, slots = plan(cases, root)
    text, where = probe_source(probes)
    for _ci, _f, path, _sh in slots:
        if not os.path.exists(path):
            with open(path, "w") as f:
                f.write(text)
    db = os.path.join(root, "compile_commands.json")
    with open(db, "w") as f:
        json.dump(entries, f, indent=0)
    proj = db if absolute_project else "compile_commands.json"
    rc, out, err = run_cppcheck(["--project=" + proj, "-v", "-j1", TEMPLATE], cwd=root, timeout=3000)
    if rc is None:
        raise vlib.InfraError("cppcheck timed out on generated project %s" % root)
    blocks = parse_verbose(out, root)
    facts = {}
    for ln in err.splitlines():
        m = re.match(r"^(.*):(\d+):arrayIndexOutOfBounds$", ln.strip())
        if m and int(m.group(2)) in where:
            facts.setdefault(norm(root, m.group(1)), set()).add(where[int(m.group(2))])
    shared = {p for _ci, _f, p, sh in slots if sh}
    full = {}
    for path, bl in blocks.items():
        full[path] = [dict(b, ok=True, std="-", e2e=path not in shared, facts=sorted(facts.get(path, ())) if path not in shared else []) for b in bl]
    return assign(cases, slots, full), len(entries), rc


def run_e2e(cases, probes, work, chunk=120, jobs=4):
    chunks = [cases[i:i + chunk] for i in range(0, len(cases), chunk)]

    def one(k):
        return run_e2e_chunk(chunks[k], probes, work, str(k), absolute_project=(k % 2 == 1))
    obs, n = [], 0
    with concurrent.futures.ThreadPoolExecutor(max_workers=jobs) as ex:
        for o, ne, _rc in ex.map(one, range(len(chunks))):
            obs += o
            n += ne
    return obs, n


# ----------------------------------------------------------------------------------------- witnesses
def sh_disagreements(cases, work):
    """POSIX sh must split every generated command string into exactly the words of the arguments form.
    -> set of (case id, form index) on which it does not (those renderings are not held against cppcheck)."""
    fd, script = tempfile.mkstemp(prefix="shwitness.", suffix=".sh", dir=work)   # called from several threads
    os.close(fd)
    with open(script, "w") as f:
        for c in cases:
            for k, cmd in enumerate(c["commands"]):
                f.write("printf '%%s\\037' %s\nprintf '\\036'\n" % cmd)
    rc, out, err = vlib.run(["/bin/sh", script], cwd=work, timeout=600)
    if rc != 0:
        raise vlib.InfraError("sh witness failed rc=%s: %s" % (rc, err[-500:]))
    recs = out.split("\x1e")
    bad = set()
    n = 0
    for c in cases:
        for k, _cmd in enumerate(c["commands"]):
            words = recs[n].split("\x1f")[:-1] if n < len(recs) else None
            n += 1
            if words != c["arguments"]:
                bad.add((c["id"], k + 2))
    return bad


def gcc_options(arguments, cwd):
    """What gcc itself passes to its compiler proper for these arguments (gcc -###). -> dict or None"""
    args = [a for a in arguments[1:]]
    rc, out, err = vlib.run(["gcc", "-###"] + args, cwd=cwd, timeout=60)
    line = None
    for ln in (err + "\n" + out).splitlines():
        if re.search(r"/cc1(plus)?\"? ", ln) or " cc1 " in ln:
            line = ln
            break
    if line is None:
        return None
    try:
        toks = shlex.split(line)
    except ValueError:
        return None
    res = {"defs": [], "undefs": [], "incs": [], "std": ""}
    i = 0
    while i < len(toks):
        t = toks[i]
        if t in ("-D", "-U", "-I") and i + 1 < len(toks):
            {"-D": res["defs"], "-U": res["undefs"], "-I": res["incs"]}[t].append(toks[i + 1])
            i += 2
            continue
        if t.startswith("-std="):
            res["std"] = t[5:]
        elif t in ("-isystem", "-o", "-MF", "-MT", "-MQ", "-include", "-imacros", "-iquote", "-idirafter", "-dumpbase", "-dumpbase-ext",
                   "-dumpdir", "-auxbase", "-auxbase-strip", "-iprefix", "-isysroot", "-imultiarch", "-imultilib"):
            i += 2
            continue
        i += 1
    # the user's macros: gcc adds none by itself with -D on the cc1 line except those we gave (plus _REENTRANT for -pthread)
    res["defs"] = [d for d in res["defs"] if d != "_REENTRANT"]
    return res


def gcc_agrees(bad, root_for_gcc):
    """Does gcc read the argument vector the way the specification does? expected = bad['expected'] (from TLC)."""
    os.makedirs(root_for_gcc, exist_ok=True)
    fn = os.path.join(root_for_gcc, "w.c")
    if not os.path.exists(fn):
        with open(fn, "w") as f:
            f.write("int x;\n")
    args = ["w.c" if a == FILEWORD else a for a in bad["arguments"]]
    g = gcc_options(args, root_for_gcc)
    if g is None:
        return None
    want_defs = [d for d in bad["expected"]["defines"].split(";") if d]
    got_defs = [d if "=" in d else d + "=1" for d in g["defs"]]
    want_incs = [os.path.basename(p.rstrip("/")) for p in bad["expected"]["incs"]]
    got_incs = [os.path.basename(p.rstrip("/")) for p in g["incs"]]
    return (want_defs == got_defs and sorted(bad["expected"]["undefs"]) == sorted(g["undefs"]) and want_incs == got_incs
            and bad["expected"]["std"] == {"c90": "c89"}.get(g["std"], g["std"]))   # gcc spells -std=c89 as c90 for cc1
