"""C30 helpers: render the cases enumerated by spec/LibValid.tla into .cfg / C source / harness input, run the real
code, convert what it printed into observations (ndjson). No verdicts here - TLC judges (LibValid.tla, MODE=judge...).
"""
import concurrent.futures
import os
import random
import re
import time

import vlib

TEMPLATE = "--template={file}:{line}:{id}"


def run_cppcheck(args, cwd, timeout):
    """vlib.run_cppcheck, retried while the shared binary is being relinked by a concurrent build."""
    for attempt in range(8):
        try:
            return vlib.run_cppcheck(args, cwd=cwd, timeout=timeout)
        except OSError:
            time.sleep(3)
    raise vlib.InfraError("cannot execute %s" % vlib.cppcheck_bin())


# ----------------------------------------------------------------------------------------- <valid> cases
def fname(case):
    return "f%d" % case["id"]


def cfg_function(case):
    """<function> declaring the case's <valid> on argument nr pos (pos 2: argument 1 is unrestricted)."""
    args = ""
    if case["pos"] == 2:
        args += '<arg nr="1"/>'
    args += '<arg nr="%d"><valid>%s</valid></arg>' % (case["pos"], case["valid"])
    return '  <function name="%s"><noreturn>false</noreturn>%s</function>' % (fname(case), args)


def render_cfg(cases):
    return '<?xml version="1.0"?>\n<def format="2">\n' + "\n".join(cfg_function(c) for c in cases) + "\n</def>\n"


def harness_input(cases):
    lines = []
    for c in cases:
        parts = [str(c["id"]), fname(c), str(c["pos"]), str(c["pos"]), str(len(c["args"]))]
        for a in c["args"]:
            parts += [a["form"], a["text"]]
        lines.append(" ".join(parts))
    return "\n".join(lines) + "\n"


def run_unit(exe, cases, work, tag):
    """-> observations [{id, got:[0/1...]}] in the order of cases."""
    cfg = os.path.join(work, "unit-%s.cfg" % tag)
    inp = os.path.join(work, "unit-%s.txt" % tag)
    with open(cfg, "w") as f:
        f.write(render_cfg(cases))
    with open(inp, "w") as f:
        f.write(harness_input(cases))
    rc, out, err = vlib.run([exe, cfg, inp], cwd=work, timeout=1800)
    if rc is None:
        raise vlib.InfraError("libvalid_harness timed out")
    lines = out.splitlines()
    if not lines or not lines[0].startswith("LOAD "):
        raise vlib.InfraError("libvalid_harness gave no LOAD line (rc=%s): %s" % (rc, (out + err)[-500:]))
    load = lines[0].split(" ", 2)
    got = {}
    for ln in lines[1:]:
        p = ln.split()
        if len(p) >= 1 and p[0].lstrip("-").isdigit():
            got[int(p[0])] = p[1:]
    obs = []
    for c in cases:
        g = got.get(c["id"])
        if rc != 0 or int(load[1]) != 0 or g is None or len(g) != len(c["args"]) or "ERROR" in g:
            # the generated configuration is in the documented grammar: a rejected load / a crash is an observation
            # "nothing accepted, nothing rejected" that cannot satisfy the judge -> encoded as 2 (neither 0 nor 1)
            obs.append({"id": c["id"], "got": [2] * len(c["args"]), "load": load[1:], "rc": rc})
        else:
            obs.append({"id": c["id"], "got": [int(x) for x in g]})
    return obs


def call_lines(case, lang):
    """One source line per (argument, style). Returns [(text, argindex, style)]."""
    f = fname(case)
    pre = "1, " if case["pos"] == 2 else ""
    res = []
    for j, a in enumerate(case["args"]):
        res.append(("  %s(%s%s);" % (f, pre, a["text"]), j, "lit"))
        ty = "int" if a["form"] == "int" else "double"
        res.append(("  { %s v = %s; %s(%sv); }" % (ty, a["text"], f, pre), j, "var"))
    return res


def render_source(cases, lang):
    """-> (text, {line: (caseindex, argindex, style)})"""
    out = []
    where = {}
    for c in cases:
        params = "double a1" if c["pos"] == 1 else "int a1, double a2"
        out.append("void %s(%s);" % (fname(c), params))
    for ci, c in enumerate(cases):
        out.append("void t%d(void) {" % c["id"])
        for text, j, style in call_lines(c, lang):
            out.append(text)
            where[len(out)] = (ci, j, style)
        out.append("}")
    return "\n".join(out) + "\n", where


def parse_findings(text, basename):
    """'{file}:{line}:{id}' lines -> {line: set(ids)}"""
    res = {}
    for ln in text.splitlines():
        m = re.match(r"^(.*):(\d+):([A-Za-z_][A-Za-z0-9_]*)$", ln.strip())
        if m and os.path.basename(m.group(1)) == basename:
            res.setdefault(int(m.group(2)), set()).add(m.group(3))
    return res


def run_e2e_chunk(cases, work, tag, lang):
    d = os.path.join(work, "e2e-%s" % tag)
    os.makedirs(d, exist_ok=True)
    src = "t.c" if lang == "c" else "t.cpp"
    text, where = render_source(cases, lang)
    with open(os.path.join(d, "user.cfg"), "w") as f:
        f.write(render_cfg(cases))
    with open(os.path.join(d, src), "w") as f:
        f.write(text)
    rc, out, err = run_cppcheck(["-q", "--library=user.cfg", TEMPLATE, src], cwd=d, timeout=1800)
    if rc is None:
        raise vlib.InfraError("cppcheck timed out on generated source %s" % d)
    found = parse_findings(err + "\n" + out, src)
    # a run that did not analyse the file (crash, configuration rejected) observed nothing: encode as 2
    broken = rc != 0 or "Failed to load library" in (out + err)
    obs = {"lit": [], "var": []}
    per = {}
    for line, (ci, j, style) in where.items():
        per[(ci, j, style)] = 0 if "invalidFunctionArg" in found.get(line, ()) else 1
    for style in ("lit", "var"):
        for ci, c in enumerate(cases):
            got = [2 if broken else per[(ci, j, style)] for j in range(len(c["args"]))]
            o = {"id": c["id"], "got": got}
            if broken:
                o["rc"] = rc
                o["msg"] = (out + err)[-300:]
            obs[style].append(o)
    return obs, len(where)


def run_e2e(cases, work, chunk=250, jobs=4):
    """-> ({style: observations in the order of cases}, number of call lines analysed)"""
    chunks = [cases[i:i + chunk] for i in range(0, len(cases), chunk)]
    res = [None] * len(chunks)

    def one(k):
        return run_e2e_chunk(chunks[k], work, str(k), "c" if k % 2 == 0 else "cpp")
    with concurrent.futures.ThreadPoolExecutor(max_workers=jobs) as ex:
        for k, r in zip(range(len(chunks)), ex.map(one, range(len(chunks)))):
            res[k] = r
    obs = {"lit": [], "var": []}
    nlines = 0
    for o, n in res:
        obs["lit"] += o["lit"]
        obs["var"] += o["var"]
        nlines += n
    return obs, nlines


# ----------------------------------------------------------------------------------------- not-null / not-bool
def flag_fname(c):
    return "g%d" % c["id"]


def render_flags_cfg(cases):
    out = ['<?xml version="1.0"?>', '<def format="2">']
    for c in cases:
        args = '<arg nr="1"/>' if c["pos"] == 2 else ""
        args += '<arg nr="%d">%s</arg>' % (c["pos"], "".join("<%s/>" % fl for fl in c["flags"]))
        out.append('  <function name="%s"><noreturn>false</noreturn>%s</function>' % (flag_fname(c), args))
    out.append("</def>")
    return "\n".join(out) + "\n"


def render_flags_source(cases):
    out = ["#define NULL ((void*)0)"]
    where = {}
    for c in cases:
        pty = "const char *" if c["param"] == "ptr" else "int "
        params = (pty + "a1") if c["pos"] == 1 else ("int a1, " + pty + "a2")
        out.append("void %s(%s);" % (flag_fname(c), params))
    for c in cases:
        out.append("void t%d(int a, int b) {" % c["id"])
        if c["decl"]:
            out.append("  " + c["decl"])
        out.append("  %s(%s%s);" % (flag_fname(c), "1, " if c["pos"] == 2 else "", c["text"]))
        where[len(out)] = c["id"]
        out.append("}")
    return "\n".join(out) + "\n", where


def run_flags(cases, work):
    """-> {id: sorted ids at the call line}"""
    res = {}
    for lang in ("c", "cpp"):
        sel = [c for c in cases if c["lang"] == lang]
        if not sel:
            continue
        d = os.path.join(work, "flags-" + lang)
        os.makedirs(d, exist_ok=True)
        src = "t.c" if lang == "c" else "t.cpp"
        text, where = render_flags_source(sel)
        if lang == "cpp":
            text = text.replace("#define NULL ((void*)0)", "#define NULL 0")
        with open(os.path.join(d, "user.cfg"), "w") as f:
            f.write(render_flags_cfg(sel))
        with open(os.path.join(d, src), "w") as f:
            f.write(text)
        rc, out, err = run_cppcheck(["-q", "--library=user.cfg", TEMPLATE, src], cwd=d, timeout=600)
        if rc is None:
            raise vlib.InfraError("cppcheck timed out on the not-null/not-bool source")
        found = parse_findings(err + "\n" + out, src)
        for line, cid in where.items():
            ids = sorted(found.get(line, ()))
            if rc != 0 or "Failed to load library" in (out + err):
                ids = ["<run failed rc=%s>" % rc]
            res[cid] = ids
    return res


WITNESS_CPP = r"""
#include <cstdio>
#include <type_traits>
template <class T> struct is_boolish : std::is_same<typename std::decay<T>::type, bool> {};
template <class T> static bool nullish(T v, std::true_type) { return v == nullptr; }
template <class T> static bool nullish(T, std::false_type) { return false; }
template <class T> static bool nullish(T v) {
    return nullish(v, std::integral_constant<bool, std::is_pointer<T>::value || std::is_same<T, std::nullptr_t>::value>());
}
"""


def compiler_witness(kinds, work):
    """Second witness for the two semantic attributes of every argument kind: g++ says whether the expression has
    type bool (truth valued) and a run says whether it is a null pointer. The integer literal 0 is a null pointer
    constant by the language definition (it is an int for the compiler's overload resolution): taken as null when
    g++ accepts `const char *q = 0;` style initialisation, which is checked separately.
    -> {name: {"null": b, "bool": b}} or None if no compiler is available."""
    src = [WITNESS_CPP, "#define NULL nullptr"]
    for i, k in enumerate(kinds):
        src.append("static void k%d(int a, int b) {" % i)
        if k["decl"]:
            src.append("  " + k["decl"])
        if k["ptr"]:
            # as the argument of a pointer parameter: what pointer value arrives?
            src.append("  const char *arrived = %s;" % k["text"])
            src.append('  std::printf("%s %%d %%d\\n", (int)(arrived == nullptr), (int)is_boolish<decltype(%s)>::value);' % (k["name"], k["text"]))
        else:
            src.append('  std::printf("%s 0 %%d\\n", (int)is_boolish<decltype(%s)>::value);' % (k["name"], k["text"]))
        src.append("}")
    src.append("int main() {")
    for i in range(len(kinds)):
        src.append("  k%d(3, 4);" % i)
    src.append("  return 0; }")
    p = os.path.join(work, "witness.cpp")
    with open(p, "w") as f:
        f.write("\n".join(src) + "\n")
    exe = os.path.join(work, "witness")
    rc, out, err = vlib.run(["g++", "-std=c++11", "-w", "-o", exe, p], cwd=work, timeout=120)
    if rc != 0:
        return None, (out + err)[-1500:]
    rc, out, err = vlib.run([exe], cwd=work, timeout=30)
    if rc != 0:
        return None, "witness program rc=%s" % rc
    res = {}
    for ln in out.splitlines():
        p = ln.split()
        if len(p) == 3:
            res[p[0]] = {"null": p[1] == "1", "bool": p[2] == "1"}
    return res, ""


# ----------------------------------------------------------------------------------------- loading
ELEMENTS = ["def", "function", "arg", "valid", "not-null", "not-bool", "not-uninit", "minsize", "noreturn", "returnValue",
            "use-retval", "leak-ignore", "formatstr", "strz", "memory", "resource", "alloc", "dealloc", "use", "realloc",
            "container", "size", "access", "other", "type", "rangeItemRecordType", "member", "podtype", "define", "markup",
            "keywords", "keyword", "exported", "exporter", "prefix", "suffix", "imported", "importer", "codeblocks", "block",
            "structure", "offset", "platformtype", "platform", "unsigned", "long", "pointer", "const_ptr", "ptr_ptr",
            "smart-pointer", "unique", "type-checks", "unusedvar", "check", "suppress", "checkFiniteLifetime", "reflection",
            "call", "entrypoint", "warn", "pure", "const", "iterator", "not-overlapping-data", "nonstd"]
ATTRS = ["name", "nr", "value", "type", "arg", "arg2", "default", "direction", "indirect", "format", "id", "startPattern",
         "endPattern", "inherits", "opLessAllowed", "itEndPattern", "hasInitializerListConstructor", "view", "action",
         "yields", "templateParameter", "end-pattern", "init", "buffer-size", "sign", "size", "ext", "reporterrors",
         "aftercode", "start", "end", "offset", "severity", "cstd", "reason", "alternatives", "class-name", "container",
         "string", "associative", "unstable", "stdtype", "baseType", "strlen", "indexOperator", "returnType", "unknownValues",
         "minsize", "container-index", "ptr-arg", "size-arg", "count-arg", "sizeof-arg", "access-arg", "no-arg"]
VALUES = ["", "0", "1", "-1", "2", "any", "variadic", "99999999999999999999", "-99999999999999999999", "1e999", "abc", "true", "false",
          "in", "out", "inout", "strlen", "argvalue", "sizeof", "mul", "value", "malloc", "calloc", "strdup", "malloc:1", "calloc:1,2",
          "malloc:x", "printf", "scanf", "std-like", "array-like", "resize", "push", "pop", "find", "at_index", "item", "buffer",
          "start-iterator", "end-iterator", "size", "empty", "%name% <", "> !!::", "(", "[", "<", "&", "\x01", "0:10", "1::2", ":",
          "!0.0", "1,", ",", "-", "--1", "1-1", ".5", "5.", "1e", "int", "signed int", "stdContainer", "nosuch", "c99", "c++11",
          "style", "error", "bogus"]


def _attr_positions(text):
    return [m for m in re.finditer(r'\s([A-Za-z_][\w:-]*)="([^"]*)"', text)]


def mutate_cfg(text, rnd):
    """One seeded syntactic mutation of a configuration text. -> (kind, new text)"""
    kind = rnd.choice(["attr-delete", "attr-dup", "attr-value", "attr-rename", "elem-rename-open", "elem-rename-both",
                       "truncate", "line-delete", "line-dup", "line-swap", "number", "text", "bytes", "elem-unclose",
                       "attr-value", "number", "text", "elem-rename-both", "attr-delete", "splice", "text-empty", "text-empty", "elem-empty"])
    attrs = _attr_positions(text)
    lines = text.split("\n")
    if kind == "attr-delete" and attrs:
        m = rnd.choice(attrs)
        return kind, text[:m.start()] + text[m.end():]
    if kind == "attr-dup" and attrs:
        m = rnd.choice(attrs)
        return kind, text[:m.end()] + m.group(0) + text[m.end():]
    if kind == "attr-value" and attrs:
        m = rnd.choice(attrs)
        return kind, text[:m.start(2)] + rnd.choice(VALUES) + text[m.end(2):]
    if kind == "attr-rename" and attrs:
        m = rnd.choice(attrs)
        return kind, text[:m.start(1)] + rnd.choice(ATTRS) + text[m.end(1):]
    if kind in ("elem-rename-open", "elem-rename-both", "elem-unclose"):
        tags = list(re.finditer(r"<([A-Za-z][\w-]*)", text))
        if tags:
            m = rnd.choice(tags)
            new = rnd.choice(ELEMENTS)
            if kind == "elem-rename-open":
                return kind, text[:m.start(1)] + new + text[m.end(1):]
            if kind == "elem-unclose":
                e = text.find(">", m.end())
                if e > 0 and text[e - 1] == "/":
                    return kind, text[:e - 1] + text[e:]
                return kind, text[:m.start()] + text[m.start():].replace("</%s>" % m.group(1), "", 1)
            # rename this element and the next matching close tag (keeps the document well-formed for flat elements)
            rest = text[m.end(1):]
            rest = rest.replace("</%s>" % m.group(1), "</%s>" % new, 1) if not re.match(r"[^<>]*/>", rest) else rest
            return kind, text[:m.start(1)] + new + rest
    if kind == "truncate":
        return kind, text[:rnd.randrange(len(text))]
    if kind == "line-delete" and len(lines) > 3:
        i = rnd.randrange(len(lines))
        return kind, "\n".join(lines[:i] + lines[i + 1:])
    if kind == "line-dup" and len(lines) > 3:
        i = rnd.randrange(len(lines))
        return kind, "\n".join(lines[:i] + [lines[i]] + lines[i:])
    if kind == "line-swap" and len(lines) > 3:
        i, j = rnd.randrange(len(lines)), rnd.randrange(len(lines))
        lines[i], lines[j] = lines[j], lines[i]
        return kind, "\n".join(lines)
    if kind == "splice" and len(lines) > 10:
        i, j = sorted((rnd.randrange(len(lines)), rnd.randrange(len(lines))))
        k = rnd.randrange(len(lines))
        return kind, "\n".join(lines[:k] + lines[i:min(j, i + 40)] + lines[k:])
    if kind == "number":
        nums = list(re.finditer(r"-?\d+(\.\d+)?", text))
        if nums:
            m = rnd.choice(nums)
            return kind, text[:m.start()] + rnd.choice(["", "-", "99999999999999999999999", "-0", "1e9999", "0x10", "1.2.3", "1:2:3", "٣", "+1", "1-", " "]) + text[m.end():]
    if kind == "text-empty":
        # <x ...>some text</x>  ->  <x .../>
        texts = list(re.finditer(r"<([A-Za-z][\w-]*)((?:\s[^<>]*)?)>([^<>]*)</\1>", text))
        if texts:
            m = rnd.choice(texts)
            return kind, text[:m.start()] + "<%s%s/>" % (m.group(1), m.group(2)) + text[m.end():]
    if kind == "elem-empty":
        # an element with children loses all of them
        opens = list(re.finditer(r"<([A-Za-z][\w-]*)((?:\s[^<>/]*)?)>", text))
        if opens:
            m = rnd.choice(opens)
            e = text.find("</%s>" % m.group(1), m.end())
            if e > 0 and e - m.end() < 4000:
                return kind, text[:m.start()] + "<%s%s/>" % (m.group(1), m.group(2)) + text[e + len(m.group(1)) + 3:]
    if kind == "text":
        texts = list(re.finditer(r">([^<>\n]+)<", text))
        if texts:
            m = rnd.choice(texts)
            return kind, text[:m.start(1)] + rnd.choice(VALUES) + text[m.end(1):]
    # bytes: overwrite a few bytes with arbitrary ones
    b = bytearray(text.encode("utf-8", "surrogateescape"))
    if b:
        for _ in range(rnd.randrange(1, 6)):
            b[rnd.randrange(len(b))] = rnd.randrange(256)
    return "bytes", b.decode("utf-8", "surrogateescape")


def random_xml(rnd, depth=0):
    """A random well-formed-ish document over the element and attribute vocabulary of the format."""
    def elem(d):
        name = rnd.choice(ELEMENTS)
        attrs = "".join(' %s="%s"' % (rnd.choice(ATTRS), rnd.choice(VALUES).replace("<", "&lt;").replace("&", "&amp;").replace("\x01", ""))
                        for _ in range(rnd.randrange(0, 4)))
        if d > 3 or rnd.random() < 0.3:
            return "<%s%s/>" % (name, attrs)
        if rnd.random() < 0.3:
            return "<%s%s>%s</%s>" % (name, attrs, rnd.choice(VALUES).replace("<", "&lt;").replace("&", "&amp;").replace("\x01", ""), name)
        return "<%s%s>%s</%s>" % (name, attrs, "".join(elem(d + 1) for _ in range(rnd.randrange(1, 5))), name)
    body = "".join(elem(1) for _ in range(rnd.randrange(1, 8)))
    root = "def" if rnd.random() < 0.9 else rnd.choice(ELEMENTS)
    fmt = rnd.choice(['', ' format="1"', ' format="2"', ' format="3"', ' format="x"'])
    return '<?xml version="1.0"?>\n<%s%s>%s</%s>\n' % (root, fmt, body, root)


def load_inputs(seed, n_mut, n_rand, repo):
    """Seeded list of (name, kind, text)."""
    rnd = random.Random(seed)
    cfgdir = os.path.join(repo, "cfg")
    shipped = sorted(fn for fn in os.listdir(cfgdir) if fn.endswith(".cfg"))
    res = []
    for i in range(n_mut):
        fn = rnd.choice(shipped)
        with open(os.path.join(cfgdir, fn), "rb") as f:
            text = f.read().decode("utf-8", "surrogateescape")
        # mutate near the start of big files as often as anywhere else: work on a window, keep the rest
        kind, new = mutate_cfg(text, rnd)
        if rnd.random() < 0.25:
            kind2, new = mutate_cfg(new, rnd)
            kind += "+" + kind2
        res.append(("mut%05d-%s" % (i, fn), kind, new))
    for i in range(n_rand):
        res.append(("rand%05d.cfg" % i, "random-xml", random_xml(rnd)))
    return res


def run_loads(inputs, work, jobs=4, harness=None):
    """Load every configuration text with the real binary. -> observations for LibValid.tla MODE=judgeload.
    cppcheck always loads its own std.cfg first, so a variant of std.cfg is rejected at its first <define> as a
    duplicate and the rest of the text is never read: those variants go through Library::load in the unit harness
    (one process per text), which has nothing preloaded."""
    d = os.path.join(work, "load")
    os.makedirs(d, exist_ok=True)
    with open(os.path.join(d, "empty.c"), "w") as f:
        f.write("void t(void) {}\n")
    with open(os.path.join(d, "nocases.txt"), "w") as f:
        f.write("")

    def one(item):
        name, kind, text = item
        p = os.path.join(d, name)
        with open(p, "wb") as f:
            f.write(text.encode("utf-8", "surrogateescape"))
        if harness and name.endswith("-std.cfg"):
            rc, out, err = vlib.run([harness, p, "nocases.txt"], cwd=d, timeout=120)
            m = re.match(r"LOAD (\d+)", out)
            if rc == 0 and m:
                loaded = m.group(1) in ("0", "3")
                rc, msg = (0 if loaded else 1), not loaded
            else:
                msg = False
            allout = out + err
            via = "harness"
        else:
            rc, out, err = run_cppcheck(["-q", "--library=" + p, "empty.c"], cwd=d, timeout=120)
            allout = out + err
            msg = bool(re.search(r"^cppcheck: ", allout, re.M))
            via = "binary"
        os.unlink(p)
        return {"name": name, "kind": kind, "via": via, "rc": -1 if (rc is None or rc < 0) else rc, "signal": -rc if (rc is not None and rc < 0) else 0,
                "timeout": rc is None, "msg": msg, "out": allout[-300:]}
    with concurrent.futures.ThreadPoolExecutor(max_workers=jobs) as ex:
        return list(ex.map(one, inputs))


# ----------------------------------------------------------------------------------------- minimising a fatal configuration
def load_once(text, d, name="min.cfg", harness=None):
    """-> (signal or 0, timeout, output tail) of loading one configuration text with the real binary (or the harness)"""
    p = os.path.join(d, name)
    with open(p, "wb") as f:
        f.write(text.encode("utf-8", "surrogateescape"))
    if harness:
        rc, out, err = vlib.run([harness, p, "nocases.txt"], cwd=d, timeout=120)
    else:
        rc, out, err = run_cppcheck(["-q", "--library=" + p, "empty.c"], cwd=d, timeout=120)
    return (-rc if (rc is not None and rc < 0) else 0), rc is None, (out + err)[-300:]


def _ddmin(items, test, budget):
    """Classic ddmin over a list; test(list) -> True if the failure persists. budget: [remaining runs]."""
    n = 2
    while len(items) >= 2 and budget[0] > 0:
        size = max(1, len(items) // n)
        chunks = [items[i:i + size] for i in range(0, len(items), size)]
        reduced = False
        for i in range(len(chunks)):
            if budget[0] <= 0:
                break
            rest = [x for j, c in enumerate(chunks) if j != i for x in c]
            budget[0] -= 1
            if rest and test(rest):
                items = rest
                n = max(n - 1, 2)
                reduced = True
                break
        if not reduced:
            if size == 1:
                break
            n = min(len(items), n * 2)
    return items


def minimise(text, d, signal, budget=160, harness=None):
    """Shrink a configuration text that kills the loader with `signal`, keeping that outcome. Works on the element tree
    if the text is well-formed XML, on lines otherwise. -> (minimal text, signature path)"""
    import xml.etree.ElementTree as ET
    left = [budget]

    def fails(t):
        sig, _to, _o = load_once(t, d, harness=harness)
        return sig == signal
    try:
        root = ET.fromstring(text.encode("utf-8", "surrogateescape"))
    except Exception:
        lines = text.split("\n")
        lines = _ddmin(lines, lambda ls: fails("\n".join(ls)), left)
        return "\n".join(lines), "not-well-formed"

    def ser():
        return ET.tostring(root, encoding="unicode")

    def shrink(el):
        kids = list(el)
        if len(kids) > 0:
            def test(sub):
                for k in list(el):
                    el.remove(k)
                for k in sub:
                    el.append(k)
                ok = fails(ser())
                return ok
            keep = _ddmin(kids, test, left) if len(kids) > 1 else kids
            # ddmin leaves el with the last tested children: restore the kept ones
            for k in list(el):
                el.remove(k)
            for k in keep:
                el.append(k)
            if len(keep) == 1 and left[0] > 0:
                left[0] -= 1
                el.remove(keep[0])
                if not fails(ser()):
                    el.append(keep[0])
        for name in list(el.attrib):
            if left[0] <= 0:
                break
            v = el.attrib.pop(name)
            left[0] -= 1
            if not fails(ser()):
                el.attrib[name] = v
        if el.text and el.text.strip() and left[0] > 0:
            t = el.text
            el.text = None
            left[0] -= 1
            if not fails(ser()):
                el.text = t
        for k in list(el):
            k.tail = None
            shrink(k)
    shrink(root)

    # canonical names: an element / attribute value that does not matter for the failure becomes "x"
    for el in root.iter():
        if left[0] <= 0:
            break
        if el is not root and el.tag != "x":
            t = el.tag
            el.tag = "x"
            left[0] -= 1
            if not fails(ser()):
                el.tag = t
        for name in list(el.attrib):
            if el.attrib[name] != "x" and left[0] > 0:
                v = el.attrib[name]
                el.attrib[name] = "x"
                left[0] -= 1
                if not fails(ser()):
                    el.attrib[name] = v

    def path(el):
        s = el.tag + "".join("@" + a for a in sorted(el.attrib)) + ("#text" if (el.text and el.text.strip()) else "")
        kids = [path(k) for k in el]
        return s + ("/" + "+".join(kids) if kids else "")
    out = ser()
    if not fails(out):
        return text, "unstable"
    return out, path(root)
