"""Shared orchestration of the MiniC checks C01-C04: generate programs, run cppcheck, convert facts, run TLC on
spec/MiniC.tla, run the native second witness.  Python only moves data; every verdict comes from TLC."""
import json
import os
import random
import re
import shutil
import sys
from concurrent.futures import ThreadPoolExecutor

HERE = os.path.dirname(os.path.abspath(__file__))
sys.path.insert(0, HERE)
sys.path.insert(0, os.path.join(os.path.dirname(HERE), "lib"))

import dump2facts  # noqa: E402
import minic_gen  # noqa: E402
import minic_types as T  # noqa: E402
import render  # noqa: E402
import vlib  # noqa: E402

TU_SIZE = 50          # functions (programs) per translation unit
WORKERS = 6


# ------------------------------------------------------------------------------------------------ core programs
def core_trees(maxlen=2):
    """All programs of ProgGenCore!CorePrograms(maxlen), enumerated by TLC (trees)."""
    work = vlib.mktmp("core")
    out = os.path.join(work, "core.ndjson")
    r = vlib.tlc("ProgGenCore", "ProgGenCore.cfg", env={"OUT": out, "MAXLEN": str(maxlen)}, workers=1, timeout=900)
    if not r.ok:
        raise vlib.InfraError("ProgGenCore failed rc=%s\n%s" % (r.rc, r.out[-3000:]))
    rows = vlib.read_ndjson(out)
    shutil.rmtree(work, ignore_errors=True)
    return rows


def flatten_core(tree, name, plat):
    """Number the nodes of a core program tree (int f(int a) { int x; ... }) and annotate the types."""
    prog = minic_gen.Prog(name, plat, "core")
    c = minic_gen.FnCtx(prog, 1, None, "int")
    c.add_var("a", "int", param=True)
    c.add_var("x", "int")

    def ex(t):
        k = t["k"]
        if k == "num":
            return c.num(t["v"])
        if k == "var":
            return c.var(t["v"])
        if k == "un":
            return c.un(t["op"], ex(t["a"]))
        if k == "bin":
            return c.bin(t["op"], ex(t["a"]), ex(t["b"]))
        if k == "asg":
            return c.asg(t["op"], ex(t["a"]), ex(t["b"]))
        if k == "inc":
            return c.inc(t["op"], t["v"] == 1, ex(t["a"]))
        raise ValueError(k)

    def st(t):
        k = t["k"]
        if k == "expr":
            return c.stmt_expr(ex(t["a"]))
        if k == "block":
            return c.block([st(s) for s in t["ss"]])
        if k == "if":
            return c.mk("if", a=ex(t["a"]), b=st(t["b"]), c=0)
        if k == "while":
            return c.mk("while", a=ex(t["a"]), b=st(t["b"]))
        if k == "ret":
            return c.mk("ret", a=ex(t["a"]))
        raise ValueError(k)

    body = st(tree)
    prog.funcs.append({"name": name, "ret": "int", "np": 1, "vars": c.vars, "body": body})
    return prog.to_json()


# ------------------------------------------------------------------------------------------------ cppcheck
FINDING_TEMPLATE = "F|{file}|{line}|{column}|{severity}|{inconclusive:inconclusive}|{id}|{message}"


def analyse(progs, work, want_findings=False, stats=None, jobs=4, raw=None):
    """Render the programs TU_SIZE per translation unit, run the hooked cppcheck with --dump, convert the value-flow
    section to facts.  Returns (facts per program, findings per program, posmaps)."""
    stats = stats if stats is not None else {}
    tus = []
    k = 0
    while k < len(progs):
        # consecutive programs of one platform, at most TU_SIZE per translation unit
        pl = progs[k]["plat"]
        j = k
        while j < len(progs) and j - k < TU_SIZE and progs[j]["plat"] == pl:
            j += 1
        chunk = progs[k:j]
        text, posmap = render.render_tu(chunk, pl)
        path = os.path.join(work, "tu%04d.c" % len(tus))
        with open(path, "w") as f:
            f.write(text)
        tus.append((k, chunk, path, posmap, pl))
        k = j

    def run_one(tu):
        k, chunk, path, posmap, pl = tu
        args = ["--dump", "-q", T.cppcheck_platform_arg(pl), "--template=" + FINDING_TEMPLATE]
        if want_findings:
            args += ["--enable=style,warning"]
        args.append(os.path.basename(path))
        rc, out, err = vlib.run_cppcheck(args, cwd=work, timeout=300)
        if rc is None:
            raise vlib.InfraError("cppcheck timed out on %s" % path)
        if rc != 0 or not os.path.exists(path + ".dump"):
            raise vlib.InfraError("cppcheck failed (rc=%s) on %s\n%s" % (rc, path, (out + err)[-2000:]))
        return out + err

    with ThreadPoolExecutor(max_workers=jobs) as ex:
        outputs = list(ex.map(run_one, tus))
    facts = []
    findings = [[] for _ in progs]
    for (k, chunk, path, posmap, _pl), text in zip(tus, outputs):
        st = {}
        facts += dump2facts.extract(path + ".dump", chunk, posmap, st, raw=raw, base=k)
        for a, b in st.items():
            if isinstance(b, int):
                stats[a] = stats.get(a, 0) + b
            else:
                stats.setdefault(a, [])
                stats[a] = (stats[a] + b)[:5]
        if want_findings:
            for line in text.split("\n"):
                if not line.startswith("F|"):
                    continue
                parts = line.split("|", 7)
                if len(parts) < 8:
                    continue
                _f, _file, ln, col, sev, inc, fid, msg = parts
                m = posmap.get((int(ln), int(col)))
                fd = {"line": int(ln), "col": int(col), "severity": sev, "inconclusive": inc == "inconclusive", "id": fid,
                      "msg": msg, "node": 0}
                if m is not None:
                    fd["node"] = m[1]
                    findings[k + m[0]].append(fd)
                else:
                    stats["findings_not_on_ast_node"] = stats.get("findings_not_on_ast_node", 0) + 1
                    # attribute to the program by line range
                    pidx = None
                    for (l2, _c2), mm in posmap.items():
                        if l2 == int(ln):
                            pidx = mm[0]
                            break
                    if pidx is not None:
                        findings[k + pidx].append(fd)
    return facts, findings


def attach(progs, facts, keep_literals=False):
    """Store the facts on the programs (field nf: one list per node) in the form MiniC.tla reads."""
    n = 0
    for p, fs in zip(progs, facts):
        nf = [[] for _ in p["nodes"]]
        for x in fs:
            if not keep_literals and p["nodes"][x["n"] - 1]["k"] == "num":
                continue       # the value of a literal: true by construction of the mapping, not worth a TLC evaluation
            nf[x["n"] - 1].append({"k": x["k"], "v": x["v"], "t": x["t"], "par": x["par"]})
            n += 1
        p["nf"] = nf
    return n


# ------------------------------------------------------------------------------------------------ TLC
class Execs:
    def __init__(self):
        self.rows = []            # one dict per execution (deduplicated)
        self.states = 0
        self.generated = 0
        self.tlc_violation_reports = 0
        self.wall = 0.0


def run_tlc(progs, cfg, cap, fuel, workers=WORKERS, timeout=1500, chunk=150, keep=None):
    """Model-check MiniC.tla on the programs (chunk programs per TLC run). Returns Execs; row['p'] is the index
    into progs (0-based)."""
    res = Execs()
    # consecutive programs, at most 40000 AST nodes (and 3000 programs) per TLC run: JVM start and batch checking cost ~10 s
    bounds = []
    k = 0
    while k < len(progs):
        j, nodes = k, 0
        while j < len(progs) and j - k < 3000 and nodes + len(progs[j]["nodes"]) <= 40000:
            nodes += len(progs[j]["nodes"])
            j += 1
        j = max(j, k + 1)
        bounds.append((k, j))
        k = j
    for k, kend in bounds:
        part = progs[k:kend]
        work = vlib.mktmp("tlc")
        bpath = os.path.join(work, "batch.ndjson")
        vlib.write_ndjson(bpath, part)
        r = vlib.tlc("MiniC", cfg, env={"BATCH": bpath, "CAP": str(cap), "FUEL": str(fuel)}, workers=workers, timeout=timeout,
                     extra=["-continue"], xmx="6g")
        if r.rc not in (0, 12, 13):
            raise vlib.InfraError("model failure in MiniC.tla (rc=%s)\n%s" % (r.rc, strip_x(r.out)[-4000:]))
        seen = set()
        for line in r.out.split("\n"):
            if not line.startswith('"X '):
                continue
            x = json.loads(json.loads(line)[2:])
            key = (x["p"], tuple(x["inp"]))
            if key in seen:
                continue          # TLC re-evaluates actions when it reconstructs an error trace
            seen.add(key)
            x["p"] = k + x["p"] - 1
            res.rows.append(x)
        nviol = len(re.findall(r"Invariant \S+ is violated", r.out))
        nbad = sum(1 for x in res.rows if k <= x["p"] < k + len(part) and x["s"] == "done" and is_bad(x, cfg))
        if (nviol > 0) != (nbad > 0):
            raise vlib.InfraError("TLC verdict and execution reports disagree (%d invariant reports, %d bad executions)\n%s"
                                  % (nviol, nbad, strip_x(r.out)[-3000:]))
        res.tlc_violation_reports += nviol
        res.states += r.distinct
        res.generated += r.generated
        res.wall += r.wall
        if keep:
            with open(os.path.join(keep, "tlc%06d.out" % k), "w") as f:
                f.write(r.out)
        shutil.rmtree(work, ignore_errors=True)
    return res


def is_bad(x, cfg):
    if cfg == "MiniC04.cfg":
        return bool(x.get("flagged"))
    return bool(x["bad"]["set"])


def strip_x(out):
    return "\n".join(l for l in out.split("\n") if not l.startswith('"X '))


def tlc_trace(prog, inp, cfg, fuel=400):
    """Re-run TLC on one program restricted to one input vector and return its output (counterexample trace)."""
    p = dict(prog)
    p["only"] = list(inp)
    work = vlib.mktmp("trace")
    bpath = os.path.join(work, "batch.ndjson")
    vlib.write_ndjson(bpath, [p])
    r = vlib.tlc("MiniC", cfg, env={"BATCH": bpath, "CAP": "1000000", "FUEL": str(fuel)}, workers=1, timeout=300)
    shutil.rmtree(work, ignore_errors=True)
    return r


# ------------------------------------------------------------------------------------------------ native witness
CC_FLAGS = ["-O0", "-w", "-fsanitize=undefined,address", "-fno-sanitize-recover=all", "-fsanitize=float-divide-by-zero"]


def native_run(progs, plat, runs, probe=None, reach=None, compiler="gcc", timeout=120):
    """Compile and run the native witness. Returns list of dicts per run: {status, ret, probes:[...], reached:bool}."""
    work = vlib.mktmp("native")
    src = os.path.join(work, "w.c")
    exe = os.path.join(work, "w")
    with open(src, "w") as f:
        f.write(render.render_native(progs, plat, runs, probe=probe, reach=reach))
    rc, out, err = vlib.run([compiler] + CC_FLAGS + ["-o", exe, src], timeout=300)
    if rc != 0:
        raise vlib.InfraError("native witness does not compile:\n%s" % (out + err)[-3000:])
    env = {"ASAN_OPTIONS": "detect_leaks=0:abort_on_error=0", "UBSAN_OPTIONS": "print_stacktrace=0"}
    rc, out, err = vlib.run([exe], env=env, timeout=timeout)
    if rc is None:
        raise vlib.InfraError("native witness timed out")
    res = []
    cur = None
    for line in out.split("\n"):
        if line.startswith("RUN "):
            cur = {"status": None, "ret": None, "probes": [], "reached": False}
        elif cur is None:
            continue
        elif line.startswith("P "):
            cur["probes"].append(int(line[2:]))
        elif line == "E":
            cur["reached"] = True
        elif line.startswith("RET "):
            cur["ret"] = int(line[4:])
        elif line.startswith("END "):
            cur["status"] = int(line.split()[2])
            res.append(cur)
            cur = None
    shutil.rmtree(work, ignore_errors=True)
    if len(res) != len(runs):
        raise vlib.InfraError("native witness produced %d of %d runs\n%s" % (len(res), len(runs), (out + err)[-1500:]))
    return res


def fact_text(prog, f):
    kinds = {"eq": "== %d", "ne": "!= %d", "gt": "> %d", "lt": "< %d", "never": "(no representable value)",
             "true": "always true", "false": "always false"}
    if f["k"] in kinds:
        return kinds[f["k"]] % f["v"] if "%d" in kinds[f["k"]] else kinds[f["k"]]
    op = {"seq": "==", "sne": "!=", "sgt": ">", "slt": "<"}[f["k"]]
    return "%s E(node %d)%+d" % (op, f["t"], f["v"])


def describe(prog, plat, node):
    """(function text, line, column) of a node in the rendering of the single program."""
    text, posmap = render.render_tu([prog], plat)
    pos = None
    for (ln, col), m in posmap.items():
        if m[1] == node:
            pos = (ln, col)
    return text, pos


# ------------------------------------------------------------------------------------------------ judging pipeline
def conformance(progs, rows, rng, nsample):
    """Second-witness conformance on a sample of executions: native return value / sanitizer verdict against the
    model's outcome, judged by TLC (spec/MiniCConf.tla). Returns (n judged, disagreements)."""
    cand = [x for x in rows if x["s"] in ("done", "ub")]
    rng.shuffle(cand)
    cand = cand[:nsample]
    if not cand:
        return 0, []
    by_prog = {}
    for x in cand:
        by_prog.setdefault(x["p"], []).append(x)
    obs = []
    parts = []
    for pl in sorted(set(progs[i]["plat"] for i in by_prog)):
        pidxs = sorted(i for i in by_prog if progs[i]["plat"] == pl)
        parts += [(pl, pidxs[k:k + 40]) for k in range(0, len(pidxs), 40)]
    for plat, part in parts:
        sub = [progs[i] for i in part]
        runs = []
        meta = []
        for j, i in enumerate(part):
            for x in by_prog[i]:
                runs.append((j, x["inp"]))
                meta.append(x)
        nat = native_run(sub, plat, runs)
        for x, n in zip(meta, nat):
            obs.append({"id": "%s%s" % (progs[x["p"]]["name"], x["inp"]), "s": x["s"], "w": x["w"], "res": x["res"],
                        "nat": n["status"], "ret": [n["ret"]] if n["ret"] is not None else []})
    work = vlib.mktmp("conf")
    inp = os.path.join(work, "obs.ndjson")
    out = os.path.join(work, "bad.ndjson")
    vlib.write_ndjson(inp, obs)
    r = vlib.tlc("MiniCConf", "MiniCConf.cfg", env={"OBS": inp, "OUT": out}, workers=1, timeout=300)
    if not r.ok:
        raise vlib.InfraError("model failure in MiniCConf.tla rc=%s\n%s" % (r.rc, r.out[-2000:]))
    m = re.search(r'"CONF",\s*(\d+),\s*"JUDGED",\s*(\d+),\s*"BAD",\s*(\d+)', r.out)
    bad = vlib.read_ndjson(out)
    shutil.rmtree(work, ignore_errors=True)
    if not m or int(m.group(3)) != len(bad):
        raise vlib.InfraError("MiniCConf.tla gave no verdict\n" + r.out[-1500:])
    return int(m.group(2)), bad


def holds_py(f, v):
    """Python reading of a value fact, used ONLY to cross-check the native probe output against the model's value."""
    k = f["k"]
    return {"eq": v == f["v"], "ne": v != f["v"], "gt": v > f["v"], "lt": v < f["v"], "never": False,
            "true": v != 0, "false": v == 0}.get(k, None)


def witness_fact(prog, plat, x, cfgname):
    """Second witness for one contradicted fact (execution row x). Returns (confirmed, detail)."""
    node = x["bad"]["node"]
    nat = native_run([prog], plat, [(0, x["inp"])], probe=(0, node))[0]
    detail = {"native_status": nat["status"], "native_ret": nat["ret"], "native_probe_values": nat["probes"][:20],
              "model_ret": x["res"], "model_value": x["bad"]["v"]}
    ok = nat["status"] == 0 and [nat["ret"]] == x["res"] and x["bad"]["v"] in nat["probes"]
    return ok, detail


def witness_reach(prog, plat, x, node):
    nat = native_run([prog], plat, [(0, x["inp"])], reach=(0, node))[0]
    detail = {"native_status": nat["status"], "native_ret": nat["ret"], "native_reached": nat["reached"], "model_ret": x["res"]}
    ok = nat["status"] == 0 and [nat["ret"]] == x["res"] and nat["reached"]
    return ok, detail


def violation_key(prog, plat, node, fact, cls):
    """Stable identity of a contradicted fact: the defect class if TLC assigned one, else program text + position + fact."""
    if cls:
        return cls
    text, pos = describe(prog, plat, node)
    return vlib.digest({"text": text.replace(prog["name"], "F"), "pos": pos, "fact": [fact["k"], fact["v"], fact["t"]]})


# ------------------------------------------------------------------------------------------------ generic check
def run_check(pid, tier, seed, progs, mode, sizes, ncore=0, core_total=0, assumptions=(), extra=None):
    """mode: 'valueflow' (C01: facts from the dump), 'verdict' (C03: facts from findings), 'flag' (C04: error findings).
    sizes = (cap, fuel, conformance sample).  Returns (exit code, coverage dict)."""
    import time
    import findings2facts
    t0 = time.time()
    rng = random.Random(seed)
    cap, fuel, nconf = sizes
    for p in progs:
        p.setdefault("only", [])
    work = vlib.mktmp(pid.lower())
    stats = {}
    raw = {} if mode == "flag" else None
    phase = {}
    tp = time.time()
    vf_facts, findings = analyse(progs, work, want_findings=(mode != "valueflow"), stats=stats, raw=raw)
    if mode == "valueflow":
        facts = vf_facts
    elif mode == "verdict":
        facts = findings2facts.verdicts(progs, findings, stats)
    else:
        facts = findings2facts.flags(progs, findings, stats, raw)
    nfacts = attach(progs, facts)
    meta = {}
    for pi, fs in enumerate(facts):
        for f in fs:
            if "id" in f:
                meta[(pi, f["n"])] = f
    cfg = "MiniC04.cfg" if mode == "flag" else "MiniC.cfg"
    if mode != "valueflow":
        active = [i for i, p in enumerate(progs) if any(p["nf"])]      # only programs with a verdict / flag need executing
    else:
        active = list(range(len(progs)))
    sub = [progs[i] for i in active]
    phase["cppcheck_and_fact_conversion"] = round(time.time() - tp, 1)
    tp = time.time()
    ex = run_tlc(sub, cfg, cap, fuel) if sub else Execs()
    phase["tlc"] = round(time.time() - tp, 1)
    tp = time.time()
    for x in ex.rows:
        x["p"] = active[x["p"]]
    # ---- contradicted facts / reached flags, grouped
    groups = {}
    for x in ex.rows:
        if x["s"] != "done":
            continue
        if mode == "flag":
            for n in x["flagged"]:
                groups.setdefault((x["p"], n, 0), []).append(x)
        elif x["bad"]["set"]:
            groups.setdefault((x["p"], x["bad"]["node"], x["bad"]["fact"]), []).append(x)
    violations, disagreements = [], []
    for (pi, node, fi), xs in sorted(groups.items()):
        prog = progs[pi]
        plat = prog["plat"]
        x = xs[0]
        text, pos = describe(prog, plat, node)
        if mode == "flag":
            fact = [f for f in prog["nf"][node - 1] if f["k"] == "flag"][0]
            ok, detail = witness_reach(prog, plat, x, node)
            ftxt = "flagged (%s)" % meta.get((pi, node), {}).get("id", "?")
            cls, val = "", None
        else:
            fact = prog["nf"][node - 1][fi - 1]
            ok, detail = witness_fact(prog, plat, x, cfg)
            ftxt = fact_text(prog, fact)
            cls, val = x["bad"]["cls"], x["bad"]["v"]
        info = {"program": prog["name"], "profile": prog["profile"], "input": x["inp"], "node": node, "position": pos, "fact": ftxt,
                "value": val, "class": cls, "inputs_failing": len(xs), "witness": detail, "finding": meta.get((pi, node))}
        if not ok:
            disagreements.append(info)
            continue
        key = violation_key(prog, plat, node, fact, cls)
        payload = {"prog": prog, "input": x["inp"], "node": node, "fact": fact, "factidx": fi, "plat": plat, "cfg": cfg, "mode": mode,
                   "source": text, "info": info}
        path = vlib.save_replay(pid, "%s-n%d-f%d" % (prog["name"], node, fi), payload)
        if mode == "flag":
            what = "%s %s:%s finding %s `%s` but the node is evaluated by the UB-free execution on input %s (%d such inputs)" % (
                prog["name"], pos[0] if pos else "?", pos[1] if pos else "?", info["finding"]["id"], info["finding"]["msg"][:80], x["inp"], len(xs))
        else:
            src = (" [%s: %s]" % (info["finding"]["id"], info["finding"]["msg"][:80])) if info["finding"] else ""
            what = "%s %s:%s node value %s contradicts fact `%s`%s on input %s (%d inputs)%s" % (
                prog["name"], pos[0] if pos else "?", pos[1] if pos else "?", val, ftxt, src, x["inp"], len(xs),
                (" class " + cls) if cls else "")
        violations.append({"key": key, "replay": path, "what": what})
    phase["native_witness_of_contradictions"] = round(time.time() - tp, 1)
    tp = time.time()
    njudged, confbad = conformance(progs, ex.rows, rng, nconf)
    phase["native_conformance_sample"] = round(time.time() - tp, 1)
    rc, new, known = vlib.verdict(pid, violations)
    for d in disagreements[:10]:
        print("MODEL-DISAGREEMENT (not reported against cppcheck): %s" % json.dumps(d)[:700])
    for d in confbad[:10]:
        print("MODEL-DISAGREEMENT (conformance sample): %s" % json.dumps(d)[:400])
    # ---- evidence
    by_status = {}
    for x in ex.rows:
        by_status[x["s"]] = by_status.get(x["s"], 0) + 1
    done = [x for x in ex.rows if x["s"] == "done"]
    exercised = set()
    for x in done:
        for n in x["seen"]:
            exercised.add((x["p"], n))
    if mode == "flag":
        # a flag is exercised when its program has a completed UB-free execution (the invariant was evaluated there)
        pd = set(x["p"] for x in done)
        exercised = set((p, n + 1) for p in pd for n, fs in enumerate(progs[p]["nf"]) if fs)
    nexercised = sum(len(progs[p]["nf"][n - 1]) for p, n in exercised)
    kinds = {}
    for p, n in exercised:
        for f in progs[p]["nf"][n - 1]:
            kk = meta[(p, n)]["id"] if (p, n) in meta else f["k"]
            kinds[kk] = kinds.get(kk, 0) + 1
    si = active[0] if active else 0
    for i in active:
        if i >= ncore:
            si = i
            break
    sample = progs[si]
    stext, _ = describe(sample, sample["plat"], 1)
    srow = next((x for x in done if x["p"] == si), None)
    cov = {
        "states": ex.states, "transitions": ex.generated,
        # executions that completed without UB and were checked step by step against the facts recorded from the real cppcheck
        "traces_validated_against_impl": len(done),
        "evaluations": len(ex.rows), "distinct_nontrivial": len(exercised),
        "rule": ("one evaluation = one execution (program, input vector) explored by TLC; distinct non-trivial = distinct (program, AST node) "
                 "pairs that carry at least one fact and were evaluated by at least one completed UB-free execution") if mode != "flag" else
                ("one evaluation = one execution (program, input vector) explored by TLC; distinct non-trivial = distinct flagged (program, AST "
                 "node) pairs in programs that have at least one completed UB-free execution (NeverReached evaluated on a completed state)"),
        "exhaustive": False,
        "programs": len(progs), "programs_by_platform": {pl: sum(1 for p in progs if p["plat"] == pl) for pl in sorted(set(p["plat"] for p in progs))},
        "programs_executed": len(active), "core_programs": ncore, "core_total": core_total,
        "core_exhaustive": bool(ncore) and ncore == core_total,
        "programs_with_completed_execution": len(set(x["p"] for x in done)),
        "facts_recorded": nfacts, "facts_exercised": nexercised, "facts_exercised_by_kind": kinds,
        "executions_by_status": by_status, "abandoned_executions": by_status.get("abandon", 0), "fuel_exhausted": by_status.get("fuel", 0),
        "contradicted_facts_confirmed_natively": len(violations), "model_disagreements": len(disagreements) + len(confbad),
        "conformance_sample_judged": njudged, "tlc_invariant_reports": ex.tlc_violation_reports,
        "conversion_counters": {k: v for k, v in stats.items() if isinstance(v, int)},
        "input_vectors_cap": cap, "step_budget": fuel, "phase_seconds": phase,
        "samples": [{"program": stext, "facts": [[n + 1, f] for n, fs in enumerate(sample["nf"]) for f in fs][:12], "one_execution": srow}],
    }
    if extra:
        cov.update(extra)
    vlib.write_evidence(pid, tier, seed, "model_checking", cov, time.time() - t0, violations=new, assumptions=list(assumptions))
    print("%s %s: %d programs (%d executed, %d core), %d facts (%d exercised: %s), %d executions %s, %d states, %d violations (%d known), "
          "%d model disagreements; phases %s" % (pid, tier, len(progs), len(active), ncore, nfacts, nexercised, kinds, len(ex.rows), by_status, ex.states,
                                      new, known, len(disagreements) + len(confbad), phase))
    return rc, cov


def replay(pid, path):
    payload = json.load(open(path))
    prog = payload["prog"]
    mode = payload.get("mode", "valueflow")
    r = tlc_trace(prog, payload["input"], payload["cfg"])
    print(strip_x(r.out)[-6000:])
    if not r.violation:
        print("replay: TLC finds no violation for this program and input (rc=%s)" % r.rc)
        return 0
    x = None
    for line in r.out.split("\n"):
        if line.startswith('"X '):
            x = json.loads(json.loads(line)[2:])
    if x is None:
        print("replay: no execution report")
        return 0
    if mode == "flag":
        ok, detail = witness_reach(prog, payload["plat"], x, payload["node"])
    else:
        if not x["bad"]["set"]:
            print("replay: no contradicted fact reported")
            return 0
        ok, detail = witness_fact(prog, payload["plat"], x, payload["cfg"])
    print("native witness: %s" % json.dumps(detail))
    if not ok:
        print("replay: native witness disagrees with the model (model disagreement, not a violation)")
        return 0
    print(payload["source"])
    print(json.dumps(payload["info"]))
    print("VIOLATION property=%s replay=%s" % (pid, path))
    return 1
