"""Format conversion for C36 (spec/HtmlReport.tla): a results file (XML version 2) from a case, written with a plain
serializer of its own (xml.sax.saxutils - not cppcheck's), and the pages cppcheck-htmlreport wrote -> ndjson-able rows.

The pages are cut along the fixed skeleton the script writes (rows, cells, menu entries, annotation spans); every cut-out
piece is given twice: "raw" = the HTML source between the tags, "text" = what html.parser (the arbiter) makes of it.
html.parser is also run over the whole index to count the issue rows a browser would see.  No verdicts here.
Tokens as in drivers/report_conv.py (one token per byte).
"""
import html.parser
import os
import re
from xml.sax.saxutils import quoteattr

from report_conv import tok, untok

_WS = {"\n": "&#10;", "\t": "&#9;", "\r": "&#13;"}


def attr(ts):
    return quoteattr(untok(ts).decode("utf-8"), _WS)


def results_xml(case):
    """the results file of a case; attribute order and layout are this serializer's own"""
    out = ['<?xml version="1.0" encoding="UTF-8"?>', '<results version="2">', '  <cppcheck version="2.99"/>', "  <errors>"]
    for f in case["findings"]:
        a = ["id=" + attr(f["id"]), "severity=" + quoteattr(f["sev"]), "msg=" + attr(f["msg"]), "verbose=" + attr(f["verbose"])]
        if f["cwe"]:
            a.append('cwe="%d"' % f["cwe"])
        if f["inconc"]:
            a.append('inconclusive="true"')
        if not f["locs"]:
            out.append("    <error " + " ".join(a) + "/>")
            continue
        out.append("    <error " + " ".join(a) + ">")
        for l in f["locs"]:
            la = ["file=" + attr(l["file"]), 'line="%d"' % l["line"], 'column="1"']
            if l["info"]:
                la.append("info=" + attr(l["info"]))
            out.append("      <location " + " ".join(la) + "/>")
        out.append("    </error>")
    out += ["  </errors>", "</results>", ""]
    return "\n".join(out).encode("utf-8")


class _Text(html.parser.HTMLParser):
    def __init__(self):
        super().__init__(convert_charrefs=True)
        self.parts = []

    def handle_data(self, data):
        self.parts.append(data)


def cell(raw):
    """raw HTML source (bytes) of a cut-out piece -> {"raw": tokens, "text": tokens of the text html.parser delivers}"""
    p = _Text()
    p.feed(raw.decode("utf-8", "surrogateescape"))
    p.close()
    return {"raw": tok(raw), "text": tok("".join(p.parts))}


class _Rows(html.parser.HTMLParser):
    """the arbiter's view of index.html: number of <tr> elements whose class ends with 'issue'"""

    def __init__(self):
        super().__init__(convert_charrefs=True)
        self.rows = 0

    def handle_starttag(self, tag, attrs):
        if tag == "tr":
            c = dict(attrs).get("class") or ""
            if c.split()[-1:] == ["issue"]:
                self.rows += 1


_LINK = re.compile(rb'^<a href="([^"]*)"[^>]*>(.*)</a>$', re.S)
_FILEROW = re.compile(rb'\n       <tr><td colspan="6">(.*?)</td></tr>(?=\n)', re.S)
_ISSUE = re.compile(rb'\n         <tr class="(.*?) issue">(.*?)</tr>(?=\n)', re.S)
_SUMMARY = re.compile(rb'\n            <tr><td><input type="checkbox" class="idToggle" onclick="toggleDisplay\(this\)" id="(.*?)" name="(.*?)" checked></td>'
                      rb'<td>(\d+)</td><td>(.*?)</td></tr>(?=\n)', re.S)
_TOTAL = re.compile(rb"<tr><td></td><td>(\d+)</td><td>total</td></tr>")


def _unlink(raw):
    m = _LINK.match(raw)
    if m:
        return m.group(1).decode("latin-1"), m.group(2)
    return "", raw


def parse_index(data):
    """index.html -> {"ok", "groups": [{"file": cell, "href", "rows": [{"line","id","cwe","sev","msg": cells, "ncells"}]}],
                      "summary": [{"id": cell, "count"}], "total", "parser_rows"}"""
    res = {"ok": True, "err": "", "groups": [], "summary": [], "total": -1, "parser_rows": -1}
    start = data.find(b'<table class="summaryTable">')
    if start < 0:
        return {"ok": False, "err": "no summary table", "groups": [], "summary": [], "total": -1, "parser_rows": -1}
    for m in _SUMMARY.finditer(data[:start]):
        res["summary"].append({"id": cell(m.group(4)), "count": int(m.group(3))})
    m = _TOTAL.search(data[:start])
    if m:
        res["total"] = int(m.group(1))
    body = data[start:]
    marks = [(m.start(), "file", m) for m in _FILEROW.finditer(body)] + [(m.start(), "issue", m) for m in _ISSUE.finditer(body)]
    for _pos, kind, m in sorted(marks, key=lambda x: x[0]):
        if kind == "file":
            href, name = _unlink(m.group(1))
            res["groups"].append({"file": cell(name), "href": href, "rows": []})
        else:
            if not res["groups"]:
                res["groups"].append({"file": cell(b""), "href": "", "rows": []})
            inner = m.group(2)
            # cells: <td>..</td> x4, then the message cell (optionally with a class), then the timestamp cell
            cells = re.match(rb'^<td>(.*?)</td><td>(.*?)</td><td>(.*?)</td><td>(.*?)</td><td(?: class="[^"]*")?>(.*)</td><td>([^<]*)</td>$', inner, re.S)
            if not cells:
                res["groups"][-1]["rows"].append({"line": cell(b""), "id": cell(b""), "cwe": cell(b""), "sev": cell(b""), "msg": cell(inner), "ncells": 0})
                continue
            _h, line = _unlink(cells.group(1))
            res["groups"][-1]["rows"].append({"line": cell(line), "id": cell(cells.group(2)), "cwe": cell(cells.group(3)), "sev": cell(cells.group(4)),
                                              "msg": cell(cells.group(5)), "ncells": 6})
    p = _Rows()
    p.feed(data.decode("utf-8", "surrogateescape"))
    p.close()
    res["parser_rows"] = p.rows
    return res


_MENU = re.compile(rb'<a href="[^"#]*#line-(-?\d+)"> (.*?) (-?\d+)</a>', re.S)
_ANCHOR = re.compile(rb'<a id="line-(\d+)" name="line-\d+"></a>')
_ANN = re.compile(rb'<div class="verbose expandable"><span class="(error2|inconclusive2)">&lt;--- (.*?) <span class="marker">\[\+\]</span></span>'
                  rb'<div class="content">(.*?)</div></div>'
                  rb'|<span class="(error2|inconclusive2)">&lt;--- (.*?)</span>', re.S)


def parse_page(data):
    """a per-file page -> {"menu": [{"line", "id": cell}], "ann": [{"line", "msg": cell, "expandable"}], "nlines"}"""
    res = {"menu": [], "ann": [], "nlines": 0}
    ms = data.find(b'<div id="menu">')
    me = data.find(b'<div id="content">')
    if ms >= 0 and me > ms:
        for m in _MENU.finditer(data[ms:me]):
            res["menu"].append({"line": int(m.group(1)), "id": cell(m.group(2))})
    code = data[me:] if me >= 0 else data
    anchors = [(m.start(), int(m.group(1))) for m in _ANCHOR.finditer(code)]
    res["nlines"] = len(anchors)
    for m in _ANN.finditer(code):
        line = 0
        for pos, n in anchors:
            if pos < m.start():
                line = n
            else:
                break
        if m.group(1) is not None:
            res["ann"].append({"line": line, "msg": cell(m.group(2)), "expandable": True})
        else:
            res["ann"].append({"line": line, "msg": cell(m.group(5)), "expandable": False})
    return res


_STAT = re.compile(rb'<span class="statHeader">Top 10 files for (.*?) severity, total findings: (\d+)</span>')


def parse_stats(data):
    return [{"sev": m.group(1).decode("latin-1"), "total": int(m.group(2))} for m in _STAT.finditer(data)]


def read_report(outdir):
    """everything the specification talks about, from the report directory"""
    res = {"index": {"ok": False, "err": "no index.html", "groups": [], "summary": [], "total": -1, "parser_rows": -1}, "pages": [], "stats": []}
    ip = os.path.join(outdir, "index.html")
    if os.path.exists(ip):
        res["index"] = parse_index(open(ip, "rb").read())
    for g in res["index"]["groups"]:
        pp = os.path.join(outdir, g["href"]) if re.match(r"^\d+\.html$", g["href"]) else None
        if pp and os.path.exists(pp):
            pg = parse_page(open(pp, "rb").read())
            pg.update({"file": g["file"], "exists": True})
        else:
            pg = {"file": g["file"], "exists": False, "menu": [], "ann": [], "nlines": 0}
        res["pages"].append(pg)
    sp = os.path.join(outdir, "stats.html")
    if os.path.exists(sp):
        res["stats"] = parse_stats(open(sp, "rb").read())
    return res
