"""C02 machinery: programs over std::vector<int> / std::string (format defined by spec/Containers.tla), rendering as
C++, container-size facts from the dump, TLC run, native witness (g++ -D_GLIBCXX_ASSERTIONS, ASan + UBSan)."""
import json
import os
import random
import re
import shutil
import sys
import xml.etree.ElementTree as ET
from concurrent.futures import ThreadPoolExecutor

HERE = os.path.dirname(os.path.abspath(__file__))
sys.path.insert(0, HERE)
sys.path.insert(0, os.path.join(os.path.dirname(HERE), "lib"))
import vlib  # noqa: E402

CMP = ["<", "<=", ">", ">=", "==", "!="]
TU_SIZE = 50


# ------------------------------------------------------------------------------------------------ programs
class CProg:
    def __init__(self, name, kind, ncont, np_, profile):
        self.name, self.kind, self.ncont, self.np, self.profile = name, kind, ncont, np_, profile
        self.nodes = []
        self.nment = 0

    def mention(self):
        self.nment += 1
        return self.nment

    def node(self, k, **kw):
        n = {"k": k, "c": 0, "d": 0, "v": 0, "op": "", "j": 0, "m1": 0, "m2": 0, "a": 0, "ss": [], "es": []}
        n.update(kw)
        self.nodes.append(n)
        return len(self.nodes)

    def stmt(self, k, c, v=0, d=0):
        kw = {"c": c, "v": v, "d": d, "m1": self.mention()}
        if k in ("ins", "era", "swap", "copy"):
            kw["m2"] = self.mention()
        return self.node(k, **kw)

    def to_json(self, body):
        return {"name": self.name, "kind": self.kind, "ncont": self.ncont, "np": self.np, "profile": self.profile,
                "nodes": self.nodes, "body": body, "nment": self.nment, "only": []}


def from_core(ops, name, kind="vector"):
    p = CProg(name, kind, 1, 0, "core")
    body = [p.stmt(o["k"], 1, o["v"]) for o in ops]
    body.append(p.stmt("ret", 1))
    return p.to_json(body)


class CGen:
    def __init__(self, seed):
        self.r = random.Random(seed)

    def cond(self, p):
        r = self.r
        x = r.random()
        c = r.randint(1, p.ncont)
        if x < 0.25:
            return p.node("empty", c=c, m1=p.mention())
        if x < 0.45:
            return p.node("nempty", c=c, m1=p.mention())
        if x < 0.8 or p.np == 0:
            return p.node("szcmp", c=c, op=r.choice(CMP), v=r.choice([0, 1, 1, 2, 2, 3]), m1=p.mention())
        return p.node("par", j=r.randint(1, p.np), op=r.choice(CMP), v=r.choice([0, 1, 2]))

    def guard_for(self, p, c):
        """A condition under which pop / erase / front / back on c is defined."""
        r = self.r
        x = r.random()
        if x < 0.4:
            return p.node("nempty", c=c, m1=p.mention())
        if x < 0.7:
            return p.node("szcmp", c=c, op=">", v=r.choice([0, 0, 1]), m1=p.mention())
        if x < 0.85:
            return p.node("szcmp", c=c, op=">=", v=r.choice([1, 2]), m1=p.mention())
        return p.node("szcmp", c=c, op="!=", v=0, m1=p.mention())

    def simple(self, p):
        r = self.r
        c = r.randint(1, p.ncont)
        k = r.choice(["push", "push", "push", "pop", "clear", "resize", "ins", "era", "front", "back", "size", "hpush", "hclear", "hread"]
                     + (["swap", "copy", "copy"] if p.ncont > 1 else []))
        if k in ("pop", "era", "front", "back") and r.random() < 0.7:
            # mostly guarded so that executions are UB-free
            return p.node("if", a=self.guard_for(p, c), ss=[p.stmt(k, c)], es=[])
        if k in ("swap", "copy"):
            return p.stmt(k, c, d=3 - c)
        if k == "resize":
            return p.stmt(k, c, v=r.choice([0, 1, 2, 3]))
        return p.stmt(k, c, v=r.choice([0, 1, 2]))

    def block(self, p, n, depth):
        return [self.statement(p, depth) for _ in range(n)]

    def statement(self, p, depth):
        r = self.r
        x = r.random()
        if depth > 0 and x < 0.22:
            return p.node("if", a=self.cond(p), ss=self.block(p, r.choice([1, 1, 2]), depth - 1),
                          es=self.block(p, r.choice([1, 1, 2]), depth - 1) if r.random() < 0.4 else [])
        if depth > 0 and x < 0.36:
            if p.np and r.random() < 0.7:
                return p.node("loop", j=r.randint(1, p.np), ss=self.block(p, r.choice([1, 1, 2]), depth - 1))
            return p.node("loop", v=r.choice([1, 2, 3]), ss=self.block(p, r.choice([1, 1, 2]), depth - 1))
        return self.simple(p)

    def program(self, name):
        r = self.r
        p = CProg(name, r.choice(["vector", "vector", "string"]), r.choice([1, 2, 2]), r.choice([0, 1, 1, 2]), "gen")
        body = self.block(p, r.choice([3, 4, 5, 6, 8]), 2)
        body.append(p.stmt("ret", r.randint(1, p.ncont)))
        return p.to_json(body)


def generate(seed, count, prefix):
    g = CGen(seed)
    return [g.program("%s%04d" % (prefix, i)) for i in range(count)]


# ------------------------------------------------------------------------------------------------ rendering
PRELUDE = """#include <vector>
#include <string>
static void hv_push(std::vector<int>& q) { q.push_back(1); }
static void hv_clear(std::vector<int>& q) { q.clear(); }
static int hv_read(const std::vector<int>& q) { return q.empty() ? 0 : 1; }
static void hs_push(std::string& q) { q.push_back('b'); }
static void hs_clear(std::string& q) { q.clear(); }
static int hs_read(const std::string& q) { return q.empty() ? 0 : 1; }
"""


class CR:
    def __init__(self, prog, pidx, lines, posmap, probe=0):
        self.p, self.pidx, self.lines, self.posmap, self.probe = prog, pidx, lines, posmap, probe
        self.cur = ""
        self.loopn = 0

    def N(self, i):
        return self.p["nodes"][i - 1]

    def emit(self, s):
        self.cur += s

    def nl(self):
        self.lines.append(self.cur)
        self.cur = ""

    def cn(self, c):
        return ("v%d" if self.p["kind"] == "vector" else "s%d") % c

    def ment(self, c, m):
        """emit the name of container c as mention m"""
        if self.probe and m == self.probe:
            self.emit("pr(" + self.cn(c) + ")")
            return
        if self.posmap is not None:
            self.posmap[(len(self.lines) + 1, len(self.cur) + 1)] = (self.pidx, m, self.cn(c))
        self.emit(self.cn(c))

    def val(self, v):
        return str(v) if self.p["kind"] == "vector" else "'%s'" % "abc"[v % 3]

    def cond(self, i):
        n = self.N(i)
        if n["k"] == "empty":
            self.ment(n["c"], n["m1"])
            self.emit(".empty()")
        elif n["k"] == "nempty":
            self.emit("!")
            self.ment(n["c"], n["m1"])
            self.emit(".empty()")
        elif n["k"] == "szcmp":
            self.ment(n["c"], n["m1"])
            self.emit(".size() %s %d" % (n["op"], n["v"]))
        else:
            self.emit("n%d %s %d" % (n["j"], n["op"], n["v"]))

    def st(self, i, ind):
        n = self.N(i)
        k = n["k"]
        pad = "    " * ind
        h = "hv_" if self.p["kind"] == "vector" else "hs_"
        self.emit(pad)
        if k in ("push", "pop", "clear", "resize"):
            self.ment(n["c"], n["m1"])
            self.emit({"push": ".push_back(%s);" % self.val(n["v"]), "pop": ".pop_back();", "clear": ".clear();",
                       "resize": ".resize(%d);" % n["v"]}[k])
        elif k == "ins":
            self.ment(n["c"], n["m1"])
            self.emit(".insert(")
            self.ment(n["c"], n["m2"])
            self.emit(".begin(), %s);" % self.val(n["v"]))
        elif k == "era":
            self.ment(n["c"], n["m1"])
            self.emit(".erase(")
            self.ment(n["c"], n["m2"])
            self.emit(".begin());")
        elif k == "swap":
            self.ment(n["c"], n["m1"])
            self.emit(".swap(")
            self.ment(n["d"], n["m2"])
            self.emit(");")
        elif k == "copy":
            self.ment(n["c"], n["m1"])
            self.emit(" = ")
            self.ment(n["d"], n["m2"])
            self.emit(";")
        elif k in ("front", "back"):
            self.emit("sink = (int)")
            self.ment(n["c"], n["m1"])
            self.emit(".%s();" % k)
        elif k == "size":
            self.emit("sink = (int)")
            self.ment(n["c"], n["m1"])
            self.emit(".size();")
        elif k in ("hpush", "hclear"):
            self.emit(h + k[1:] + "(")
            self.ment(n["c"], n["m1"])
            self.emit(");")
        elif k == "hread":
            self.emit("sink = " + h + "read(")
            self.ment(n["c"], n["m1"])
            self.emit(");")
        elif k == "ret":
            self.emit("return sink + (int)")
            self.ment(n["c"], n["m1"])
            self.emit(".size();")
        elif k == "if":
            self.emit("if (")
            self.cond(n["a"])
            self.emit(") {")
            self.nl()
            for s in n["ss"]:
                self.st(s, ind + 1)
            if n["es"]:
                self.emit(pad + "} else {")
                self.nl()
                for s in n["es"]:
                    self.st(s, ind + 1)
            self.emit(pad + "}")
        elif k == "loop":
            self.loopn += 1
            iv = "i%d" % self.loopn
            bound = ("n%d" % n["j"]) if n["j"] else str(n["v"])
            self.emit("for (int %s = 0; %s < %s; %s++) {" % (iv, iv, bound, iv))
            self.nl()
            for s in n["ss"]:
                self.st(s, ind + 1)
            self.emit(pad + "}")
        else:
            raise ValueError(k)
        self.nl()

    def function(self):
        p = self.p
        params = ", ".join("int n%d" % (j + 1) for j in range(p["np"])) or "void"
        ty = "std::vector<int>" if p["kind"] == "vector" else "std::string"
        self.emit("int %s(%s)" % (p["name"], params))
        self.nl()
        self.emit("{")
        self.nl()
        for c in range(1, p["ncont"] + 1):
            self.emit("    %s %s;" % (ty, self.cn(c)))
            self.nl()
        self.emit("    int sink = 0;")
        self.nl()
        for s in p["body"]:
            self.st(s, 1)
        self.emit("}")
        self.nl()
        self.nl()


def render_tu(progs):
    lines = PRELUDE.split("\n")
    posmap = {}
    for pidx, p in enumerate(progs):
        CR(p, pidx, lines, posmap).function()
    return "\n".join(lines) + "\n", posmap


def render_native(prog, probe):
    lines = ["#include <cstdio>", "#include <cstdlib>"] + PRELUDE.split("\n")
    lines.append('template<class C> C& pr(C& c) { printf("P %zu\\n", c.size()); fflush(stdout); return c; }')
    CR(prog, 0, lines, None, probe=probe).function()
    args = ", ".join("atoi(argv[%d])" % (j + 1) for j in range(prog["np"]))
    lines.append("int main(int argc, char **argv) { (void)argc; (void)argv; int r = %s(%s); printf(\"RET %%d\\n\", r); return 0; }" % (prog["name"], args))
    return "\n".join(lines) + "\n"


# ------------------------------------------------------------------------------------------------ facts
def extract(dump_path, progs, posmap, stats):
    root = ET.parse(dump_path).getroot()
    d = root.find("dump")
    vals = {}
    vf = d.find("valueflow")
    if vf is not None:
        for vs in vf:
            vals[vs.get("id")] = [v.attrib for v in vs]
    copy_lhs = [set(n["m1"] for n in p["nodes"] if n["k"] == "copy") for p in progs]
    facts = [[] for _ in progs]

    def bump(k):
        stats[k] = stats.get(k, 0) + 1

    for t in d.find("tokenlist"):
        vid = t.get("values")
        if not vid:
            continue
        m = posmap.get((int(t.get("linenr")), int(t.get("column"))))
        if m is None or m[2] != t.get("str"):
            continue
        pidx, ment, _ = m
        for v in vals.get(vid, []):
            if "container-size" not in v:
                continue
            if v.get("possible") or v.get("inconclusive"):
                bump("values_possible")
                continue
            if v.get("indirect", "0") != "0" or v.get("path", "0") != "0":
                bump("values_indirect_or_path")
                continue
            if ment in copy_lhs[pidx]:
                bump("values_on_assigned_container_skipped")
                continue
            k = int(v["container-size"])
            bound = v.get("bound", "Point")
            if v.get("known") == "true":
                if bound != "Point":
                    bump("known_with_bound")
                    continue
                kind = "eq"
            elif v.get("impossible") == "true":
                kind = {"Point": "ne", "Upper": "gt", "Lower": "lt"}[bound]
            else:
                continue
            facts[pidx].append({"m": ment, "k": kind, "v": k, "line": int(t.get("linenr")), "col": int(t.get("column"))})
            bump("fact_" + kind)
    return facts


def analyse(progs, work, stats, jobs=4):
    tus = []
    for k in range(0, len(progs), TU_SIZE):
        chunk = progs[k:k + TU_SIZE]
        text, posmap = render_tu(chunk)
        path = os.path.join(work, "tu%04d.cpp" % (k // TU_SIZE))
        with open(path, "w") as f:
            f.write(text)
        tus.append((chunk, path, posmap))

    def run_one(tu):
        chunk, path, posmap = tu
        rc, out, err = vlib.run_cppcheck(["--dump", "-q", "--platform=unix64", "--std=c++17", os.path.basename(path)], cwd=work, timeout=600)
        if rc != 0 or not os.path.exists(path + ".dump"):
            raise vlib.InfraError("cppcheck failed (rc=%s) on %s\n%s" % (rc, path, (out + err)[-2000:]))
        return True

    with ThreadPoolExecutor(max_workers=jobs) as ex:
        list(ex.map(run_one, tus))
    facts = []
    for chunk, path, posmap in tus:
        facts += extract(path + ".dump", chunk, posmap, stats)
    n = 0
    for p, fs in zip(progs, facts):
        mf = [[] for _ in range(p["nment"])]
        for f in fs:
            mf[f["m"] - 1].append({"k": f["k"], "v": f["v"]})
            n += 1
        p["mf"] = mf
    return n


# ------------------------------------------------------------------------------------------------ TLC
def run_tlc(progs, fuel=200, workers=6, chunk=400, timeout=1500):
    rows = []
    states = gen = reports = 0
    for k in range(0, len(progs), chunk):
        part = progs[k:k + chunk]
        work = vlib.mktmp("ctlc")
        bpath = os.path.join(work, "batch.ndjson")
        vlib.write_ndjson(bpath, part)
        r = vlib.tlc("Containers", "Containers.cfg", env={"BATCH": bpath, "FUEL": str(fuel)}, workers=workers, timeout=timeout,
                     extra=["-continue"], xmx="4g")
        if r.rc not in (0, 12, 13):
            out = "\n".join(l for l in r.out.split("\n") if not l.startswith('"X '))
            raise vlib.InfraError("model failure in Containers.tla (rc=%s)\n%s" % (r.rc, out[-4000:]))
        seen = set()
        nb = 0
        for line in r.out.split("\n"):
            if not line.startswith('"X '):
                continue
            x = json.loads(json.loads(line)[2:])
            key = (x["p"], tuple(x["inp"]))
            if key in seen:
                continue
            seen.add(key)
            x["p"] = k + x["p"] - 1
            rows.append(x)
            if x["s"] == "done" and x["bad"]["set"]:
                nb += 1
        nv = len(re.findall(r"Invariant \S+ is violated", r.out))
        if (nv > 0) != (nb > 0):
            raise vlib.InfraError("TLC verdict and execution reports disagree (%d / %d)" % (nv, nb))
        reports += nv
        states += r.distinct
        gen += r.generated
        shutil.rmtree(work, ignore_errors=True)
    return rows, states, gen, reports


def tlc_trace(prog, inp):
    p = dict(prog)
    p["only"] = list(inp)
    work = vlib.mktmp("ctrace")
    bpath = os.path.join(work, "batch.ndjson")
    vlib.write_ndjson(bpath, [p])
    r = vlib.tlc("Containers", "Containers.cfg", env={"BATCH": bpath, "FUEL": "200"}, workers=1, timeout=300)
    shutil.rmtree(work, ignore_errors=True)
    return r


# ------------------------------------------------------------------------------------------------ native witness
def native(prog, inputs, probe):
    """Compile once, run every input vector. Returns a list of dict(status, ret, probes)."""
    work = vlib.mktmp("cnat")
    src = os.path.join(work, "w.cpp")
    exe = os.path.join(work, "w")
    with open(src, "w") as f:
        f.write(render_native(prog, probe))
    rc, out, err = vlib.run(["g++", "-std=c++17", "-O0", "-w", "-D_GLIBCXX_ASSERTIONS", "-fsanitize=undefined,address",
                             "-fno-sanitize-recover=all", "-o", exe, src], timeout=300)
    if rc != 0:
        raise vlib.InfraError("native witness does not compile:\n%s" % (out + err)[-3000:])
    results = []
    for inp in inputs:
        rc, out, err = vlib.run([exe] + [str(x) for x in inp], env={"ASAN_OPTIONS": "detect_leaks=0"}, timeout=60)
        res = {"status": rc, "ret": None, "probes": []}
        for line in out.split("\n"):
            if line.startswith("P "):
                res["probes"].append(int(line[2:]))
            elif line.startswith("RET "):
                res["ret"] = int(line[4:])
        results.append(res)
    shutil.rmtree(work, ignore_errors=True)
    return results


def describe(prog, ment):
    text, posmap = render_tu([prog])
    skip = len(PRELUDE.split("\n")) - 1
    pos = None
    for (ln, col), m in posmap.items():
        if m[1] == ment:
            pos = (ln - skip, col)
    return "\n".join(text.split("\n")[skip:]), pos
