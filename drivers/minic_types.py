"""Platforms and C integer typing rules used by the MiniC generator / renderer (Python side).

The authoritative definition is spec/MiniC.tla (TypeOf, Promote, Common); the generator annotates every
expression node with its type using the functions below and TLC re-derives the type of every node from the
spec and rejects the batch if an annotation differs (ASSUME TypesOK), so these rules are cross-checked.
"""
import os

HERE = os.path.dirname(os.path.abspath(__file__))
VERIF = os.path.dirname(HERE)

INT_TYPES = ["char", "schar", "uchar", "short", "ushort", "int", "uint", "long", "ulong"]
RANK = {"char": 1, "schar": 1, "uchar": 1, "short": 2, "ushort": 2, "int": 3, "uint": 3, "long": 4, "ulong": 4}
CNAME = {"char": "char", "schar": "signed char", "uchar": "unsigned char", "short": "short", "ushort": "unsigned short",
         "int": "int", "uint": "unsigned int", "long": "long", "ulong": "unsigned long"}

# platform records: bits per type, signedness per type. p32 = cppcheck --platform=unix64 (native x86-64 gcc),
# p16 = generated platform file spec/p16.xml (16 bit int, 32 bit long, signed plain char).
PLATS = {
    "p32": {"name": "p32",
            "bits": {"char": 8, "schar": 8, "uchar": 8, "short": 16, "ushort": 16, "int": 32, "uint": 32, "long": 64, "ulong": 64},
            "sgn": {"char": True, "schar": True, "uchar": False, "short": True, "ushort": False, "int": True, "uint": False,
                    "long": True, "ulong": False}},
    "p16": {"name": "p16",
            "bits": {"char": 8, "schar": 8, "uchar": 8, "short": 16, "ushort": 16, "int": 16, "uint": 16, "long": 32, "ulong": 32},
            "sgn": {"char": True, "schar": True, "uchar": False, "short": True, "ushort": False, "int": True, "uint": False,
                    "long": True, "ulong": False}},
}


def cppcheck_platform_arg(plat):
    if plat == "p32":
        return "--platform=unix64"
    return "--platform=" + os.path.join(VERIF, "spec", "p16.xml")


def bits(plat, ty):
    return PLATS[plat]["bits"][ty]


def signed(plat, ty):
    return PLATS[plat]["sgn"][ty]


def tmin(plat, ty):
    return -(1 << (bits(plat, ty) - 1)) if signed(plat, ty) else 0


def tmax(plat, ty):
    b = bits(plat, ty)
    return (1 << (b - 1)) - 1 if signed(plat, ty) else (1 << b) - 1


def promote(plat, ty):
    """Integer promotion (C11 6.3.1.1p2)."""
    if RANK[ty] >= RANK["int"]:
        return ty
    if tmin(plat, "int") <= tmin(plat, ty) and tmax(plat, ty) <= tmax(plat, "int"):
        return "int"
    return "uint"


def unsigned_of(ty):
    return {"int": "uint", "long": "ulong", "uint": "uint", "ulong": "ulong"}[ty]


def common(plat, t1, t2):
    """Usual arithmetic conversions (C11 6.3.1.8) for integer operands."""
    a, b = promote(plat, t1), promote(plat, t2)
    if a == b:
        return a
    sa, sb = signed(plat, a), signed(plat, b)
    if sa == sb:
        return a if RANK[a] >= RANK[b] else b
    u, s = (b, a) if sa else (a, b)
    if RANK[u] >= RANK[s]:
        return u
    if tmax(plat, u) <= tmax(plat, s):
        return s
    return unsigned_of(s)


def conv(plat, v, ty):
    """Conversion of a mathematical value to type ty (out-of-range signed: modulo 2^N as gcc documents)."""
    b = bits(plat, ty)
    m = v & ((1 << b) - 1)
    if signed(plat, ty) and m >= (1 << (b - 1)):
        m -= (1 << b)
    return m


def literal_type(plat, v, suffix):
    """Type of a decimal literal with suffix '' 'u' 'L' 'uL' (C11 6.4.4.1); v >= 0."""
    cands = {"": ["int", "long"], "u": ["uint", "ulong"], "L": ["long"], "uL": ["ulong"]}[suffix]
    for t in cands:
        if v <= tmax(plat, t):
            return t
    return None
