"""Render MiniC programs (JSON ASTs, see minic_gen.py / spec/ProgGen.tla) as C.

render_tu(progs)            -> (text, posmap)   translation unit for cppcheck; posmap[(line, column)] = (prog index, node id, token text)
                               (line, column) is the position of the ROOT token of the node, exactly what cppcheck writes into
                               the dump: operator token for operators, `(` for casts and calls, `[` for subscripts, `?` for ?:,
                               the name for variables, the first character for literals (the `-` of a negative literal).
render_native(prog, ...)    -> C text of a native witness: the same functions plus a main() that runs given input vectors,
                               optionally with a probe printing every value a chosen node evaluates to.

Every operand that is not a name or a non-negative literal is parenthesised, so the C parser builds exactly the
tree of the AST whatever the operator precedences are.
"""
import minic_types as T


class R:
    def __init__(self, prog, pidx, plat, lines, posmap, native=False, probe=0, reach=0):
        self.p = prog
        self.pidx = pidx
        self.plat = plat
        self.lines = lines
        self.posmap = posmap
        self.cur = ""
        self.native = native
        self.probe = probe        # node id whose values are printed (native only)
        self.reach = reach        # node id whose evaluation is announced (native only)

    def N(self, i):
        return self.p["nodes"][i - 1]

    # ---- output
    def emit(self, s):
        self.cur += s

    def mark(self, node, tok):
        if self.posmap is not None:
            self.posmap[(len(self.lines) + 1, len(self.cur) + 1)] = (self.pidx, node, tok)

    def nl(self):
        self.lines.append(self.cur)
        self.cur = ""

    def cname(self, ty):
        if self.native and self.plat == "p16":
            return "t_" + ty
        return T.CNAME[ty]

    def vname(self, fn, i):
        return self.p["funcs"][fn - 1]["vars"][i - 1]["name"]

    # ---- expressions
    def atomlike(self, i):
        n = self.N(i)
        return n["k"] in ("var", "idx") or (n["k"] == "num" and n["v"] >= 0)

    def operand(self, i):
        if self.atomlike(i) or self.N(i)["k"] == "num":
            self.ex(i)
        else:
            self.emit("(")
            self.ex(i)
            self.emit(")")

    def ex(self, i, lvalue_ctx=False):
        """Emit expression i. lvalue_ctx: the node is the operand of = op= ++ -- & (no probe wrapper possible)."""
        n = self.N(i)
        wrap = self.native and (i == self.probe or i == self.reach) and not lvalue_ctx
        if wrap:
            self.emit("PROBE(%d, " % (1 if i == self.probe else 0))
        self.ex0(i, n)
        if wrap:
            self.emit(")")

    def lv(self, i, reads, postfix=False):
        """Emit an lvalue operand; if it is the probed node (and the operator reads it) print its value first:
        *(PROBEV(x), &x)."""
        n = self.N(i)
        if self.native and (i == self.probe or i == self.reach) and reads:
            self.emit("(*(PROBEV(%d, " % (1 if i == self.probe else 0))
            self.ex0(i, n)
            self.emit("), &")
            self.lvopnd(i)
            self.emit("))")
        else:
            self.lvopnd(i, postfix)

    def lvopnd(self, i, postfix=False):
        n = self.N(i)
        if n["k"] in ("var", "idx") or (n["k"] == "deref" and not postfix):
            self.ex0(i, n)
        else:
            self.emit("(")
            self.ex0(i, n)
            self.emit(")")

    def ex0(self, i, n):
        k = n["k"]
        if k == "num":
            v = n["v"]
            if v < 0:
                self.emit("(")
                self.mark(i, str(v))
                self.emit(str(v))
                self.emit(")")
            else:
                self.mark(i, str(v) + n["op"])
                self.emit(str(v) + n["op"])
        elif k == "var":
            nm = self.vname(n["fn"], n["v"])
            self.mark(i, nm)
            self.emit(nm)
        elif k == "un":
            self.mark(i, n["op"])
            self.emit(n["op"])
            self.operand(n["a"])
        elif k in ("bin", "land", "lor"):
            op = n["op"] if k == "bin" else ("&&" if k == "land" else "||")
            self.operand(n["a"])
            self.emit(" ")
            self.mark(i, op)
            self.emit(op + " ")
            self.operand(n["b"])
        elif k == "cond":
            self.operand(n["a"])
            self.emit(" ")
            self.mark(i, "?")
            self.emit("? ")
            self.operand(n["b"])
            self.emit(" : ")
            self.operand(n["c"])
        elif k == "asg":
            self.lv(n["a"], n["op"] != "=")
            self.emit(" ")
            self.mark(i, n["op"])
            self.emit(n["op"] + " ")
            if self.N(n["b"])["k"] in ("asg",):
                self.operand(n["b"])
            else:
                self.ex(n["b"])
        elif k == "inc":
            if n["v"] == 1:
                self.mark(i, n["op"])
                self.emit(n["op"])
                self.lv(n["a"], True)
            else:
                self.lv(n["a"], True, postfix=True)
                self.mark(i, n["op"])
                self.emit(n["op"])
        elif k == "deref":
            self.mark(i, "*")
            self.emit("*")
            self.operand(n["a"])
        elif k == "addr":
            self.mark(i, "&")
            self.emit("&")
            self.lvopnd(n["a"])
        elif k == "idx":
            self.ex(n["a"], lvalue_ctx=True)
            self.mark(i, "[")
            self.emit("[")
            self.ex(n["b"])
            self.emit("]")
        elif k == "cast":
            self.mark(i, "(")
            self.emit("(" + self.cname(n["ty"]) + ")")
            if self.atomlike(n["a"]):
                self.ex(n["a"])
            else:
                self.emit("(")
                self.ex(n["a"])
                self.emit(")")
        elif k == "callx":
            self.emit(self.p["funcs"][n["v"] - 1]["name"])
            self.mark(i, "(")
            self.emit("(")
            for j, a in enumerate(n["ss"]):
                if j:
                    self.emit(", ")
                self.ex(a)
            self.emit(")")
        else:
            raise ValueError("not an expression: %s" % k)

    # ---- statements
    def st(self, i, ind):
        n = self.N(i)
        k = n["k"]
        pad = "    " * ind
        if k == "expr":
            self.emit(pad)
            self.ex(n["a"])
            self.emit(";")
            self.nl()
        elif k == "block":
            for s in n["ss"]:
                self.st(s, ind)
        elif k == "if":
            self.emit(pad + "if (")
            self.ex(n["a"])
            self.emit(") {")
            self.nl()
            self.st(n["b"], ind + 1)
            if n["c"]:
                self.emit(pad + "} else {")
                self.nl()
                self.st(n["c"], ind + 1)
            self.emit(pad + "}")
            self.nl()
        elif k == "while":
            self.emit(pad + "while (")
            self.ex(n["a"])
            self.emit(") {")
            self.nl()
            self.st(n["b"], ind + 1)
            self.emit(pad + "}")
            self.nl()
        elif k == "dowhile":
            self.emit(pad + "do {")
            self.nl()
            self.st(n["b"], ind + 1)
            self.emit(pad + "} while (")
            self.ex(n["a"])
            self.emit(");")
            self.nl()
        elif k == "for":
            self.emit(pad + "for (")
            if n["a"]:
                self.ex(n["a"])
            self.emit("; ")
            if n["b"]:
                self.ex(n["b"])
            self.emit("; ")
            if n["c"]:
                self.ex(n["c"])
            self.emit(") {")
            self.nl()
            self.st(n["d"], ind + 1)
            self.emit(pad + "}")
            self.nl()
        elif k == "switch":
            self.emit(pad + "switch (")
            self.ex(n["a"])
            self.emit(") {")
            self.nl()
            for cs in n["ss"]:
                c = self.N(cs)
                if c["op"] == "default":
                    self.emit(pad + "default:")
                else:
                    self.emit(pad + "case %d:" % c["v"])
                self.nl()
                for s in c["ss"]:
                    self.st(s, ind + 1)
            self.emit(pad + "}")
            self.nl()
        elif k in ("break", "continue"):
            self.emit(pad + k + ";")
            self.nl()
        elif k == "ret":
            self.emit(pad + "return")
            if n["a"]:
                self.emit(" ")
                self.ex(n["a"])
            self.emit(";")
            self.nl()
        elif k == "call":
            self.emit(pad)
            if n["a"]:
                self.ex(n["a"])
            else:
                self.ex(n["b"])
            self.emit(";")
            self.nl()
        else:
            raise ValueError("not a statement: %s" % k)

    def decl(self, v):
        if v["ty"] == "ptr":
            return "%s *%s" % (self.cname(v["pt"]), v["name"])
        if v["ty"] == "arr":
            return "%s %s[%d]" % (self.cname(v["pt"]), v["name"], v["n"])
        return "%s %s" % (self.cname(v["ty"]), v["name"])

    def function(self, fi):
        f = self.p["funcs"][fi - 1]
        rt = "void" if f["ret"] == "void" else self.cname(f["ret"])
        params = ", ".join(self.decl(v) for v in f["vars"][:f["np"]]) or "void"
        self.emit("%s%s %s(%s)" % ("static " if fi > 1 else "", rt, f["name"], params))
        self.nl()
        self.emit("{")
        self.nl()
        for v in f["vars"][f["np"]:]:
            self.emit("    " + self.decl(v) + ";")
            self.nl()
        self.st(f["body"], 1)
        self.emit("}")
        self.nl()

    def program(self):
        for fi in range(len(self.p["funcs"]), 0, -1):   # helpers first, entry last
            self.function(fi)
            self.nl()


def render_tu(progs, plat):
    lines = []
    posmap = {}
    for pidx, p in enumerate(progs):
        R(p, pidx, plat, lines, posmap).program()
    return "\n".join(lines) + "\n", posmap


NATIVE_PRELUDE = r"""
#include <stdio.h>
#include <stdlib.h>
#include <unistd.h>
#include <sys/wait.h>
static void probe_out(int isprobe, long long v) { if (isprobe) printf("P %lld\n", v); else printf("E\n"); fflush(stdout); }
#define PROBE(isprobe, e) ({ __typeof__(e) _pv = (e); probe_out(isprobe, (long long)_pv); _pv; })
#define PROBEV(isprobe, e) (probe_out(isprobe, (long long)(e)))
"""


def render_native(progs, plat, runs, probe=None, reach=None):
    """progs: list of programs; runs: list of (prog index, [input values]).
    probe / reach: (prog index, node id).  Output protocol (stdout), one block per run:
        RUN <k>            start of run k
        P <value>          the probed node was evaluated to value      (several lines possible)
        E                  the `reach` node was evaluated
        RET <value>        the entry function returned normally
        END <k> <status>   status 0 = clean exit of the child, otherwise killed / sanitizer report
    """
    lines = [ln for ln in NATIVE_PRELUDE.split("\n")]
    if plat == "p16":
        lines += P16_PRELUDE.split("\n")
    for pidx, p in enumerate(progs):
        pr = probe[1] if probe and probe[0] == pidx else 0
        rc = reach[1] if reach and reach[0] == pidx else 0
        (R16 if plat == "p16" else R)(p, pidx, plat, lines, None, native=True, probe=pr, reach=rc).program()
    lines.append("int main(void)")
    lines.append("{")
    lines.append("    setvbuf(stdout, 0, _IONBF, 0);")
    for k, (pidx, inp) in enumerate(runs):
        p = progs[pidx]
        f = p["funcs"][0]
        args = ", ".join("(%s)%dLL" % (("t_" + f["vars"][j]["ty"]) if plat == "p16" else T.CNAME[f["vars"][j]["ty"]], inp[j])
                         for j in range(f["np"]))
        lines.append("    { printf(\"RUN %d\\n\"); pid_t c = fork(); if (c == 0) { long long r = (long long)%s(%s); printf(\"RET %%lld\\n\", r); _exit(0); }"
                     " int st = 0; waitpid(c, &st, 0); printf(\"END %d %%d\\n\", st); }" % (k, f["name"], args, k))
    lines.append("    return 0;")
    lines.append("}")
    return "\n".join(lines) + "\n"


# ------------------------------------------------------------------------------------------------ p16 native witness
# gcc has no target with 16 bit int here, so the witness for platform p16 is compiled from an explicit form: every
# variable has the exact-width native type (int -> int16_t, long -> int32_t, ...), every expression is computed in
# long long and brought back to its C type by a conversion (cv_*) or, for signed arithmetic, by a range check that
# aborts like UBSan would (ck_*).  Memory (pointers, arrays, aliasing) and control flow are the compiler's.
P16_PRELUDE = r"""
#include <stdint.h>
typedef int8_t t_char; typedef int8_t t_schar; typedef uint8_t t_uchar; typedef int16_t t_short; typedef uint16_t t_ushort;
typedef int16_t t_int; typedef uint16_t t_uint; typedef int32_t t_long; typedef uint32_t t_ulong;
static void ub16(const char *w) { fprintf(stderr, "p16 runtime error: %s\n", w); fflush(stderr); abort(); }
static long long cv_s(int b, long long v) { unsigned long long m = (unsigned long long)v & ((1ULL << b) - 1); if (m >> (b - 1)) return (long long)m - (1LL << b); return (long long)m; }
static long long cv_u(int b, long long v) { return (long long)((unsigned long long)v & ((1ULL << b) - 1)); }
static long long ck_s(int b, long long v) { if (v < -(1LL << (b - 1)) || v > (1LL << (b - 1)) - 1) ub16("signed overflow"); return v; }
static long long dv(long long a, long long b) { if (b == 0) ub16("division by zero"); return a / b; }
static long long md(int sg, int bits, long long a, long long b) { if (b == 0) ub16("division by zero"); if (sg && b == -1 && a == -(1LL << (bits - 1))) ub16("signed overflow"); return a % b; }
static long long shl(int sg, int b, long long a, long long n) { if (n < 0 || n >= b) ub16("shift count"); if (sg) { if (a < 0) ub16("shift of negative"); if (a > (((1LL << (b - 1)) - 1) >> n)) ub16("shift overflow"); return a << n; } return cv_u(b, a << n); }
static long long shr(int sg, int b, long long a, long long n) { if (n < 0 || n >= b) ub16("shift count"); return a >> n; }
"""


class R16(R):
    """Expression emitter of the explicit p16 form (statements are inherited)."""

    def B(self, ty):
        return T.bits("p16", ty)

    def S(self, ty):
        return T.signed("p16", ty)

    def cv(self, ty, emit_inner):
        self.emit("cv_%s(%d, " % ("s" if self.S(ty) else "u", self.B(ty)))
        emit_inner()
        self.emit(")")

    def ar(self, ty, emit_inner):
        """result of an arithmetic operator of type ty"""
        if self.S(ty):
            self.emit("ck_s(%d, " % self.B(ty))
        else:
            self.emit("cv_u(%d, " % self.B(ty))
        emit_inner()
        self.emit(")")

    def rv(self, i):
        """emit node i as a long long rvalue (pointer typed nodes as pointers)"""
        self.ex(i)

    def lvtext(self, i):
        n = self.N(i)
        if n["k"] == "var":
            self.emit(self.vname(n["fn"], n["v"]))
        elif n["k"] == "deref":
            self.emit("(*")
            self.rv(n["a"])
            self.emit(")")
        else:
            self.emit(self.vname(n["fn"], self.N(n["a"])["v"]) + "[")
            self.rv(n["b"])
            self.emit("]")

    def binop(self, op, ct, ea, eb):
        """emit (converted a) op (converted b) of operator type ct, a and b given as emit callbacks"""
        if op in ("/",):
            self.ar(ct, lambda: (self.emit("dv("), self.cv(ct, ea), self.emit(", "), self.cv(ct, eb), self.emit(")")))
        elif op == "%":
            self.emit("md(%d, %d, " % (1 if self.S(ct) else 0, self.B(ct)))
            self.cv(ct, ea)
            self.emit(", ")
            self.cv(ct, eb)
            self.emit(")")
        elif op in ("<<", ">>"):
            self.emit("%s(%d, %d, " % ("shl" if op == "<<" else "shr", 1 if self.S(ct) else 0, self.B(ct)))
            self.cv(ct, ea)
            self.emit(", ")
            eb()
            self.emit(")")
        elif op in ("&", "|", "^"):
            self.cv(ct, lambda: (self.emit("("), self.cv(ct, ea), self.emit(" %s " % op), self.cv(ct, eb), self.emit(")")))
        else:
            self.ar(ct, lambda: (self.emit("("), self.cv(ct, ea), self.emit(" %s " % op), self.cv(ct, eb), self.emit(")")))

    def ex(self, i, lvalue_ctx=False):
        n = self.N(i)
        wrap = (i == self.probe or i == self.reach) and not lvalue_ctx and n["ty"] != "arr"
        if wrap:
            self.emit("PROBE(%d, " % (1 if i == self.probe else 0))
        self.ex0(i, n)
        if wrap:
            self.emit(")")

    def ex0(self, i, n):
        k = n["k"]
        ty = n["ty"]
        if k == "num":
            self.emit("(%dLL)" % n["v"])
        elif k == "var":
            nm = self.vname(n["fn"], n["v"])
            self.emit(nm if ty in ("ptr", "arr") else "((long long)%s)" % nm)
        elif k in ("deref", "idx"):
            self.emit("((long long)")
            self.lvtext(i)
            self.emit(")")
        elif k == "addr":
            self.emit("(&")
            self.lvtext(n["a"])
            self.emit(")")
        elif k == "cast":
            self.cv(ty, lambda: self.rv(n["a"]))
        elif k == "un":
            if n["op"] == "!":
                self.emit("((long long)!(")
                self.rv(n["a"])
                self.emit("))")
            elif n["op"] == "-":
                self.ar(ty, lambda: (self.emit("(-"), self.cv(ty, lambda: self.rv(n["a"])), self.emit(")")))
            elif n["op"] == "~":
                self.cv(ty, lambda: (self.emit("(~"), self.cv(ty, lambda: self.rv(n["a"])), self.emit(")")))
            else:
                self.cv(ty, lambda: self.rv(n["a"]))
        elif k == "bin":
            ta, tb = self.N(n["a"])["ty"], self.N(n["b"])["ty"]
            ea, eb = (lambda: self.rv(n["a"])), (lambda: self.rv(n["b"]))
            if ta == "ptr" or tb == "ptr":
                self.emit("((long long)(")
                ea()
                self.emit(" %s " % n["op"])
                if self.N(n["b"])["k"] == "num":
                    self.emit("0")
                else:
                    eb()
                self.emit("))")
            elif n["op"] in ("<", "<=", ">", ">=", "==", "!="):
                ct = T.common("p16", ta, tb)
                self.emit("((long long)(")
                self.cv(ct, ea)
                self.emit(" %s " % n["op"])
                self.cv(ct, eb)
                self.emit("))")
            elif n["op"] in ("<<", ">>"):
                self.binop(n["op"], ty, ea, eb)
            else:
                self.binop(n["op"], T.common("p16", ta, tb), ea, eb)
        elif k in ("land", "lor"):
            self.emit("((long long)((")
            self.rv(n["a"])
            self.emit(") %s (" % ("&&" if k == "land" else "||"))
            self.rv(n["b"])
            self.emit(")))")
        elif k == "cond":
            self.emit("((")
            self.rv(n["a"])
            self.emit(") ? ")
            self.cv(ty, lambda: self.rv(n["b"]))
            self.emit(" : ")
            self.cv(ty, lambda: self.rv(n["c"]))
            self.emit(")")
        elif k == "asg" and n["op"] == "=":
            if ty == "ptr":
                self.emit("(")
                self.lvtext(n["a"])
                self.emit(" = ")
                if self.N(n["b"])["k"] == "num":
                    self.emit("0")
                else:
                    self.rv(n["b"])
                self.emit(")")
            else:
                self.emit("({ long long _r%d = " % i)
                self.cv(ty, lambda: self.rv(n["b"]))
                self.emit("; ")
                self.lvtext(n["a"])
                self.emit(" = (t_%s)_r%d; _r%d; })" % (ty, i, i))
        elif k in ("asg", "inc"):
            # E1 op= E2 : address of E1, old value, E2, operation in the common type, conversion to the type of E1
            self.emit("({ t_%s *_p%d = &" % (ty, i))
            self.lvtext(n["a"])
            self.emit("; long long _o%d = *_p%d; " % (i, i))
            if n["a"] == self.probe or n["a"] == self.reach:
                self.emit("probe_out(%d, _o%d); " % (1 if n["a"] == self.probe else 0, i))
            self.emit("long long _r%d = " % i)
            old = lambda: self.emit("_o%d" % i)
            if k == "inc":
                ct = T.common("p16", ty, "int")
                self.cv(ty, lambda: self.binop("+" if n["op"] == "++" else "-", ct, old, lambda: self.emit("1LL")))
            else:
                op = n["op"][:-1]
                tb = self.N(n["b"])["ty"]
                ct = T.promote("p16", ty) if op in ("<<", ">>") else T.common("p16", ty, tb)
                self.cv(ty, lambda: self.binop(op, ct, old, lambda: self.rv(n["b"])))
            self.emit("; *_p%d = (t_%s)_r%d; %s; })" % (i, ty, i, ("_r%d" % i) if (k == "asg" or n["v"] == 1) else ("_o%d" % i)))
        elif k == "callx":
            f = self.p["funcs"][n["v"] - 1]
            if f["ret"] != "void":
                self.emit("((long long)")
            self.emit(f["name"] + "(")
            for j, a in enumerate(n["ss"]):
                if j:
                    self.emit(", ")
                pty = f["vars"][j]["ty"]
                if pty == "ptr":
                    self.rv(a)
                else:
                    self.emit("(t_%s)" % pty)
                    self.cv(pty, lambda a=a: self.rv(a))
            self.emit(")")
            if f["ret"] != "void":
                self.emit(")")
        else:
            raise ValueError("not an expression: %s" % k)

    def st(self, i, ind):
        n = self.N(i)
        if n["k"] == "ret" and n["a"]:
            f = self.p["funcs"][n["fn"] - 1]
            self.emit("    " * ind + "return (t_%s)" % f["ret"])
            self.cv(f["ret"], lambda: self.rv(n["a"]))
            self.emit(";")
            self.nl()
        elif n["k"] == "switch":
            pad = "    " * ind
            sel = T.promote("p16", self.N(n["a"])["ty"])
            self.emit(pad + "switch (")
            self.cv(sel, lambda: self.rv(n["a"]))
            self.emit(") {")
            self.nl()
            for cs in n["ss"]:
                c = self.N(cs)
                if c["op"] == "default":
                    self.emit(pad + "default:")
                else:
                    self.emit(pad + "case %dLL:" % T.conv("p16", c["v"], sel))
                self.nl()
                for s in c["ss"]:
                    self.st(s, ind + 1)
            self.emit(pad + "}")
            self.nl()
        else:
            R.st(self, i, ind)
