"""Convert the <valueflow> section of a cppcheck --dump file into facts keyed by AST node (format conversion only;
the meaning of every fact kind is defined in spec/MiniC.tla, operator Holds).

Meaning of the dump attributes (checked against lib/vfvalue.h, lib/vfvalue.cpp Value::toString and lib/token.cpp
printValueFlow):  known + bound=Point  "v == k";  impossible + Point  "v != k";
impossible + bound=Upper  is printed `!<=k`, i.e. "v <= k" is impossible, v > k;
impossible + bound=Lower  is printed `!>=k`, i.e. "v >= k" is impossible, v < k.
For tokens of unsigned type printValueFlow prints intvalue as an unsigned 64 bit number (except the literal
`!<=-1`), so numbers >= 2^63 are mapped back to the signed bigint they were.

Fact record:  {"n": node, "k": kind, "v": int, "t": node of the symbolic expression or 0, "par": parent node or 0}
   kind  eq ne gt lt        value facts          v = k, v # k, v > k, v < k
         seq sne sgt slt    symbolic facts       v = E(t)+d, ...
         never              a claim no value of the explored range can satisfy (k outside TLC's integer range)
Only facts with indirect="0", path="0" on nodes of integer type are produced; possible / inconclusive values, other
value types (tokvalue, lifetime, uninit, container-size, ...) are not facts.
"""
import xml.etree.ElementTree as ET

import minic_types as T

TLC_MAX = 2147483647

PURE_KINDS = {"num", "var", "un", "bin", "land", "lor", "cond", "deref", "idx", "cast"}


def pure(prog, i):
    n = prog["nodes"][i - 1]
    if n["k"] not in PURE_KINDS:
        return False
    if n["k"] == "var":
        return True
    for f in ("a", "b", "c"):
        if n[f] and not pure(prog, n[f]):
            return False
    return True


def parents(prog):
    par = {}
    for i, n in enumerate(prog["nodes"], 1):
        for f in ("a", "b", "c", "d"):
            if n[f] and n["k"] not in ("num", "var", "case"):
                par[n[f]] = i
        for s in n["ss"]:
            par[s] = i
    return par


def parse_dump(path):
    """Yields (tokens, values) of the first configuration: tokens = list of attribute dicts, values = {id: [attr dicts]}."""
    root = ET.parse(path).getroot()
    d = root.find("dump")
    toks = [t.attrib for t in d.find("tokenlist")]
    vals = {}
    vf = d.find("valueflow")
    if vf is not None:
        for vs in vf:
            vals[vs.get("id")] = [v.attrib for v in vs]
    return toks, vals


def tok_matches(tokstr, expect):
    return tokstr == expect


def clamp(kind, k):
    """Facts whose constant lies outside TLC's integers: decide them against the explored range [-TLC_MAX, TLC_MAX]."""
    if -TLC_MAX <= k <= TLC_MAX:
        return kind, k
    if kind == "eq":
        return "never", 0
    if kind == "ne":
        return None, 0
    if kind == "gt":       # v > k
        return (None, 0) if k < -TLC_MAX else ("never", 0)
    if kind == "lt":       # v < k
        return (None, 0) if k > TLC_MAX else ("never", 0)
    return None, 0


def extract(dump_path, progs, posmap, stats, raw=None, base=0):
    """Returns facts[pidx] = list of fact records. stats: dict of counters (updated).
    raw (optional dict): raw[(base + pidx, node)] = list of the value attribute dicts of the token (all value types,
    used by C04 to see whether an error finding rests on a KNOWN value)."""
    toks, vals = parse_dump(dump_path)
    byid = {t["id"]: t for t in toks}
    facts = [[] for _ in progs]
    pars = [parents(p) for p in progs]

    def bump(k, n=1):
        stats[k] = stats.get(k, 0) + n

    def node_of(t):
        """Map a dump token to (pidx, node) or None."""
        key = (int(t["linenr"]), int(t["column"]))
        m = posmap.get(key)
        if m is None:
            return None
        if not tok_matches(t["str"], m[2]):
            # `int x = e;` style duplicates do not occur (no initialisers); anything else is a mapping error
            return None
        return m[0], m[1]

    seen_pos = set()
    for t in toks:
        vid = t.get("values")
        if not vid:
            continue
        m = node_of(t)
        if m is None:
            key = (int(t["linenr"]), int(t["column"]))
            if key in posmap:
                bump("unmapped_token_text_mismatch")
                stats.setdefault("unmapped_examples", [])
                if len(stats["unmapped_examples"]) < 5:
                    stats["unmapped_examples"].append([t["linenr"], t["column"], t["str"], posmap[key][2]])
            else:
                bump("tokens_with_values_not_ast_nodes")      # e.g. ':' of ?:, declaration tokens, 'return'
            continue
        if (t["linenr"], t["column"]) in seen_pos:
            bump("duplicate_position")
            continue
        seen_pos.add((t["linenr"], t["column"]))
        pidx, nid = m
        prog = progs[pidx]
        node = prog["nodes"][nid - 1]
        if raw is not None:
            raw[(base + pidx, nid)] = [dict(v) for v in vals.get(vid, [])]
        par0 = pars[pidx].get(nid, 0)
        if par0 and prog["nodes"][par0 - 1]["k"] == "asg" and prog["nodes"][par0 - 1]["op"] == "=" and prog["nodes"][par0 - 1]["a"] == nid:
            bump("values_on_assigned_lvalue_skipped")      # the left side of `=` is written, not read
            continue
        for v in vals.get(vid, []):
            if v.get("possible") or v.get("inconclusive"):
                bump("values_possible")
                continue
            known = v.get("known") == "true"
            imp = v.get("impossible") == "true"
            if not (known or imp):
                continue
            if node["ty"] not in T.RANK:
                bump("values_on_non_integer_node")
                continue
            if v.get("indirect", "0") != "0":
                bump("values_indirect")
                continue
            if v.get("path", "0") != "0":
                bump("values_path_specific")
                continue
            bound = v.get("bound", "Point")
            par = pars[pidx].get(nid, 0)
            if "intvalue" in v:
                k = int(v["intvalue"])
                if k >= (1 << 63):
                    k -= (1 << 64)
                if known:
                    if bound != "Point":
                        bump("values_known_with_bound")
                        continue
                    kind = "eq"
                else:
                    kind = {"Point": "ne", "Upper": "gt", "Lower": "lt"}[bound]
                kind, k = clamp(kind, k)
                if kind is None:
                    bump("facts_trivial_outside_range")
                    continue
                facts[pidx].append({"n": nid, "k": kind, "v": k, "t": 0, "par": par,
                                    "line": int(t["linenr"]), "col": int(t["column"]), "tok": t["str"]})
                bump("fact_" + kind)
            elif "symbolic" in v:
                st = byid.get(v["symbolic"])
                d = int(v["symbolic-delta"])
                sm = node_of(st) if st is not None else None
                if sm is None or sm[0] != pidx:
                    bump("symbolic_unmapped")
                    continue
                sn = sm[1]
                if prog["nodes"][sn - 1]["fn"] != node["fn"]:
                    bump("symbolic_other_function")
                    continue
                if prog["nodes"][sn - 1]["ty"] not in T.RANK:
                    bump("symbolic_non_integer")
                    continue
                if not pure(prog, sn):
                    bump("symbolic_not_side_effect_free")
                    continue
                if abs(d) > 1000000:
                    bump("symbolic_delta_large")
                    continue
                if known:
                    if bound != "Point":
                        bump("values_known_with_bound")
                        continue
                    kind = "seq"
                else:
                    kind = {"Point": "sne", "Upper": "sgt", "Lower": "slt"}[bound]
                facts[pidx].append({"n": nid, "k": kind, "v": d, "t": sn, "par": par,
                                    "line": int(t["linenr"]), "col": int(t["column"]), "tok": t["str"]})
                bump("fact_" + kind)
            else:
                bump("values_other_type")
    return facts
