"""scopes_render - write the programs of spec/Scopes.tla as C++ / C source text (format conversion only).

A program is the item list emitted by TLC (see the comment "Items of the program text" in Scopes.tla).  Every item
becomes ONE source line; the renderer reports where every name token of the item landed:

    render(prog, tag, lang)  ->  (lines, toks)
        lines  list of source lines (no trailing newline)
        toks   [{"i": item number (1-based), "s": 0 for the item's own name | index in sub (1-based),
                 "line": 0-based line offset inside `lines`, "col": 1-based column}]

Nothing here knows what a name means: names are written where the item says, suffixed with `tag` so that many programs
can share a translation unit (x -> x_17, N -> N_17, S3 -> S3_17, ...).  Which declaration a token refers to is stated
by the spec (ids in the items) and judged by spec/ScopesJudge.tla.
"""

# variant: 0 = lambdas are not `mutable`, names are only read inside lambda bodies (`if (x) { }`); 1 = every lambda is
# `mutable` and uses are assignments everywhere
ARG_TEXT = {"char": "'a'", "short": "(short)1", "int": "1", "long": "1L", "float": "1.5f", "double": "1.5"}


class _Line:
    def __init__(self, indent):
        self.text = " " * indent
        self.toks = []

    def put(self, s):
        self.text += s
        return self

    def name(self, s, i, sub):
        self.toks.append({"i": i, "s": sub, "col": len(self.text) + 1})
        self.text += s
        return self


def render(prog, tag, lang="c++", variant=0):
    sfx = "_%s" % tag
    lines = []
    toks = []
    openers = []   # syntactic nesting only: which closing text a `close` item needs

    def nm(s):
        return s + sfx

    for idx, it in enumerate(prog):
        i = idx + 1
        op = it["op"]
        depth = len(openers) - (1 if op == "close" else 0)
        ln = _Line(2 * depth)
        sub = it["sub"]
        if op == "ns":
            ln.put("namespace %s {" % nm(it["nm"]))
            openers.append("}")
        elif op == "class":
            ln.put("struct %s {" % nm(it["nm"]))
            openers.append("};")
        elif op == "func":
            ln.put("void %s(" % nm(it["nm"]))
            for j, p in enumerate(sub):
                if j:
                    ln.put(", ")
                ln.put("int ").name(nm(p["nm"]), i, j + 1)
            if not sub and lang == "c":
                ln.put("void")
            ln.put(") {")
            openers.append("}")
        elif op == "block":
            ln.put("{")
            openers.append("}")
        elif op == "for":
            ln.put("for (int ").name(nm(it["nm"]), i, 0).put(" = 0; ").name(nm(sub[0]["nm"]), i, 1).put(" < 2; ")
            ln.name(nm(sub[1]["nm"]), i, 2).put("++) {")
            openers.append("}")
        elif op == "lambda":
            ln.put("auto %s = [" % nm(it["nm"]))
            first = True
            if it["form"] in ("=", "&"):
                ln.put(it["form"])
                first = False
            params = []
            j = 0
            while j < len(sub):
                sb = sub[j]
                f = sb["form"]
                if f == "param":
                    params.append((j + 1, sb))
                    j += 1
                    continue
                if not first:
                    ln.put(", ")
                first = False
                if f == "copy":
                    ln.name(nm(sb["nm"]), i, j + 1)
                elif f == "ref":
                    ln.put("&").name(nm(sb["nm"]), i, j + 1)
                elif f == "this":
                    ln.put("this")
                elif f == "initcap":
                    ln.name(nm(sb["nm"]), i, j + 1).put(" = ").name(nm(sub[j + 1]["nm"]), i, j + 2)
                    j += 1
                j += 1
            ln.put("](")
            for k, (sj, p) in enumerate(params):
                if k:
                    ln.put(", ")
                ln.put("int ").name(nm(p["nm"]), i, sj)
            ln.put(") mutable {" if variant else ") {")
            openers.append("};L")
        elif op == "close":
            ln.put(openers.pop().rstrip("L"))
        elif op == "decl":
            f = it["form"]
            if f == "smember":
                ln.put("static ")
            ln.put("int ").name(nm(it["nm"]), i, 0)
            if sub:
                ln.put(" = ").name(nm(sub[0]["nm"]), i, 1)
            elif f == "local":
                ln.put(" = 0")
            ln.put(";")
        elif op == "use":
            f = it["form"]
            if f == "this":
                ln.put("this->")
            elif f == "glob":
                ln.put("::")
            elif f == "qual":
                ln.put("".join(nm(q) + "::" for q in it["q"]))
            read = not variant and any(o.endswith("L") for o in openers)
            if read:
                ln.text = ln.text[:2 * depth] + "if (" + ln.text[2 * depth:]
            ln.name(nm(it["nm"]), i, 0).put(") { }" if read else " = 1;")
        elif op == "fdecl":
            ln.put("void ").name(nm(it["nm"]), i, 0).put("(%s);" % ", ".join(p["nm"] for p in sub))
        elif op == "call":
            ln.name(nm(it["nm"]), i, 0).put("(%s);" % ", ".join(ARG_TEXT[a["nm"]] for a in sub))
        else:
            raise ValueError("unknown item %r" % (op,))
        for t in ln.toks:
            t["line"] = len(lines)
            toks.append(t)
        lines.append(ln.text)
    if openers:
        raise ValueError("program leaves %d scopes open" % len(openers))
    return lines, toks


def render_unit(progs, lang="c++", variant=0):
    """Concatenate programs into one translation unit.  progs: [(tag, prog)].
    Returns (text, {tag: toks with absolute 1-based "line"})."""
    out = []
    table = {}
    for tag, prog in progs:
        lines, toks = render(prog, tag, lang, variant)
        base = len(out)
        for t in toks:
            t["line"] = base + t["line"] + 1
        table[tag] = toks
        out.extend(lines)
    return "\n".join(out) + "\n", table
