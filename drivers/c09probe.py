#!/usr/bin/env python3
"""Probe step of C09 (called by TLC through IOExec between generation and judgement, or by checks/C09.py).

usage: c09probe.py <workdir>   reads <workdir>/cases.ndjson (written by C09.tla), runs cppcheck --dump and the clang
witness on the rendered translation units, writes <workdir>/obs.ndjson (one observation per case, same order).
"""
import os
import sys

HERE = os.path.dirname(os.path.abspath(__file__))
sys.path.insert(0, os.path.join(os.path.dirname(HERE), "lib"))
sys.path.insert(0, HERE)

import cprobe  # noqa: E402
import vlib  # noqa: E402

BATCH = 1000


def probe(work):
    rows = vlib.read_ndjson(os.path.join(work, "cases.ndjson"))
    hdr, cases = rows[0], rows[1:]
    if hdr["ncases"] != len(cases):
        raise vlib.InfraError("case list truncated in %s" % work)
    lang, plat = hdr["lang"], hdr["platform"]
    batches = cprobe.chunks(cases, BATCH)

    def one(ib):
        i, batch = ib
        info, errs = cprobe.run_cppcheck_batch(work, "cc%d" % i, lang, ["--platform=" + plat], hdr["preamble_cc"],
                                            [c["cc"] for c in batch], hdr["epilogue"])
        cl = cprobe.run_clang_batch(work, "w%d" % i, lang, hdr["triple"], hdr["preamble_w"],
                                    [c["w"] for c in batch], hdr["epilogue"])
        return info, cl, errs

    results = cprobe.pmap(one, list(enumerate(batches)), workers=int(os.environ.get("C09_PROBE_WORKERS", "3")))
    obs = []
    for batch, (info, cl, errs) in zip(batches, results):
        errd = dict(errs)
        for j, (c, inf, ce) in enumerate(zip(batch, info, cl)):
            inf = inf or {}
            obs.append({"id": c["id"], "expr": c["expr"], "has": bool(inf.get("type")),
                        "tok": inf.get("tok") or "", "type": inf.get("type") or "",
                        "sign": inf.get("sign") or "", "pointer": inf.get("pointer") or 0,
                        "clang": "skip" if not c["w"] else ("fail" if ce else "ok"),
                        "clang_msg": ce or "", "cppcheck_error": errd.get(j, "")})
    vlib.write_ndjson(os.path.join(work, "obs.ndjson"), obs)


if __name__ == "__main__":
    try:
        probe(sys.argv[1])
    except vlib.InfraError as ex:
        sys.stderr.write("ERROR %s\n" % ex)
        sys.exit(2)
