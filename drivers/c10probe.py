#!/usr/bin/env python3
"""Probe step of C10 (called by TLC through IOExec between generation and judgement).

usage: c10probe.py <workdir>   reads <workdir>/cases.ndjson (written by C10.tla), writes the platform file if the
platform is a generated one, runs cppcheck --dump and the clang witness on the rendered translation units and writes
<workdir>/obs.ndjson: per case the value cppcheck marks as known on the root token of the expression (decimal text,
split into characters because TLA+ strings cannot be indexed) and whether the witness accepted the assertion.
"""
import os
import sys

HERE = os.path.dirname(os.path.abspath(__file__))
sys.path.insert(0, os.path.join(os.path.dirname(HERE), "lib"))
sys.path.insert(0, HERE)

import cprobe  # noqa: E402
import vlib  # noqa: E402

BATCH = 1000


def known_value(inf):
    for v in (inf or {}).get("values", []):
        if v.get("known") == "true":
            if "intvalue" in v:
                return "int", v["intvalue"]
            if "floatvalue" in v:
                return "float", v["floatvalue"]
    return "", ""


def probe(work):
    rows = vlib.read_ndjson(os.path.join(work, "cases.ndjson"))
    hdr, cases = rows[0], rows[1:]
    if hdr["ncases"] != len(cases):
        raise vlib.InfraError("case list truncated in %s" % work)
    lang, plat = hdr["lang"], hdr["platform"]
    if hdr["generated"]:
        pf = os.path.join(work, plat + ".xml")
        with open(pf, "w") as f:
            f.write("\n".join(hdr["platform_xml"]) + "\n")
        plat_args = ["--platform=" + pf]
    else:
        plat_args = ["--platform=" + plat]
    batches = cprobe.chunks(cases, BATCH)

    def one(ib):
        i, batch = ib
        info, errs = cprobe.run_cppcheck_batch(work, "cc%d" % i, lang, plat_args, hdr["preamble_cc"],
                                            [c["cc"] for c in batch], hdr["epilogue"])
        if hdr["triple"]:
            cl = cprobe.run_clang_batch(work, "w%d" % i, lang, hdr["triple"], hdr["preamble_w"],
                                        [c["w"] for c in batch], hdr["epilogue"])
        else:
            cl = [None] * len(batch)
        return info, cl, errs

    results = cprobe.pmap(one, list(enumerate(batches)), workers=int(os.environ.get("C10_PROBE_WORKERS", "3")))
    obs = []
    for batch, (info, cl, errs) in zip(batches, results):
        errd = dict(errs)
        for j, (c, inf, ce) in enumerate(zip(batch, info, cl)):
            kind, val = known_value(inf)
            obs.append({"id": c["id"], "expr": c["expr"], "tok": (inf or {}).get("tok") or "",
                        "vkind": kind, "val": list(val),
                        "cc_type": "%s/%s" % ((inf or {}).get("type") or "", (inf or {}).get("sign") or ""),
                        "clang": "skip" if not c["w"] else ("fail" if ce else "ok"), "clang_msg": ce or "", "cppcheck_error": errd.get(j, "")})
    vlib.write_ndjson(os.path.join(work, "obs.ndjson"), obs)


if __name__ == "__main__":
    try:
        probe(sys.argv[1])
    except vlib.InfraError as ex:
        sys.stderr.write("ERROR %s\n" % ex)
        sys.exit(2)
