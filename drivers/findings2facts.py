"""Findings of cppcheck (text template: id, severity, certainty, line, column, message) -> facts keyed by AST node.

C03 (verdicts): a finding that states that an expression always has a truth value / value becomes the fact
   {"k": "true"} / {"k": "false"} / {"k": "eq", "v": n} on the node at the finding's primary location.
   Only ids whose message or definition states the value are used; everything else is counted and ignored:
     knownConditionTrueFalse           "... is always true|false"
     compareValueOutOfTypeRangeError   "... Condition is always true|false."
     comparisonError                   "Expression '...' is always true|false."   (also "... always evaluates to true|false")
     incorrectLogicOperator            "Logical conjunction always evaluates to false" / "Logical disjunction always evaluates to true"
     oppositeInnerCondition            the inner condition (primary location) is false whenever it is evaluated
     identicalInnerCondition           "Identical inner 'if' condition is always true."
     identicalConditionAfterEarlyExit  "... second condition is always false" / "... return value is always <n>"
     unsignedLessThanZero              `x < 0`  is false      unsignedPositive   `x >= 0` is true   (taken only on such nodes)
     knownArgument                     "Argument '...' to function f is always <n>."
C04 (flags): error-severity, non-inconclusive findings of the runtime-error ids become {"k": "flag"} on the node.
"""
import re

VERDICT_IDS = {"knownConditionTrueFalse", "compareValueOutOfTypeRangeError", "comparisonError", "incorrectLogicOperator",
               "oppositeInnerCondition", "identicalInnerCondition", "identicalConditionAfterEarlyExit", "unsignedLessThanZero",
               "unsignedPositive", "knownArgument", "moduloAlwaysTrueFalse", "duplicateCondition", "pointerLessThanZero",
               "pointerPositive", "knownPointerToBool", "compareBoolExpressionWithInt", "comparisonOfBoolWithInvalidComparator"}

RUNTIME_ERROR_IDS = {"zerodiv", "nullPointer", "arrayIndexOutOfBounds", "negativeIndex", "uninitvar", "shiftTooManyBits",
                     "shiftTooManyBitsSigned", "shiftNegative", "integerOverflow", "uninitdata", "uninitStructMember",
                     "bufferAccessOutOfBounds", "nullPointerArithmetic", "negativeArraySize", "invalidFunctionArg",
                     "pointerOutOfBounds", "arrayIndexOutOfBoundsCond"}

CMP_OPS = {"<", "<=", ">", ">=", "==", "!="}
INT_TYPES = {"char", "schar", "uchar", "short", "ushort", "int", "uint", "long", "ulong"}


def polarity(msg):
    m = re.search(r"always (?:evaluates to )?(true|false)\b", msg)
    return m.group(1) if m else None


def verdict_of(fd, node):
    """fact dict (without node) or None with a reason."""
    fid, msg = fd["id"], fd["msg"]
    if fid in ("knownConditionTrueFalse", "compareValueOutOfTypeRangeError", "comparisonError", "incorrectLogicOperator",
               "identicalInnerCondition"):
        p = polarity(msg)
        if p:
            return {"k": p, "v": 0}, None
        return None, "no polarity in message"
    if fid == "oppositeInnerCondition":
        return {"k": "false", "v": 0}, None
    if fid == "identicalConditionAfterEarlyExit":
        p = polarity(msg)
        if p:
            return {"k": p, "v": 0}, None
        m = re.search(r"return value is always (-?\d+)", msg)
        if m:
            return {"k": "eq", "v": int(m.group(1))}, None
        return None, "no value in message"
    if fid == "unsignedLessThanZero":
        if node["k"] == "bin" and node["op"] == "<":
            return {"k": "false", "v": 0}, None
        return None, "not on a < node"
    if fid == "unsignedPositive":
        if node["k"] == "bin" and node["op"] == ">=":
            return {"k": "true", "v": 0}, None
        return None, "not on a >= node"
    if fid == "knownArgument":
        m = re.search(r"is always (-?\d+)", msg)
        if m and abs(int(m.group(1))) < 2147483647:
            return {"k": "eq", "v": int(m.group(1))}, None
        return None, "no value in message"
    return None, "id states no value"


def verdicts(progs, findings, stats):
    """facts[pidx] = list of {"n","k","v","t","par","id","msg","line","col"} for C03."""
    res = [[] for _ in progs]
    for pidx, (p, fds) in enumerate(zip(progs, findings)):
        for fd in fds:
            if fd["id"] not in VERDICT_IDS:
                continue
            stats["verdict_findings"] = stats.get("verdict_findings", 0) + 1
            stats["id_" + fd["id"]] = stats.get("id_" + fd["id"], 0) + 1
            if fd["inconclusive"]:
                stats["verdict_inconclusive_ignored"] = stats.get("verdict_inconclusive_ignored", 0) + 1
                continue
            if not fd["node"]:
                stats["verdict_not_on_ast_node"] = stats.get("verdict_not_on_ast_node", 0) + 1
                continue
            node = p["nodes"][fd["node"] - 1]
            if fd["id"] in ("compareValueOutOfTypeRangeError", "comparisonError") and not (node["k"] == "bin" and node["op"] in CMP_OPS):
                # these ids are reported at an operand (the out-of-range value / the & | expression); the verdict is about the comparison
                par = [i for i, q in enumerate(p["nodes"], 1) if q["k"] == "bin" and q["op"] in CMP_OPS and fd["node"] in (q["a"], q["b"])]
                if not par:
                    stats["verdict_operand_without_comparison"] = stats.get("verdict_operand_without_comparison", 0) + 1
                    continue
                fd = dict(fd, node=par[0])
                node = p["nodes"][par[0] - 1]
            if node["ty"] not in INT_TYPES or node["k"] == "num":
                stats["verdict_on_non_integer_node"] = stats.get("verdict_on_non_integer_node", 0) + 1
                continue
            f, why = verdict_of(fd, node)
            if f is None:
                stats["verdict_ignored_" + fd["id"]] = stats.get("verdict_ignored_" + fd["id"], 0) + 1
                continue
            f.update({"n": fd["node"], "t": 0, "par": 0, "id": fd["id"], "msg": fd["msg"], "line": fd["line"], "col": fd["col"]})
            res[pidx].append(f)
            stats["fact_" + fd["id"]] = stats.get("fact_" + fd["id"], 0) + 1
    return res


def known_ints(raw, pidx, node):
    return [int(v["intvalue"]) for v in raw.get((pidx, node), []) if v.get("known") == "true" and "intvalue" in v
            and v.get("indirect", "0") == "0" and v.get("bound", "Point") == "Point"]


def definite(p, pidx, fd, node, raw):
    """Does the error finding rest on a KNOWN value at the operand that makes the evaluation undefined?  (C04 is about
    findings 'because of a definite value there'; cppcheck also reports error severity for values that are only
    possible on some path - those are not claims about every execution and are not flagged.)"""
    import minic_types as T
    plat = p["plat"]
    fid = fd["id"]
    nid = fd["node"]
    if fid == "zerodiv":
        return node["k"] in ("bin", "asg") and 0 in known_ints(raw, pidx, node["b"])
    if fid == "nullPointer":
        return node["ty"] == "ptr" and 0 in known_ints(raw, pidx, nid)
    if fid in ("arrayIndexOutOfBounds", "negativeIndex"):
        if node["k"] != "idx":
            return False
        n = p["funcs"][node["fn"] - 1]["vars"][p["nodes"][node["a"] - 1]["v"] - 1]["n"]
        return any(k < 0 or k >= n for k in known_ints(raw, pidx, node["b"]))
    if fid in ("shiftTooManyBits", "shiftTooManyBitsSigned", "shiftNegative"):
        if node["k"] not in ("bin", "asg"):
            return False
        width = T.bits(plat, node["ty"]) if node["ty"] in T.RANK else 0
        return any(k < 0 or k >= width for k in known_ints(raw, pidx, node["b"]))
    if fid == "integerOverflow":
        if node["k"] == "bin":
            return bool(known_ints(raw, pidx, node["a"])) and bool(known_ints(raw, pidx, node["b"]))
        if node["k"] == "un":
            return bool(known_ints(raw, pidx, node["a"]))
        return False
    if fid == "uninitvar":
        return any(v.get("known") == "true" and "uninit" in v and v.get("indirect", "0") == "0" for v in raw.get((pidx, nid), []))
    return False


def flags(progs, findings, stats, raw):
    """facts[pidx] = list of flag facts for C04."""
    res = [[] for _ in progs]
    for pidx, (p, fds) in enumerate(zip(progs, findings)):
        seen = set()
        for fd in fds:
            if fd["severity"] != "error":
                continue
            stats["error_findings"] = stats.get("error_findings", 0) + 1
            stats["id_" + fd["id"]] = stats.get("id_" + fd["id"], 0) + 1
            if fd["id"] not in RUNTIME_ERROR_IDS:
                stats["error_id_not_runtime_" + fd["id"]] = stats.get("error_id_not_runtime_" + fd["id"], 0) + 1
                continue
            if fd["inconclusive"]:
                stats["error_inconclusive_ignored"] = stats.get("error_inconclusive_ignored", 0) + 1
                continue
            if not fd["node"]:
                stats["error_not_on_ast_node"] = stats.get("error_not_on_ast_node", 0) + 1
                continue
            node = p["nodes"][fd["node"] - 1]
            if node["ty"] == "arr":
                # a finding placed on the array name of a[i]: the evaluated expression is the subscript node
                par = [i for i, q in enumerate(p["nodes"], 1) if q["k"] == "idx" and q["a"] == fd["node"]]
                if par:
                    fd = dict(fd, node=par[0])
                    node = p["nodes"][par[0] - 1]
            if node["ty"] not in INT_TYPES and node["ty"] != "ptr":
                stats["error_on_untracked_node_" + node["k"]] = stats.get("error_on_untracked_node_" + node["k"], 0) + 1
                continue
            if node["k"] == "num":
                stats["error_on_literal"] = stats.get("error_on_literal", 0) + 1
                continue
            if (fd["node"], fd["id"]) in seen:
                continue
            seen.add((fd["node"], fd["id"]))
            if not definite(p, pidx, fd, node, raw):
                stats["error_without_known_value_" + fd["id"]] = stats.get("error_without_known_value_" + fd["id"], 0) + 1
                continue
            res[pidx].append({"n": fd["node"], "k": "flag", "v": 0, "t": 0, "par": 0, "id": fd["id"], "msg": fd["msg"],
                              "line": fd["line"], "col": fd["col"]})
            stats["flag_" + fd["id"]] = stats.get("flag_" + fd["id"], 0) + 1
    return res
