"""Probing cppcheck's dump and the second witness (clang) with batches of one-line expressions (C09, C10).

Pure plumbing: writes the translation units TLC rendered, runs the tools, extracts the few dump attributes the
specifications judge (valueType-* of the root token of each probed expression and its known value).  Nothing here
decides anything about types or values.
"""
import os
import platform
import re
import shutil
import sys
import time
import xml.etree.ElementTree as ET
from concurrent.futures import ThreadPoolExecutor

import vlib

WORKERS = int(os.environ.get("VERIF_PROBE_WORKERS", "6"))

LANG_EXT = {"c": ".c", "c++": ".cpp"}
CPPCHECK_STD = {"c": "--std=c11", "c++": "--std=c++23"}
CLANG_STD = {"c": ["-x", "c", "-std=c11"], "c++": ["-x", "c++", "-std=c++2b"]}


def host_is_lp64_linux():
    return sys.platform.startswith("linux") and platform.machine() == "x86_64"


def clang_bin():
    for c in ("clang", "clang-14"):
        rc, out, _ = vlib.run(["which", c], timeout=20)
        if rc == 0 and out.strip():
            return out.strip()
    raise vlib.InfraError("no clang found (second witness)")


_PRIVATE = None


def private_cppcheck():
    """A private copy of the freshly built binary (the shared build directory may be relinked by a concurrent check
    while the batches run); cfg/ and platforms/ are found next to the executable."""
    global _PRIVATE
    if _PRIVATE:
        return _PRIVATE
    if os.environ.get("CPROBE_CPPCHECK"):
        _PRIVATE = os.environ["CPROBE_CPPCHECK"]
        return _PRIVATE
    src_dir = os.path.dirname(vlib.cppcheck_bin())
    dst_dir = vlib.mktmp("cppcheck-bin")
    last = ""
    for _attempt in range(8):
        try:
            shutil.copy2(vlib.cppcheck_bin(), os.path.join(dst_dir, "cppcheck"))
            for d in ("cfg", "platforms"):
                if not os.path.exists(os.path.join(dst_dir, d)):
                    os.symlink(os.path.join(src_dir, d), os.path.join(dst_dir, d))
            rc, out, err = vlib.run([os.path.join(dst_dir, "cppcheck"), "--version"], timeout=60)
            if rc == 0:
                _PRIVATE = os.path.join(dst_dir, "cppcheck")
                return _PRIVATE
            last = out + err
        except OSError as ex:
            last = str(ex)
        time.sleep(3)
    raise vlib.InfraError("cannot take a private copy of the built cppcheck: %s" % last)


def write_tu(path, preamble, lines, epilogue):
    """Returns {index in lines -> 1-based line number}."""
    with open(path, "w") as f:
        for ln in preamble:
            f.write(ln + "\n")
        first = len(preamble) + 1
        for ln in lines:
            f.write(ln + "\n")
        for ln in epilogue:
            f.write(ln + "\n")
    return first


def parse_dump(dump_path):
    """Returns {linenr: info} for every line that starts (column 1) with a `(void)` cast: info describes the
    operand of the cast = root token of the probed expression."""
    res = {}
    try:
        root = ET.parse(dump_path).getroot()
    except (ET.ParseError, OSError) as ex:
        raise vlib.InfraError("cannot parse dump %s: %s" % (dump_path, ex))
    for d in root.iter("dump"):
        vals = {}
        for vs in d.iter("values"):
            vals[vs.get("id")] = [dict(v.attrib) for v in vs.iter("value")]
        toks = list(d.iter("token"))
        byid = {t.get("id"): t for t in toks}
        for t in toks:
            if t.get("column") == "1" and t.get("str") == "(" and t.get("isCast") == "true":
                r = byid.get(t.get("astOperand1"))
                ln = int(t.get("linenr"))
                if r is None:
                    res[ln] = None
                    continue
                res[ln] = {
                    "tok": r.get("str"),
                    "type": r.get("valueType-type"),
                    "sign": r.get("valueType-sign") or "",
                    "pointer": int(r.get("valueType-pointer") or 0),
                    "orig": r.get("valueType-originalTypeName") or "",
                    "values": vals.get(r.get("values"), []),
                }
        break  # one configuration
    return res


def run_cppcheck_batch(work, name, lang, plat_args, preamble, lines, epilogue, timeout=300):
    """-> (list (per line) of root-token info or None, list of (line index, message) for lines on which cppcheck gave up).
    If cppcheck reports an error that makes it drop the whole translation unit (internalError / syntaxError on one
    line), the batch is split until the offending lines are isolated, so one such line never hides the others."""
    src = os.path.join(work, name + LANG_EXT[lang])
    first = write_tu(src, preamble, lines, epilogue)
    args = ["--dump", "-q", "--language=" + lang, CPPCHECK_STD[lang]] + list(plat_args) + [src]
    rc, out, err = vlib.run([private_cppcheck()] + args, cwd=work, timeout=timeout)
    if rc is None:
        raise vlib.InfraError("cppcheck --dump timed out on %s" % src)
    if rc != 0 or not os.path.exists(src + ".dump"):
        raise vlib.InfraError("cppcheck --dump failed rc=%s on %s\n%s" % (rc, src, (out + err)[-1500:]))
    info = parse_dump(src + ".dump")
    os.unlink(src + ".dump")
    if not info and lines:
        msg = (out + err).strip().splitlines()
        msg = msg[0][-300:] if msg else "no tokens in dump"
        if len(lines) == 1:
            return [None], [(0, msg)]
        h = len(lines) // 2
        i1, e1 = run_cppcheck_batch(work, name + "a", lang, plat_args, preamble, lines[:h], epilogue, timeout)
        i2, e2 = run_cppcheck_batch(work, name + "b", lang, plat_args, preamble, lines[h:], epilogue, timeout)
        return i1 + i2, e1 + [(h + i, m) for i, m in e2]
    return [info.get(first + i) for i in range(len(lines))], []


_ERR = re.compile(r"^(.*?):(\d+):(\d+): (fatal error|error): (.*)$")


def run_clang_batch(work, name, lang, triple, preamble, lines, epilogue, timeout=300):
    """-> list (per line) of None (accepted) or the first error text on that line."""
    src = os.path.join(work, name + LANG_EXT[lang])
    first = write_tu(src, preamble, lines, epilogue)
    cmd = [clang_bin(), "--target=" + triple, "-fsyntax-only", "-w", "-ferror-limit=0", "-fno-caret-diagnostics",
           "-fno-color-diagnostics"] + CLANG_STD[lang] + [src]
    rc, out, err = vlib.run(cmd, cwd=work, timeout=timeout)
    if rc is None:
        raise vlib.InfraError("clang timed out on %s" % src)
    errors = {}
    other = []
    for ln in err.splitlines():
        m = _ERR.match(ln)
        if not m:
            continue
        n = int(m.group(2))
        if first <= n < first + len(lines):
            errors.setdefault(n - first, m.group(5))
        else:
            other.append(ln)
    if other:
        raise vlib.InfraError("clang rejects the preamble of %s:\n%s" % (src, "\n".join(other[:10])))
    if rc != 0 and not errors:
        raise vlib.InfraError("clang failed without a located error on %s:\n%s" % (src, err[-1500:]))
    return [errors.get(i) for i in range(len(lines))]


def pmap(fn, items, workers=None):
    with ThreadPoolExecutor(max_workers=workers or WORKERS) as ex:
        return list(ex.map(fn, items))


def chunks(seq, n):
    return [seq[i:i + n] for i in range(0, len(seq), n)]
