"""clangrefs - which declaration does clang bind every name to (second witness of C08, reference of C35).

refs(path, lang) runs `clang-14 -fsyntax-only -Xclang -ast-dump=json` on a source file and returns
    {"ok": bool, "err": first diagnostics of a rejected file, "diag": warnings printed for an accepted file, "refs": {(line, col): set((dline, dcol))}, "decls": {(line, col): kind}}
      refs   for every DeclRefExpr / MemberExpr: position of the NAME token (the last token of the expression: for
             `N::x`, `this->x` that is `x`)  ->  position(s) of the name in the declaration clang resolved it to
      decls  position of the name of every VarDecl / ParmVarDecl / FieldDecl / FunctionDecl / CXXMethodDecl
    and "names": {(line, col): spelling} for every position in refs and decls (main file only: entries of other files
    are dropped), "ref_kinds": {(line, col): kind of the declaration referred to}.
Only a change of notation: clang prints a location's line / file only when it differs from the previously printed
location, so the tree is walked in print order to make the positions absolute; nothing is compared or decided here.

clang 14 does not print a node for the variable of an init-capture `[z = x]`; references to it name a declaration id
without node.  The closure type's implicit FieldDecl for that capture sits exactly at `z`; a reference to an unprinted
VarDecl named z inside a lambda is therefore resolved to the FieldDecl of the innermost enclosing lambda whose source
text reads `z =` (kind "InitCapture").
"""
import json
import os
import re
import subprocess

DECL_KINDS = {"VarDecl", "ParmVarDecl", "FieldDecl", "FunctionDecl", "CXXMethodDecl"}
REF_KINDS = {"DeclRefExpr", "MemberExpr"}


def clang_cmd(lang):
    if lang == "c":
        return ["clang-14", "-x", "c", "-std=c11"]
    return ["clang-14", "-x", "c++", "-std=c++17"]


class _Walker:
    def __init__(self, src_lines, main=None):
        self.src = src_lines
        self.main_given = main is not None
        self.lams = []         # ids of the enclosing LambdaExpr nodes (inside a capture initialiser: without that lambda)
        self.body_off = {}     # LambdaExpr id -> file offset of the `{` of its body
        self.initcaps = {}     # LambdaExpr id -> [(name, (line, col))]
        self.line = 0
        self.file = ""
        self.decl_pos = {}     # decl id -> (line, col)
        self.decl_kind = {}    # (line, col) -> kind
        self.prev = {}         # decl id -> id of the previous declaration of the same entity
        self.refs = []         # (line, col, decl id)
        self.names = {}        # (line, col) -> spelling of the name token
        self.ref_kinds = {}    # (line, col) -> kind of the referenced declaration
        self.main = main       # name of the main file as clang prints it (default: the first file name printed)

    def loc(self, d):
        """Make a bare source location absolute (print-order state), returns (line, col, file) or None."""
        if not isinstance(d, dict):
            return None
        if "spellingLoc" in d or "expansionLoc" in d:
            r = None
            for k in ("spellingLoc", "expansionLoc"):      # printed in this order
                if k in d:
                    r = self.loc(d[k])
            return r
        if "offset" not in d and "col" not in d:
            return None
        if "file" in d:
            self.file = d["file"]
            if self.main is None and not self.main_given:
                self.main = self.file
        if "line" in d:
            self.line = d["line"]
        return (self.line, d.get("col", 0), self.file)

    def node(self, n):
        if not isinstance(n, dict):
            return
        kind = n.get("kind")
        here = None
        end = None
        # keys are visited in print order: id, kind, loc, range{begin,end}, ..., inner
        for k, v in n.items():
            if k == "loc":
                here = self.loc(v)
            elif k == "range" and isinstance(v, dict):
                self.loc(v.get("begin"))
                end = self.loc(v.get("end"))
            elif k == "inner":
                if kind == "LambdaExpr":
                    # children: closure class, capture initialisers, body
                    for c in v:
                        if isinstance(c, dict) and c.get("kind") == "CompoundStmt":
                            self.body_off[n.get("id")] = ((c.get("range") or {}).get("begin") or {}).get("offset", -1)
                    for c in v:
                        inside = isinstance(c, dict) and c.get("kind") in ("CXXRecordDecl", "CompoundStmt")
                        if inside:
                            self.lams.append(n.get("id"))
                        self.node(c)
                        if inside:
                            self.lams.pop()
                else:
                    for c in v:
                        self.node(c)
            elif isinstance(v, dict):
                self.other(v)
            elif isinstance(v, list):
                for c in v:
                    if isinstance(c, dict):
                        self.other(c)
        if kind == "FieldDecl" and n.get("isImplicit") and here and self.lams:
            m = None
            off = (n.get("loc") or {}).get("offset", -1)
            if 0 < here[0] <= len(self.src) and 0 <= off < self.body_off.get(self.lams[-1], -1):
                m = re.match(r"([A-Za-z_]\w*)\s*=(?!=)", self.src[here[0] - 1][here[1] - 1:])
            if m:
                self.initcaps.setdefault(self.lams[-1], []).append((m.group(1), (here[0], here[1])))
                self.decl_kind[(here[0], here[1])] = "InitCapture"
                self.names[(here[0], here[1])] = m.group(1)
        if kind in DECL_KINDS and here and "id" in n and not n.get("isImplicit") and here[2] == self.main:
            self.decl_pos[n["id"]] = (here[0], here[1])
            self.decl_kind[(here[0], here[1])] = kind
            self.names[(here[0], here[1])] = n.get("name", "")
            if "previousDecl" in n:
                self.prev[n["id"]] = n["previousDecl"]
        if kind in REF_KINDS and end:
            if kind == "DeclRefExpr":
                rid = (n.get("referencedDecl") or {}).get("id")
            else:
                rid = n.get("referencedMemberDecl")
            if rid and end[2] == self.main:
                rd = n.get("referencedDecl") or {}
                self.names[(end[0], end[1])] = rd.get("name") or n.get("name") or ""
                self.ref_kinds[(end[0], end[1])] = rd.get("kind") or ("FieldDecl" if kind == "MemberExpr" else "")
                self.refs.append((end[0], end[1], rid, tuple(self.lams), (n.get("referencedDecl") or {}).get("name")))

    def other(self, d):
        """A non-node dict (type, referencedDecl, ...): it may still contain printed locations."""
        if "offset" in d or "spellingLoc" in d or "expansionLoc" in d:
            self.loc(d)
            return
        for k, v in d.items():
            if k == "inner" and isinstance(v, list):
                for c in v:
                    self.node(c)
            elif isinstance(v, dict):
                self.other(v)
            elif isinstance(v, list):
                for c in v:
                    if isinstance(c, dict):
                        self.other(c)


def parse(text, src_lines=(), main=None):
    tu = json.loads(text)
    w = _Walker(list(src_lines), main)
    w.node(tu)
    refs = {}
    for line, col, rid, lams, name in w.refs:
        # follow redeclaration chains to the first declaration of the entity
        seen = 0
        while rid in w.prev and seen < 100:
            rid = w.prev[rid]
            seen += 1
        pos = w.decl_pos.get(rid)
        if pos is None and name:
            for lam in reversed(lams):
                hit = [p for (nm, p) in w.initcaps.get(lam, []) if nm == name]
                if hit:
                    pos = hit[0]
                    break
        refs.setdefault((line, col), set()).add(pos if pos else (-1, -1))
    return {"refs": refs, "decls": w.decl_kind, "names": w.names, "ref_kinds": w.ref_kinds}


def refs(path, lang="c++", timeout=300, cwd=None):
    cmd = clang_cmd(lang) + ["-fsyntax-only", "-fno-color-diagnostics", "-Xclang", "-ast-dump=json", path]
    try:
        r = subprocess.run(cmd, stdout=subprocess.PIPE, stderr=subprocess.PIPE, timeout=timeout, cwd=cwd)
    except subprocess.TimeoutExpired:
        return {"ok": False, "err": "timeout", "diag": "", "refs": {}, "decls": {}, "names": {}, "ref_kinds": {}}
    err = r.stderr.decode("utf-8", "replace")
    if r.returncode != 0:
        return {"ok": False, "err": err[:2000], "diag": "", "refs": {}, "decls": {}, "names": {}, "ref_kinds": {}}
    with open(path if cwd is None else os.path.join(cwd, path), encoding="utf-8", errors="replace") as f:
        src = f.read().split("\n")
    res = parse(r.stdout.decode("utf-8", "replace"), src, path)
    res["ok"] = True
    res["err"] = ""
    res["diag"] = err
    return res


if __name__ == "__main__":
    import sys
    res = refs(sys.argv[1], "c" if sys.argv[1].endswith(".c") else "c++")
    print(res["ok"], res["err"])
    for k in sorted(res["refs"]):
        print("ref", k, "->", sorted(res["refs"][k]))
    for k in sorted(res["decls"]):
        print("decl", k, res["decls"][k])
