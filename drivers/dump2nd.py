"""dump2nd - project a cppcheck --dump file into ndjson-ready records (format conversion only, no judging).

Two independent projections of the same file:

  dump_to_records(path)          (a) plain XML reader (xml.etree): every <dump cfg> becomes one dict with the
                                     element lists and ALL id references kept as the raw strings of the file
                                     ("" when the attribute is absent; "0" is what cppcheck prints for nullptr).
  addon_to_records(path, repo)   (b) the shipped addon library <repo>/addons/cppcheckdata.py loads the file; the
                                     object graph it builds is walked back into records where every object
                                     reference is rendered as "<ClassName>:<Id of the object>" ("" for None).

Neither function resolves, repairs or filters anything: whether a reference resolves, whether the two projections
describe the same graph etc. is decided by spec/DumpInv.tla (C14) / other specs.

dump_to_records raises xml.etree.ElementTree.ParseError when the file is not well-formed XML.
addon_to_records raises whatever cppcheckdata raises.

Record layout (a), one dict per <dump cfg>, in document order:
  cfg        configuration name
  tokens     [ {id,str,file,linenr,column,scope,type,link,varId,exprId,variable,function,values,typeScope,
                astParent,astOperand1,astOperand2,isCast,originalName,macroName} ]        (token order)
  scopes     [ {id,type,className,bodyStart,bodyEnd,nestedIn,function,definedType,functions:[id],varlist:[id]} ]
  functions  [ {id,scope,token,tokenDef,name,type,overriddenFunction,args:[{nr,variable}]} ]
  variables  [ {id,nameToken,typeStartToken,typeEndToken,scope,access} ]
  types      [ {id,classScope,derivedFrom:[{type,nameTok}]} ]
  valuelists [ {id,values:[{tokvalue,lifetime,symbolic,intvalue,valueKind,indirect}]} ]
  containers [ id ]
  directives [ {file,linenr,str} ]
linenr/column/varId/exprId/nr are integers (0 when absent), everything else strings / booleans.
"""
import importlib.util
import os
import sys
import xml.etree.ElementTree as ET


def _s(el, name):
    v = el.get(name)
    return "" if v is None else v


def _i(el, name):
    v = el.get(name)
    if v is None or v == "":
        return 0
    try:
        n = int(v)
    except ValueError:
        return -1
    # TLC integers are 32 bit
    return n if -2147483647 <= n <= 2147483647 else -1


def _value_kind(el):
    for k in ("known", "possible", "impossible", "inconclusive"):
        if el.get(k):
            return k
    return ""


def _token(el):
    return {
        "id": _s(el, "id"), "str": _s(el, "str"), "file": _s(el, "file"),
        "linenr": _i(el, "linenr"), "column": _i(el, "column"),
        "scope": _s(el, "scope"), "type": _s(el, "type"), "link": _s(el, "link"),
        "varId": _i(el, "varId"), "exprId": _i(el, "exprId"),
        "variable": _s(el, "variable"), "function": _s(el, "function"), "values": _s(el, "values"),
        "typeScope": _s(el, "type-scope"),
        "astParent": _s(el, "astParent"), "astOperand1": _s(el, "astOperand1"), "astOperand2": _s(el, "astOperand2"),
        "isCast": el.get("isCast") == "true",
        "originalName": _s(el, "originalName"), "macroName": _s(el, "macroName"),
    }


def _cfg_record(dump):
    rec = {"cfg": _s(dump, "cfg"), "tokens": [], "scopes": [], "functions": [], "variables": [], "types": [],
           "valuelists": [], "containers": [], "directives": []}
    tl = dump.find("tokenlist")
    if tl is not None:
        for t in tl.findall("token"):
            rec["tokens"].append(_token(t))
    dl = dump.find("directivelist")
    if dl is not None:
        for d in dl.findall("directive"):
            rec["directives"].append({"file": _s(d, "file"), "linenr": _i(d, "linenr"), "str": _s(d, "str")})
    sc = dump.find("scopes")
    if sc is not None:
        for s in sc.findall("scope"):
            srec = {"id": _s(s, "id"), "type": _s(s, "type"), "className": _s(s, "className"),
                    "bodyStart": _s(s, "bodyStart"), "bodyEnd": _s(s, "bodyEnd"), "nestedIn": _s(s, "nestedIn"),
                    "function": _s(s, "function"), "definedType": _s(s, "definedType"), "functions": [], "varlist": []}
            fl = s.find("functionList")
            if fl is not None:
                for f in fl.findall("function"):
                    srec["functions"].append(_s(f, "id"))
                    rec["functions"].append({
                        "id": _s(f, "id"), "scope": srec["id"], "token": _s(f, "token"), "tokenDef": _s(f, "tokenDef"),
                        "name": _s(f, "name"), "type": _s(f, "type"), "overriddenFunction": _s(f, "overriddenFunction"),
                        "args": [{"nr": _i(a, "nr"), "variable": _s(a, "variable")} for a in f.findall("arg")]})
            vl = s.find("varlist")
            if vl is not None:
                for v in vl.findall("var"):
                    srec["varlist"].append(_s(v, "id"))
            rec["scopes"].append(srec)
    ty = dump.find("types")
    if ty is not None:
        for t in ty.findall("type"):
            rec["types"].append({"id": _s(t, "id"), "classScope": _s(t, "classScope"),
                                 "derivedFrom": [{"type": _s(b, "type"), "nameTok": _s(b, "nameTok")}
                                                 for b in t.findall("derivedFrom")]})
    va = dump.find("variables")
    if va is not None:
        for v in va.findall("var"):
            rec["variables"].append({"id": _s(v, "id"), "nameToken": _s(v, "nameToken"),
                                     "typeStartToken": _s(v, "typeStartToken"), "typeEndToken": _s(v, "typeEndToken"),
                                     "scope": _s(v, "scope"), "access": _s(v, "access")})
    co = dump.find("containers")
    if co is not None:
        for c in co.findall("container"):
            rec["containers"].append(_s(c, "id"))
    vf = dump.find("valueflow")
    if vf is not None:
        for vs in vf.findall("values"):
            rec["valuelists"].append({"id": _s(vs, "id"), "values": [
                {"tokvalue": _s(v, "tokvalue"), "lifetime": _s(v, "lifetime"), "symbolic": _s(v, "symbolic"),
                 "intvalue": _s(v, "intvalue"), "valueKind": _value_kind(v), "indirect": _s(v, "indirect")}
                for v in vs.findall("value")]})
    return rec


def dump_to_records(path):
    """Projection (a): list of per-<dump cfg> dicts read with a plain XML parser. Raises ET.ParseError."""
    root = ET.parse(path).getroot()
    return [_cfg_record(d) for d in root.findall("dump")]


def dump_language(path):
    return ET.parse(path).getroot().get("language") or ""


# ---------------------------------------------------------------------------------------------- projection (b)
_cppcheckdata = {}


def load_cppcheckdata(repo):
    """Import <repo>/addons/cppcheckdata.py (the shipped library of the tree under test) as a private module."""
    p = os.path.join(repo, "addons", "cppcheckdata.py")
    if p not in _cppcheckdata:
        spec = importlib.util.spec_from_file_location("cppcheckdata_under_test_%d" % len(_cppcheckdata), p)
        mod = importlib.util.module_from_spec(spec)
        sys.modules[spec.name] = mod
        spec.loader.exec_module(mod)
        _cppcheckdata[p] = mod
    return _cppcheckdata[p]


def _ref(obj):
    if obj is None:
        return ""
    return "%s:%s" % (type(obj).__name__, getattr(obj, "Id", "?"))


def _vrec(v):
    iv = v.intvalue
    return {"tokvalue": _ref(v.tokvalue), "lifetime": _ref(getattr(v, "lifetime", None)),
            "symbolic": _ref(getattr(v, "symbolic", None)),
            "intvalue": "" if iv is None else str(iv), "valueKind": v.valueKind or ""}


def _addon_cfg(cfg):
    rec = {"cfg": cfg.name if cfg.name is not None else "", "tokens": [], "scopes": [], "functions": [], "variables": []}
    for t in cfg.tokenlist:
        rec["tokens"].append({
            "id": t.Id or "", "str": t.str if t.str is not None else "",
            "scope": _ref(t.scope), "link": _ref(t.link), "variable": _ref(t.variable), "function": _ref(t.function),
            "typeScope": _ref(t.typeScope), "astParent": _ref(t.astParent),
            "astOperand1": _ref(t.astOperand1), "astOperand2": _ref(t.astOperand2),
            "varId": t.varId if isinstance(t.varId, int) and -2147483647 <= t.varId <= 2147483647 else (0 if t.varId is None else -1),
            "next": _ref(t.next), "previous": _ref(t.previous),
            "values": [_vrec(v) for v in (t.values or [])],
            "impossible": [_vrec(v) for v in (getattr(t, "impossible_values", None) or [])],
        })
    for s in cfg.scopes:
        rec["scopes"].append({
            "id": s.Id or "", "type": s.type or "", "bodyStart": _ref(s.bodyStart), "bodyEnd": _ref(s.bodyEnd),
            "nestedIn": _ref(s.nestedIn), "function": _ref(s.function),
            "varlist": [_ref(v) for v in s.varlist], "nestedList": [_ref(n) for n in s.nestedList]})
    for f in cfg.functions:
        rec["functions"].append({
            "id": f.Id or "", "name": f.name or "", "token": _ref(f.token), "tokenDef": _ref(f.tokenDef),
            "scope": _ref(f.nestedIn),
            "args": [{"nr": nr, "variable": _ref(f.argument[nr])} for nr in sorted(f.argument)]})
    for v in cfg.variables:
        rec["variables"].append({
            "id": v.Id or "", "nameToken": _ref(v.nameToken), "typeStartToken": _ref(v.typeStartToken),
            "typeEndToken": _ref(v.typeEndToken), "scope": _ref(v.scope), "access": v.access or ""})
    return rec


def addon_to_records(path, repo):
    """Projection (b): the graph rebuilt by <repo>/addons/cppcheckdata.py, one dict per configuration."""
    mod = load_cppcheckdata(repo)
    data = mod.parsedump(path)
    return [_addon_cfg(cfg) for cfg in data.iterconfigurations()]


if __name__ == "__main__":
    import json
    for r in dump_to_records(sys.argv[1]):
        print(json.dumps(r, sort_keys=True))
