"""Common plumbing for the /verif checks: build, run cppcheck, run TLC, evidence, known findings.

Python only orchestrates; every verdict is computed by TLC from a .tla file under /verif/spec.
"""
import atexit
import hashlib
import json
import os
import re
import shutil
import subprocess
import sys
import tempfile
import time

VERIF = os.path.dirname(os.path.dirname(os.path.abspath(__file__)))
REPO = os.environ.get("VERIF_REPO", "/repo")
BUILD = os.environ.get("VERIF_BUILD", "/verif/.build")   # one hooked build tree, also for snapshots of /verif (vp run)
SPEC = os.path.join(VERIF, "spec")
OUT = os.environ.get("VERIF_OUT_DIR", os.path.join(VERIF, "out"))
TLA_CP = "/opt/veriftools/tla/tla2tools.jar:/opt/veriftools/tla/CommunityModules-deps.jar"
NCPU = os.cpu_count() or 4


class InfraError(Exception):
    """Infrastructure failure: build, model failure, harness timeout. Exit status 2, never a VIOLATION."""


# ------------------------------------------------------------------ scratch space
_TMP = None


def tmproot():
    global _TMP
    if _TMP is None:
        _TMP = tempfile.mkdtemp(prefix="verif.%d." % os.getpid(), dir=os.environ.get("VERIF_TMP", "/tmp"))
        atexit.register(lambda: shutil.rmtree(_TMP, ignore_errors=True))
    return _TMP


def mktmp(name):
    d = tempfile.mkdtemp(prefix=name + ".", dir=tmproot())
    return d


# ------------------------------------------------------------------ build
_built = set()


def build(targets=("cppcheck",), build_dir=None):
    key = (tuple(targets), build_dir)
    if key in _built:
        return
    env = dict(os.environ)
    if build_dir:
        env["VERIF_BUILD"] = build_dir
    r = subprocess.run([os.path.join(VERIF, "bin", "build.sh")] + list(targets), env=env,
                       stdout=subprocess.PIPE, stderr=subprocess.STDOUT, text=True)
    if r.returncode != 0:
        raise InfraError("build failed:\n" + r.stdout[-3000:])
    _built.add(key)


def cppcheck_bin():
    return os.path.join(BUILD, "bin", "cppcheck")


def run(cmd, cwd=None, env=None, timeout=120, stdin=None):
    """Run a command; returns (rc, stdout, stderr). rc<0: killed by signal -rc. Timeout -> rc=None."""
    e = dict(os.environ)
    if env:
        e.update(env)
    try:
        r = subprocess.run(cmd, cwd=cwd, env=e, stdout=subprocess.PIPE, stderr=subprocess.PIPE,
                           timeout=timeout, input=stdin)
        return r.returncode, r.stdout.decode("utf-8", "surrogateescape"), r.stderr.decode("utf-8", "surrogateescape")
    except subprocess.TimeoutExpired as ex:
        out = (ex.stdout or b"").decode("utf-8", "replace")
        err = (ex.stderr or b"").decode("utf-8", "replace")
        return None, out, err


def run_cppcheck(args, cwd, trace_dir=None, env=None, timeout=120):
    e = {}
    if env:
        e.update(env)
    if trace_dir:
        os.makedirs(trace_dir, exist_ok=True)
        e["CPPCHECK_VERIF_TRACE_DIR"] = trace_dir
    return run([cppcheck_bin()] + list(args), cwd=cwd, env=e, timeout=timeout)


def read_traces(trace_dir):
    """Returns {pid: [events...]} from a trace directory (one ndjson per process)."""
    res = {}
    if not os.path.isdir(trace_dir):
        return res
    for fn in sorted(os.listdir(trace_dir)):
        if not fn.endswith(".ndjson"):
            continue
        evs = []
        with open(os.path.join(trace_dir, fn), "rb") as f:
            for line in f:
                line = line.strip()
                if not line:
                    continue
                try:
                    evs.append(json.loads(line.decode("utf-8", "replace")))
                except ValueError:
                    # a process killed inside write(2) cannot leave a torn line (single write), but be safe
                    evs.append({"e": "TornLine"})
        res[int(fn[:-7])] = evs
    return res


# ------------------------------------------------------------------ TLC
class TLCResult:
    def __init__(self, rc, out, wall):
        self.rc = rc
        self.out = out
        self.wall = wall
        self.generated = 0
        self.distinct = 0
        self.depth = 0
        m = None
        for m in re.finditer(r"(\d[\d,]*) states generated, (\d[\d,]*) distinct states found", out):
            pass
        if m:
            self.generated = int(m.group(1).replace(",", ""))
            self.distinct = int(m.group(2).replace(",", ""))
        m = re.search(r"The depth of the complete state graph search is (\d+)", out)
        if m:
            self.depth = int(m.group(1))
        # TLC exit codes: 0 ok, 10 assumption, 11 deadlock, 12 safety, 13 liveness; 150+ errors
        self.ok = rc == 0
        self.violation = rc in (10, 11, 12, 13)
        self.error = not self.ok and not self.violation

    def violated_name(self):
        m = re.search(r"Invariant (\S+) is violated", self.out)
        if m:
            return m.group(1)
        m = re.search(r"Action property (\S+) is violated|Temporal properties were violated", self.out)
        if m:
            return m.group(1) or "temporal"
        if "Assumption" in self.out and "is false" in self.out:
            return "assumption"
        if "Deadlock reached" in self.out:
            return "deadlock"
        return None


def tlc(module, cfg=None, env=None, workers=1, timeout=600, extra=(), dfs=False, xmx="8g", cwd=None, deadlock=False):
    """Run TLC on spec/<module>.tla with spec/<cfg>. Returns TLCResult. Raises InfraError on timeout."""
    cwd = cwd or SPEC
    meta = mktmp("tlcmeta")
    # -Xss: recursive TLA+ operators over sequences need a deep Java stack (the default overflows nondeterministically)
    cmd = ["java", "-XX:+UseParallelGC", "-Xmx" + xmx, "-Xss256m"]
    if dfs:
        cmd.append("-Dtlc2.tool.queue.IStateQueue=StateDeque")
    cmd += ["-cp", TLA_CP, "tlc2.TLC", "-metadir", meta, "-workers", str(workers), "-noGenerateSpecTE"]
    if not deadlock:
        cmd.append("-deadlock")  # -deadlock disables deadlock checking
    if cfg:
        cmd += ["-config", cfg]
    cmd += list(extra)
    cmd.append(module if module.endswith(".tla") else module + ".tla")
    t0 = time.time()
    rc, out, err = run(cmd, cwd=cwd, env=env, timeout=timeout)
    shutil.rmtree(meta, ignore_errors=True)
    if rc is None:
        raise InfraError("TLC timeout (%ss) on %s/%s\n%s" % (timeout, module, cfg, out[-2000:]))
    res = TLCResult(rc, out + err, time.time() - t0)
    return res


def tlc_must_pass(module, cfg=None, **kw):
    r = tlc(module, cfg, **kw)
    if r.error:
        raise InfraError("model failure (TLC rc=%s) on %s/%s\n%s" % (r.rc, module, cfg, r.out[-4000:]))
    return r


# ------------------------------------------------------------------ ndjson
def write_ndjson(path, rows):
    with open(path, "w") as f:
        for r in rows:
            f.write(json.dumps(r, sort_keys=True))
            f.write("\n")


def read_ndjson(path):
    rows = []
    if not os.path.exists(path):
        return rows
    with open(path) as f:
        for line in f:
            line = line.strip()
            if line:
                rows.append(json.loads(line))
    return rows


def digest(obj):
    return hashlib.sha1(json.dumps(obj, sort_keys=True).encode()).hexdigest()[:12]


# ------------------------------------------------------------------ known findings / verdict
def known_findings(pid):
    """Entries 'known: property=<id> key=<key> <text>' of /verif/known-findings.txt for this property."""
    res = {}
    p = os.path.join(VERIF, "known-findings.txt")
    if not os.path.exists(p):
        return res
    for line in open(p):
        line = line.strip()
        m = re.match(r"known:\s+property=(\S+)\s+key=(\S+)\s+(.*)$", line)
        if m and m.group(1) == pid:
            res[m.group(2)] = m.group(3)
    return res


def save_replay(pid, name, payload):
    """Store a counterexample under out/replays/<pid>/<name>.json and return the path."""
    d = os.path.join(OUT, "replays", pid)
    os.makedirs(d, exist_ok=True)
    p = os.path.join(d, name + ".json")
    with open(p, "w") as f:
        json.dump(payload, f, indent=1, sort_keys=True)
    return p


# set by bin/check for checks that declare CONFIRM_BY_REPLAY: callable(replay_path) -> False iff replaying the stored
# case twice gives "no violation" both times (a deviation caused by the loaded machine, not by the code)
CONFIRM = None


def verdict(pid, violations):
    """violations: list of dict(key=..., what=..., replay=path). Prints KNOWN-FINDING / VIOLATION lines.
    Returns (exit_code, n_new, n_known)."""
    known = known_findings(pid)
    new = 0
    kn = 0
    seen = set()
    confirmed_one = False     # replays cost minutes under load: once one new deviation has been repeated the verdict is 1 anyway
    for v in violations:
        k = v["key"]
        if k in seen:
            continue
        seen.add(k)
        if k in known:
            print("KNOWN-FINDING: property=%s key=%s %s" % (pid, k, known[k]))
            kn += 1
        else:
            if CONFIRM is not None and v.get("replay") and not confirmed_one:
                if not CONFIRM(v["replay"]):
                    print("note: property=%s key=%s was not repeated by replaying %s (twice); not reported" % (pid, k, v["replay"]))
                    continue
                confirmed_one = True
            print("VIOLATION property=%s replay=%s" % (pid, v.get("replay", "")))
            print("  key=%s %s" % (k, v.get("what", "")))
            new += 1
    return (1 if new else 0), new, kn


def write_evidence(pid, tier, seed, level, coverage, wall_s, violations=0, assumptions=()):
    d = os.environ.get("VERIF_EVIDENCE_DIR", os.path.join(VERIF, "evidence"))
    os.makedirs(d, exist_ok=True)
    ev = {
        "property_id": pid,
        "tier": tier,
        "seed": int(seed),
        "level": level,
        "coverage": coverage,
        "assumptions": list(assumptions),
        "wall_s": round(float(wall_s), 2),
        "violations": int(violations),
    }
    with open(os.path.join(d, pid + ".json"), "w") as f:
        json.dump(ev, f, indent=1, sort_keys=True)
        f.write("\n")


def seed_from_env():
    try:
        return int(os.environ.get("VERIF_SEED", "1"))
    except ValueError:
        return 1


# ------------------------------------------------------------------ C++ unit harnesses linked against the built objects
def core_objects():
    d = os.path.join(BUILD, "lib", "CMakeFiles", "cppcheck-core.dir")
    objs = []
    for root, _dirs, files in os.walk(d):
        for fn in files:
            if fn.endswith(".o"):
                objs.append(os.path.join(root, fn))
    return sorted(objs)


def build_harness(src, name=None, extra_flags=(), with_cli=False):
    """Compile harness/<src> against the objects of the current hooked build (rebuilt from /repo first).
    Returns the path of the executable (under .build/harness)."""
    build()
    srcp = src if os.path.isabs(src) else os.path.join(VERIF, "harness", src)
    outd = os.path.join(BUILD, "harness")
    os.makedirs(outd, exist_ok=True)
    exe = os.path.join(outd, name or os.path.splitext(os.path.basename(src))[0])
    libs = [os.path.join(BUILD, "lib", "libsimplecpp.a"), os.path.join(BUILD, "lib", "libtinyxml2.a")]
    if with_cli:
        libs = [os.path.join(BUILD, "lib", "libcli.a"), os.path.join(BUILD, "lib", "libfrontend.a")] + libs
    cmd = ["g++", "-std=c++11", "-O1", "-g0", "-DDANMAR_CPPCHECK_VERIF", "-w",
           "-I" + os.path.join(REPO, "lib"), "-I" + os.path.join(REPO, "cli"), "-I" + os.path.join(REPO, "frontend"),
           "-I" + os.path.join(REPO, "externals"), "-I" + os.path.join(REPO, "externals", "simplecpp"),
           "-I" + os.path.join(REPO, "externals", "tinyxml2"), "-I" + os.path.join(REPO, "externals", "picojson"),
           "-I" + os.path.join(BUILD, "lib"),
           srcp] + list(extra_flags) + (libs[:2] if with_cli else []) + core_objects() + libs[-2:] + ["-lpthread", "-o", exe]
    rc, out, err = run(cmd, timeout=900)
    if rc != 0:
        raise InfraError("harness build failed: %s\n%s" % (src, (out + err)[-3000:]))
    return exe
