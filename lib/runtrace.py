"""Validate recorded runs of the hooked binary against spec/RunTrace.tla (trace validation by TLC)."""
import json
import os
import re
import shutil

import tracenorm
import vlib


def group_key(hdr):
    return (hdr["mode"], int(hdr["exitCode"]), bool(hdr["emitDup"]))


def write_cfg(path, mode, exit_code, emit_dup):
    with open(path, "w") as f:
        f.write("SPECIFICATION TraceSpec\n")
        f.write("CONSTANTS\n  Mode = \"%s\"\n  ExitCode = %d\n  EmitDup = %s\n" % (mode, exit_code, "TRUE" if emit_dup else "FALSE"))
        f.write("INVARIANT TraceInv\n")
        f.write("POSTCONDITION Accepted\n")
        f.write("CHECK_DEADLOCK FALSE\n")


class RunTraceResult:
    def __init__(self):
        self.validated = 0        # runs accepted
        self.rejected = []        # list of dict(label, reason, line, event, file)
        self.states = 0
        self.transitions = 0
        self.events = 0
        self.skipped = 0          # runs not looked at because MAX_REJECTED rejections were already found


def validate(runs, keep_dir=None, timeout=600):
    """runs: list of (label, header, events). Groups them by constants, one TLC invocation per group.
    On rejection of a group, bisects to the offending run(s)."""
    res = RunTraceResult()
    groups = {}
    for label, hdr, evs in runs:
        groups.setdefault(group_key(hdr), []).append((label, hdr, evs))
    for key, items in groups.items():
        _validate_group(key, items, res, keep_dir, timeout)
    return res


def _run_tlc(key, items, work, timeout):
    trace = os.path.join(work, "trace.ndjson")
    n = 0
    with open(trace, "w") as f:
        for label, hdr, evs in items:
            f.write(json.dumps(dict(hdr, e="Header", label=label)) + "\n")
            n += 1
            for e in evs:
                f.write(json.dumps(e) + "\n")
                n += 1
    cfg = os.path.join(work, "RunTrace.cfg")
    write_cfg(cfg, *key)
    r = vlib.tlc("RunTrace", cfg, env={"TRACE": trace}, workers=1, timeout=timeout, dfs=True)
    return r, n, trace


MAX_REJECTED = 8   # a change that breaks every trace must not cost one TLC start per recorded run


def _validate_group(key, items, res, keep_dir, timeout):
    if len(res.rejected) >= MAX_REJECTED:
        res.skipped += len(items)
        return
    work = vlib.mktmp("runtrace")
    r, n, trace = _run_tlc(key, items, work, timeout)
    res.states += r.distinct
    res.transitions += r.generated
    if r.ok:
        res.validated += len(items)
        res.events += n
        shutil.rmtree(work, ignore_errors=True)
        return
    eval_error = r.error and ("The error occurred when TLC was evaluating" in r.out or "Attempted to" in r.out)
    if r.error and "REJECTED_AT_LINE" not in r.out and not r.violation and not eval_error:
        raise vlib.InfraError("model failure in RunTrace (rc=%s)\n%s" % (r.rc, r.out[-3000:]))
    m = re.search(r'REJECTED_AT_LINE",\s*(\d+)', r.out)
    inv = r.violated_name()
    line = int(m.group(1)) if m else None
    if len(items) > 1:
        # TLC names the first line that could not be matched: that identifies the offending run; the runs before it
        # were accepted, the runs after it are validated in a further TLC run
        shutil.rmtree(work, ignore_errors=True)
        pos = None
        if line is not None and not r.violation:
            acc = 0
            for i, (_l, _h, evs_i) in enumerate(items):
                acc += 1 + len(evs_i)
                if line <= acc:
                    pos = i
                    break
        if pos is None or len(res.rejected) > 12:
            for it in items[:40]:
                _validate_group(key, [it], res, keep_dir, timeout)
            return
        res.validated += pos
        _validate_group(key, [items[pos]], res, keep_dir, timeout)
        if items[pos + 1:]:
            _validate_group(key, items[pos + 1:], res, keep_dir, timeout)
        return
    label, hdr, evs = items[0]
    if eval_error and not m:
        # an event whose fields cannot even be applied to the state (e.g. a worker that does not exist): the
        # trace is not a behaviour of the spec; the position is the l of the last printed state
        inv = "evaluation-error"
        ml = None
        for ml in re.finditer(r"/\\ l = (\d+)", r.out):
            pass
        line = int(ml.group(1)) if ml else None
    ev = evs[line - 2] if line and 0 <= line - 2 < len(evs) else None
    saved = None
    if keep_dir:
        os.makedirs(keep_dir, exist_ok=True)
        saved = os.path.join(keep_dir, re.sub(r"[^A-Za-z0-9_.-]", "_", label) + ".trace.ndjson")
        shutil.copy(trace, saved)
    res.rejected.append({"label": label, "line": line, "event": ev, "invariant": inv,
                         "prev": evs[max(0, (line or 2) - 6):max(0, (line or 2) - 2)], "trace": saved,
                         "tlc": r.out[-1500:] if not m else ""})
    shutil.rmtree(work, ignore_errors=True)


def record(args, cwd, label, env=None, timeout=120):
    """Run the hooked cppcheck with tracing; returns dict(label, rc, out, err, hdr, events, raw)."""
    tdir = vlib.mktmp("tr")
    rc, out, err = vlib.run_cppcheck(args, cwd, trace_dir=tdir, env=env, timeout=timeout)
    raw = vlib.read_traces(tdir)
    hdr, evs = tracenorm.normalize(raw)
    shutil.rmtree(tdir, ignore_errors=True)
    return {"label": label, "rc": rc, "out": out, "err": err, "hdr": hdr, "events": evs, "raw": raw, "args": list(args)}
