"""Histories of runs sharing one --cppcheck-build-dir (C18, C19, C20): project state, edits, paired runs, cache traces."""
import json
import os
import re
import shutil

import projgen
import rel
import tracenorm
import vlib

BASE = {
    "a.c": '#include "h.h"\nint a1(int x) { int buf[2]; buf[3] = x; return buf[0]; }\nint a2(void) { return hval() + 1; }\nint c1(void);\nint a3(void) { return c1(); }\n',
    "b.c": "#include \"p.h\"\nint b1(int *p) { if (p) { } return *p; }\nint b2(int d) { return 10 / d; }\nvoid b3(void) { int v; v = 1; }\nvoid b4(int *q) { *q = 0; }\n",
    # c.c uses b.c (b2 is "used" only through c.c; b4(0) is a whole-program null pointer finding) and a.c uses c.c: a run
    # that re-analyses one of them while the other is served from the cache must still see the whole program
    # (the prototypes are in a shared header: cppcheck identifies a function across files by the location of its first declaration)
    "c.c": "#include \"p.h\"\nint c1(void) { int u; return u; }\nint c2(void) { return b2(3); }\nvoid c3(void) { b4(0); }\n",
    "p.h": "void b4(int *q);\nint b2(int d);\n",
    "h.h": "#ifndef H_H\n#define H_H\nstatic int hval(void) { int hb[2]; hb[0] = 0; return hb[5]; }\n#endif\n",
    "d1/x.c": "int xa(void) { int *p = 0; return *p; }\n",
    "d2/x.c": "int xb(void) { int w; return w; }\n",
}
BASE_SOURCES = ["a.c", "b.c", "c.c"]
OPTS = ["-q", "--template=" + projgen.TEMPLATE, "--inline-suppr", "--enable=style,warning", "--error-exitcode=3"]


class State:
    def __init__(self):
        self.files = dict(BASE)
        self.sources = list(BASE_SOURCES)
        self.flags = set()

    def toggle(self, name):
        on = name not in self.flags
        if on:
            self.flags.add(name)
        else:
            self.flags.discard(name)
        return on


def _swap(text, a, b, on):
    return text.replace(a, b) if on else text.replace(b, a)


def edit_tokA(s):
    s.files["a.c"] = _swap(s.files["a.c"], "buf[3]", "buf[1]", s.toggle("tokA"))


def edit_insB(s):
    extra = "int b9(int x) { return x / 0; }\n"
    if s.toggle("insB"):
        s.files["b.c"] += extra
    else:
        s.files["b.c"] = s.files["b.c"].replace(extra, "")


def _cur(s, fname):
    """c.c may have been renamed to c2.c by an earlier edit of the history"""
    if fname == "c.c" and fname not in s.files:
        return "c2.c"
    return fname


def _shift(fname, n):
    def f(s):
        fn = _cur(s, fname)
        s.files[fn] = "\n" * n + s.files[fn]
    return f


def _col(fname, marker, n):
    def f(s):
        fn = _cur(s, fname)
        s.files[fn] = s.files[fn].replace(marker, " " * n + marker, 1)
    return f


def edit_cmtC(s):
    c = "/* just a comment */\n"
    fn = _cur(s, "c.c")
    if s.toggle("cmtC"):
        s.files[fn] = c + s.files[fn]
    else:
        s.files[fn] = s.files[fn].replace(c, "", 1)


def edit_supC(s):
    c = "// cppcheck-suppress uninitvar\n"
    fn = _cur(s, "c.c")
    if s.toggle("supC"):
        s.files[fn] = s.files[fn].replace("int c1(", c + "int c1(", 1)
    else:
        s.files[fn] = s.files[fn].replace(c, "", 1)


def edit_supH(s):
    c = "// cppcheck-suppress arrayIndexOutOfBounds\n"
    if s.toggle("supH"):
        s.files["h.h"] = s.files["h.h"].replace("static int hval", c + "static int hval", 1)
    else:
        s.files["h.h"] = s.files["h.h"].replace(c, "", 1)


def edit_hdrTok(s):
    s.files["h.h"] = _swap(s.files["h.h"], "hb[5]", "hb[1]", s.toggle("hdrTok"))


def _toggle_source(fname):
    def f(s):
        fn = _cur(s, fname)
        if fn in s.sources:
            s.sources.remove(fn)
        else:
            s.sources.append(fn)
    return f


def edit_swapOrder(s):
    s.sources.reverse()


def edit_touchA(s):
    s.flags.add("touchA%d" % len(s.flags))


def edit_renameC(s):
    # c.c <-> c2.c (same content under another name)
    if "c.c" in s.files:
        s.files["c2.c"] = s.files.pop("c.c")
        s.sources = ["c2.c" if x == "c.c" else x for x in s.sources]
    else:
        s.files["c.c"] = s.files.pop("c2.c")
        s.sources = ["c.c" if x == "c2.c" else x for x in s.sources]


EDITS = {
    "tokA": edit_tokA, "insB": edit_insB,
    "shift1A": _shift("a.c", 1), "shift255A": _shift("a.c", 255), "shift256A": _shift("a.c", 256), "shift257A": _shift("a.c", 257),
    "shift512B": _shift("b.c", 512), "shift65536C": _shift("c.c", 65536),
    "col1A": _col("a.c", "int a1(", 1), "col256B": _col("b.c", "int b2(", 256),
    "cmtC": edit_cmtC, "supC": edit_supC, "supH": edit_supH, "hdrTok": edit_hdrTok, "hdrShift256": _shift("h.h", 256),
    "addD1": _toggle_source("d1/x.c"), "addD2": _toggle_source("d2/x.c"), "rmC": _toggle_source("c.c"),
    "swapOrder": edit_swapOrder, "touchA": edit_touchA, "renameC": edit_renameC,
}


def materialize(state, root):
    for rel_, text in state.files.items():
        p = os.path.join(root, rel_)
        os.makedirs(os.path.dirname(p), exist_ok=True)
        with open(p, "w") as f:
            f.write(text)
    # files that disappeared (rename)
    for fn in ("c.c", "c2.c"):
        if fn not in state.files and os.path.exists(os.path.join(root, fn)):
            os.remove(os.path.join(root, fn))


def run_cppcheck(root, sources, opts, builddir=None, jobs=1, trace=False, env=None, executor=None, timeout=180):
    args = list(opts)
    if builddir:
        args.append("--cppcheck-build-dir=" + builddir)
    args.append("-j%d" % jobs)
    if executor and jobs > 1:
        args.append("--executor=" + executor)
    args += list(sources)
    tdir = vlib.mktmp("ctr") if trace else None
    rc, out, err = vlib.run_cppcheck(args, root, trace_dir=tdir, env=env, timeout=timeout)
    r = {"rc": rc, "out": out, "err": err, "args": args, "findings": projgen.parse_findings(err), "stray": projgen.stray_output(err)}
    if trace:
        raw = vlib.read_traces(tdir)
        hdr, evs = tracenorm.normalize(raw, view="cache")
        r["cache_events"] = evs
        r["hdr"] = hdr
        r["raw_n"] = sum(len(v) for v in raw.values())
        shutil.rmtree(tdir, ignore_errors=True)
    return r


def fobs(r):
    return list(r["findings"]) + [{"id": "<stderr>", "key": "<stderr>" + s} for s in r["stray"]]


def _validate_once(histories, timeout):
    work = vlib.mktmp("cachetrace")
    trace = os.path.join(work, "trace.ndjson")
    index = []
    with open(trace, "w") as f:
        for hi, (label, runs) in enumerate(histories):
            for i, evs in enumerate(runs):
                f.write(json.dumps({"e": "Header", "reset": i == 0, "w": "main", "label": label, "run": i}) + "\n")
                index.append((hi, i))
                for e in evs:
                    f.write(json.dumps(e) + "\n")
                    index.append((hi, i))
    r = vlib.tlc("CacheTrace", "CacheTrace.cfg", env={"TRACE": trace}, workers=1, timeout=timeout, dfs=True)
    if r.ok:
        shutil.rmtree(work, ignore_errors=True)
        return None, r.distinct, None
    m = re.search(r'REJECTED_AT_LINE",\s*(\d+)', r.out)
    if not m:
        raise vlib.InfraError("model failure in CacheTrace (rc=%s)\n%s" % (r.rc, r.out[-3000:]))
    line = int(m.group(1))
    hi, run = index[line - 1] if line - 1 < len(index) else (len(histories) - 1, -1)
    lines = open(trace).read().splitlines()
    rej = {"label": histories[hi][0], "run": run, "line": line, "event": json.loads(lines[line - 1]) if line - 1 < len(lines) else None,
           "prev": [json.loads(x) for x in lines[max(0, line - 6):line - 1]], "trace": None}
    shutil.rmtree(work, ignore_errors=True)
    return hi, r.distinct, rej


def validate_cache_histories(histories, keep_dir=None, timeout=900, max_rejections=12):
    """histories: list of (label, [cache event lists of consecutive runs sharing one build dir]).
    All histories go into one TLC run (a Header with reset starts each); when one is rejected TLC tells which, it is
    recorded and validation continues with the histories after it. Returns (validated_runs, rejected list, states)."""
    rest = list(histories)
    ok_runs = 0
    rejected = []
    states = 0
    while rest:
        hi, st, rej = _validate_once(rest, timeout)
        states += st
        if hi is None:
            ok_runs += sum(len(runs) for _, runs in rest)
            break
        ok_runs += sum(len(runs) for _, runs in rest[:hi])
        rejected.append(rej)
        rest = rest[hi + 1:]
        if len(rejected) >= max_rejections:
            break
    return ok_runs, rejected, states
