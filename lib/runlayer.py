"""Shared machinery of the run-layer checks (C15, C17, C21, C24, C25, ...): run variants of a generated project
with the hooked binary, record traces and observations."""
import os
import shutil

import projgen
import rel
import runtrace
import vlib

WP_IDS = {"unusedFunction", "ctunullpointer", "ctuuninitvar", "ctuArrayIndex", "ctuPointerArith",
          "ctuOneDefinitionRuleViolation", "unusedStructMember_wp"}


def run_variant(proj, root, label, extra_opts=(), env=None, sources=None, timeout=180, trace=True):
    """One cppcheck run of the project in `root`. Returns dict(label, rc, findings, stray, hdr, events, args)."""
    args = list(proj["opts"]) + list(extra_opts) + list(sources if sources is not None else proj["sources"])
    if trace:
        r = runtrace.record(args, root, label, env=env, timeout=timeout)
    else:
        rc, out, err = vlib.run_cppcheck(args, root, env=env, timeout=timeout)
        r = {"label": label, "rc": rc, "out": out, "err": err, "hdr": None, "events": [], "args": args}
    r["findings"] = projgen.parse_findings(r["err"])
    r["stray"] = projgen.stray_output(r["err"])
    # a run that could not start says so on stdout ("cppcheck: error: ..."): keep it visible in the observation
    r["stray"] += ["<stdout>" + l for l in (r.get("out") or "").splitlines() if l.startswith("cppcheck: error")]
    return r


def observation(group, role, r):
    fs = list(r["findings"])
    for s in r["stray"]:
        fs.append({"id": "<stderr>", "key": "<stderr>" + s})
    return rel.obs(group, role, r["label"], fs, r["rc"])


def fresh_root(name):
    return vlib.mktmp(name)


def cleanup(root):
    shutil.rmtree(root, ignore_errors=True)


def project_payload(proj, runs):
    """What is stored for --replay."""
    return {"project": {k: proj[k] for k in ("name", "files", "sources", "opts", "desc", "shape") if k in proj},
            "runs": [{"label": r["label"], "args": r["args"], "rc": r["rc"],
                      "findings": [f["key"] for f in r["findings"]], "stray": r["stray"]} for r in runs]}


SHADOW_CLASS = "global-suppression-reported-unmatched-by-parallel-run-when-a-file-local-one-suppresses-the-finding-in-the-worker"


def _is_local(s):
    return bool(s["file"]) and "*" not in s["file"] and "?" not in s["file"]


def shadowed_global(proj, sid, sfile):
    """Is the unmatchedSuppression report for the command-line entry (sid, sfile) explained by this known root cause?
    The per-file analyzers of the thread and process executors consult only file-local entries (useGlobalSuppressions is
    false); when a local entry (inline or id:file) suppresses a finding there, the finding never reaches the executor, whose
    global entries are therefore never consulted for it: a global entry that matches this finding in a single-job run (where
    all entries are consulted) stays unmatched in the parallel run."""
    want_file = "" if sfile in ("nofile", "") else sfile
    cands = [s for s in proj["supprs"] if not s["inline"] and not _is_local(s) and s["id"] == sid and s["file"] == want_file]
    if not cands:
        return False
    import fnmatch
    for f_file, f_line, f_id, _sev in proj["located"]:
        if sid not in (f_id, "*"):
            continue
        if want_file and not fnmatch.fnmatch(f_file, want_file):
            continue
        for t in proj["supprs"]:
            if _is_local(t) and t["file"] == f_file and t["id"] in (f_id, "*") and (t["line"] in (-1, f_line)):
                return True
    return False


def explain_parallel_unmatched(proj, only_ref, only_alt):
    """class key if a single-job / parallel difference consists only of extra unmatchedSuppression reports of the parallel
    run that the shadowing root cause explains, else None"""
    if only_ref or not only_alt:
        return None
    for k in only_alt:
        p = k.split("|")
        if len(p) < 7 or p[5] != "unmatchedSuppression" or not p[6].startswith("Unmatched suppression: "):
            return None
        if not shadowed_global(proj, p[6][len("Unmatched suppression: "):], p[0]):
            return None
    return SHADOW_CLASS
