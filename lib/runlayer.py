"""Shared machinery of the run-layer checks (C15, C17, C21, C24, C25, ...): run variants of a generated project
with the hooked binary, record traces and observations."""
import os
import shutil

import projgen
import rel
import runtrace
import vlib

WP_IDS = {"unusedFunction", "ctunullpointer", "ctuuninitvar", "ctuArrayIndex", "ctuPointerArith",
          "ctuOneDefinitionRuleViolation", "unusedStructMember_wp"}


def run_variant(proj, root, label, extra_opts=(), env=None, sources=None, timeout=180, trace=True):
    """One cppcheck run of the project in `root`. Returns dict(label, rc, findings, stray, hdr, events, args)."""
    args = list(proj["opts"]) + list(extra_opts) + list(sources if sources is not None else proj["sources"])
    if trace:
        r = runtrace.record(args, root, label, env=env, timeout=timeout)
    else:
        rc, out, err = vlib.run_cppcheck(args, root, env=env, timeout=timeout)
        r = {"label": label, "rc": rc, "out": out, "err": err, "hdr": None, "events": [], "args": args}
    r["findings"] = projgen.parse_findings(r["err"])
    r["stray"] = projgen.stray_output(r["err"])
    # a run that could not start says so on stdout ("cppcheck: error: ..."): keep it visible in the observation
    r["stray"] += ["<stdout>" + l for l in (r.get("out") or "").splitlines() if l.startswith("cppcheck: error")]
    return r


def observation(group, role, r):
    fs = list(r["findings"])
    for s in r["stray"]:
        fs.append({"id": "<stderr>", "key": "<stderr>" + s})
    return rel.obs(group, role, r["label"], fs, r["rc"])


def fresh_root(name):
    return vlib.mktmp(name)


def cleanup(root):
    shutil.rmtree(root, ignore_errors=True)


def project_payload(proj, runs):
    """What is stored for --replay."""
    return {"project": {k: proj[k] for k in ("name", "files", "sources", "opts", "desc", "shape") if k in proj},
            "runs": [{"label": r["label"], "args": r["args"], "rc": r["rc"],
                      "findings": [f["key"] for f in r["findings"]], "stray": r["stray"]} for r in runs]}
