"""Turn the per-process ndjson logs of one hooked cppcheck run into one causally ordered event sequence.

Nothing is guessed: events keep their logged fields. What this module does is
 * order: threads of one process are already totally ordered by the tracer's sequence number (taken at the
   linearization point); the log of a forked worker is spliced into the parent's log at the latest point
   allowed by causality (a frame is sent before it is received, a worker is gone before EOF / reap) -- child
   steps touch only the child's address space and its pipe, so every causal order gives the same verdict;
 * naming: list addresses are renamed to spaces (main / T = fork template / c<pid>), threads to workers
   (main, t<tid>, c<pid>, parent:c<pid> for the parent handling a frame of that child);
 * projection: events that belong to other specifications (Ai*, Config*, Access) are left out of the Run view.
"""
import json

RUN_DROP = {"RunFile", "SupprInit", "AiOpen", "AiOpened", "AiWrite", "AiClose", "AiClosed", "AiReopen", "FilesTxt",
            "Config", "ConfigChecked", "HashSkip", "CacheHit", "CacheMiss", "AddonLine", "AddonFail",
            "ThreadsSpawned", "SyncFwd", "Send", "Access"}

FINDING_FIELDS = ("id", "sev", "inc", "file", "line", "col", "msg")


def short_text(t):
    """very long texts (a 70 kB message) are replaced by prefix + digest: an injective renaming that keeps TLC's input small"""
    if isinstance(t, str) and len(t) > 300:
        import hashlib
        return t[:80] + "#sha1:" + hashlib.sha1(t.encode("utf-8", "replace")).hexdigest()
    return t


def finding(e):
    return {k: short_text(e.get(k)) for k in FINDING_FIELDS}


def res_obj(e):
    return {k: v for k, v in e.get("res", [])}


CACHE_KEEP = {"CacheHit", "CacheMiss", "AiHit", "AiOpen", "AiOpened", "AiWrite", "AiClose", "AiClosed", "AiReopen", "FilesTxt",
              "CheckBegin", "CheckEnd", "Exit", "WpDirBegin", "WpDirEnd", "UnmatchedDone"}


class Normalizer:
    def __init__(self, traces, view="run"):
        self.view = view
        self.traces = traces
        self.root = None
        for pid, evs in traces.items():
            if any(e.get("e") == "RunStart" for e in evs):
                self.root = pid
        if self.root is None:
            # run ended before RunStart (invalid command line) or no trace
            self.root = min(traces) if traces else None
        self.header = None
        self.out = []
        self.lists = {}          # (pid, addr) -> (space, kind)

    def space_of(self, pid, addr):
        return self.lists.get((pid, addr)) or self.lists.get((None, addr)) or ("other", "other")

    def run(self):
        if self.root is None:
            return None, []
        P = self.traces[self.root]
        for e in P:
            if e["e"] == "RunStart":
                self.header = e
                a = e["lists"].split(",")
                self.lists[(self.root, a[0])] = ("main", "nomsg")
                self.lists[(self.root, a[1])] = ("main", "nofail")
        if self.header is None:
            return None, []
        mode = self.header["executor"]
        # fork template lists (process executor): children log the addresses at ChildStart
        for pid, evs in self.traces.items():
            if pid == self.root:
                continue
            for e in evs:
                if e["e"] == "ChildStart":
                    a = e["lists"].split(",")
                    self.lists[(pid, a[0])] = ("c%d" % pid, "nomsg")
                    self.lists[(pid, a[1])] = ("c%d" % pid, "nofail")
                    self.lists.setdefault((self.root, a[0]), ("T", "nomsg"))
                    self.lists.setdefault((self.root, a[1]), ("T", "nofail"))
        cur = {pid: 0 for pid in self.traces if pid != self.root}
        fd2pid = {}
        frames_recv = {}
        gone = set()
        ctx = "main"
        last_reaped = None
        from_child = None

        def flush_child(pid, upto_sent=None):
            """emit child events; stop after the upto_sent-th complete frame (1-based) if given"""
            evs = self.traces.get(pid, [])
            i = cur.get(pid, 0)
            sent = sum(1 for e in evs[:i] if e["e"] == "Sent")
            while i < len(evs):
                if upto_sent is not None and sent >= upto_sent:
                    break
                e = evs[i]
                i += 1
                if e["e"] == "Sent":
                    sent += 1
                self.emit_worker("c%d" % pid, pid, e)
            cur[pid] = i

        def child_gone(pid):
            if pid in gone or pid not in self.traces:
                return
            flush_child(pid)
            gone.add(pid)
            evs = self.traces.get(pid, [])
            died = bool(evs and evs[-1].get("dies"))
            self.out.append({"e": "ChildGone", "w": "c%d" % pid, "died": died,
                             "midframe": bool(died and evs[-1]["e"] == "Send" and evs[-1].get("phase") != "type")})

        for e in P:
            n = e["e"]
            if e.get("tid", 0) != 0 and mode == "thread":
                self.emit_worker("t%d" % e["tid"], self.root, e)
                continue
            if n == "RunStart":
                continue
            if n == "Spawn":
                fd2pid[e["fd"]] = e["cpid"]
                frames_recv[e["cpid"]] = 0
                self.out.append({"e": "Spawn", "w": "c%d" % e["cpid"], "file": e["file"]})
                ctx = "main"
                continue
            if n == "Recv":
                pid = fd2pid.get(e["fd"])
                frames_recv[pid] = frames_recv.get(pid, 0) + 1
                flush_child(pid, frames_recv[pid])
                o = {"e": "Recv", "w": "c%d" % pid, "t": e["type"], "n": int(e["n"]) if e.get("n") not in (None, "") else 0}
                self.out.append(o)
                ctx = "parent:c%d" % pid if e["type"] == "2" else "main"
                from_child = "c%d" % pid if e["type"] in ("3", "4") else None
                continue
            if n == "PipeEof":
                pid = fd2pid.get(e["fd"])
                child_gone(pid)
                self.out.append({"e": "PipeEof", "w": "c%d" % pid})
                ctx = "main"
                from_child = None
                continue
            if n == "Reap":
                pid = e["cpid"]
                child_gone(pid)
                last_reaped = pid
                self.out.append({"e": "Reap", "w": "c%d" % pid, "exited": e["exited"], "code": e["code"]})
                ctx = "main"
                from_child = None
                continue
            if n == "ChildErr":
                ctx = "parent:c%d" % last_reaped if last_reaped else "main"
                self.out.append({"e": "ChildErr", "w": "c%d" % last_reaped, "file": e["file"], "msg": e["msg"]})
                continue
            if n == "ProcDone":
                ctx = "main"
                from_child = None
            if n == "RecvErr":
                # the frame of child c was deserialized: the event is about that child
                self.emit_worker("c" + ctx.split(":c")[1] if ctx.startswith("parent:") else ctx, self.root, e)
                continue
            self.emit_worker(ctx, self.root, e, from_child=from_child)
        for pid in list(cur):
            if cur[pid] < len(self.traces[pid]):
                flush_child(pid)
        if not any(o["e"] == "Exit" for o in self.out):
            self.out.append({"e": "Killed", "w": "main"})
        if self.view == "cache":
            self.out = [o for o in self.out if o["e"] in CACHE_KEEP or o["e"] == "Killed"]
        hdr = {"mode": mode, "exitCode": self.header["exitCode"], "emitDup": self.header["emitDup"],
               "jobs": self.header["jobs"], "buildDir": self.header["buildDir"], "safety": self.header["safety"],
               "inlineSuppr": self.header["inlineSuppr"], "sev": self.header["sev"], "inconclusive": self.header["inconclusive"]}
        return hdr, self.out

    def emit_worker(self, w, pid, e, from_child=None):
        n = e["e"]
        if self.view == "cache":
            if n not in CACHE_KEEP:
                return None
            o = {"e": n, "w": w}
            for k in ("file", "hash", "n", "afile", "src", "kind", "hasEnd", "exit", "code", "id", "line", "check"):
                if k in e:
                    o[k] = e[k]
            if e.get("dies"):
                o["dies"] = True
            self.out.append(o)
            return o
        if n in RUN_DROP:
            return None
        o = {"e": n, "w": w}
        if n in ("Raw", "LibraryDrop", "LocalDup", "ExitFlag", "Forward", "SendErr", "RecvErr"):
            o["x"] = finding(e)
        elif n == "Gate":
            o["x"] = finding(e)
            o["fk"] = e["fk"]
            o["suppressed"] = e["suppressed"]
            o["empty"] = e["empty"]
        elif n in ("ExecPass", "ExecDup"):
            o["x"] = finding(e)
            o["fk"] = e["fk"]
        elif n == "ExecQuery":
            o["x"] = finding(e)
            o["res"] = e["res"]
        elif n == "Emit":
            o["x"] = finding(e)
            o["fk"] = e["fk"]
            o["dup"] = e["dup"]
        elif n == "SupprQuery":
            sp, kind = self.space_of(pid, e["list"])
            if sp == "other":
                return None
            o["a"] = sp
            o["kind"] = kind
            o["glob"] = e["global"]
            o["ret"] = e["ret"]
            o["res"] = res_obj(e)
            o["dummy"] = (e["id"] == "")
        elif n in ("SupprAdd", "SupprUpdate"):
            sp, kind = self.space_of(pid, e["list"])
            if sp == "other" or kind != "nomsg":
                return None
            o["a"] = sp
            o["key"] = e["key"]
            o["rec"] = {"inl": e["inl"], "local": e["local"], "wild": e["wild"], "line": e["sline"],
                        "checked": e["checked"], "matched": e["matched"], "id": e["sid"], "file": e["sfile"]}
            o["checked"] = e["checked"]
            o["matched"] = e["matched"]
            if n == "SupprAdd":
                o["res"] = e["res"]
            else:
                o["found"] = e["found"]
            o["from"] = from_child or ""
        elif n == "SupprMark":
            sp, kind = self.space_of(pid, e["list"])
            if sp == "other" or kind != "nomsg":
                return None
            o["a"] = sp
            o["keys"] = e["keys"]
        elif n in ("CheckBegin", "Next", "ChildStart", "DupClear"):
            o["file"] = e.get("file", "")
        elif n == "CheckEnd":
            o["file"] = e["file"]
            o["exit"] = e["exit"]
        elif n in ("ThreadFileDone", "ThreadEnd", "ThreadsJoined", "ChildChecked", "ExecDone", "ProcDone", "SingleFilesDone", "PreReport"):
            o["result"] = e["result"]
        elif n == "Sent":
            o["t"] = e["type"]
        elif n == "SendSuppr":
            o["key"] = e["key"]
            o["inl"] = e["inl"]
            o["checked"] = e["checked"]
            o["matched"] = e["matched"]
        elif n == "Unmatched":
            o["key"] = e["key"]
            o["inl"] = e["inl"]
        elif n == "UnmatchedDone":
            o["err"] = e["err"]
        elif n == "Exit":
            o["code"] = e["code"]
            o["result"] = e["result"]
        elif n == "WpDirBegin":
            o["buildDir"] = e["buildDir"]
        if e.get("dies"):
            o["dies"] = True
        self.out.append(o)
        return o


def normalize(traces, view="run"):
    return Normalizer(traces, view).run()


def dump(events, path, header=None):
    with open(path, "w") as f:
        if header is not None:
            f.write(json.dumps(dict(header, e="Header")) + "\n")
        for e in events:
            f.write(json.dumps(e) + "\n")
