"""Evaluate a relation between observed runs with TLC (spec/Rel.tla)."""
import os
import re
import shutil

import vlib


def obs(group, role, name, findings, exit_code, **extra):
    d = {"group": group, "role": role, "name": name,
         "findings": [dict({"id": f["id"], "key": f["key"]}, **({"pk": f["pk"]} if "pk" in f else {})) for f in findings],
         "exit": -999 if exit_code is None else int(exit_code)}
    d.update(extra)
    return d


MAXF = 12000     # findings per TLC run
CHUNK = 400      # observations per TLC run (groups are independent of each other and are never split)


def judge(rel_name, exclude, observations, timeout=1800):
    """Returns (npairs, bad) where bad is the list of violating pairs computed by TLC. Large inputs are judged in several
    TLC runs, group by group."""
    observations = list(observations)
    if len(observations) > CHUNK or sum(len(o["findings"]) for o in observations) > MAXF:
        groups = {}
        for o in observations:
            groups.setdefault(o["group"], []).append(o)
        if len(groups) > 1:
            npairs, bad, cur = 0, [], []
            for g in groups.values():
                if cur and (len(cur) + len(g) > CHUNK or sum(len(o["findings"]) for o in cur + g) > MAXF):
                    n, b = _judge1(rel_name, exclude, cur, timeout)
                    npairs += n
                    bad += b
                    cur = []
                cur += g
            if cur:
                n, b = _judge1(rel_name, exclude, cur, timeout)
                npairs += n
                bad += b
            return npairs, bad
    return _judge1(rel_name, exclude, observations, timeout)


def _judge1(rel_name, exclude, observations, timeout):
    work = vlib.mktmp("rel")
    inp = os.path.join(work, "obs.ndjson")
    out = os.path.join(work, "bad.ndjson")
    vlib.write_ndjson(inp, [{"rel": rel_name, "exclude": sorted(exclude)}] + list(observations))
    r = vlib.tlc("Rel", "Rel.cfg", env={"OBS": inp, "OUT": out}, workers=1, timeout=timeout)
    if not r.ok:
        raise vlib.InfraError("model failure in Rel.tla (rc=%s)\n%s" % (r.rc, r.out[-3000:]))
    m = re.search(r'"PAIRS",\s*(\d+),\s*"BAD",\s*(\d+)', r.out)
    if not m:
        raise vlib.InfraError("Rel.tla gave no verdict\n" + r.out[-2000:])
    bad = vlib.read_ndjson(out)
    if len(bad) != int(m.group(2)):
        raise vlib.InfraError("Rel.tla verdict/output mismatch")
    shutil.rmtree(work, ignore_errors=True)
    return int(m.group(1)), bad
