"""Generated mini projects with known findings, suppressions and shared headers (used by the run-layer checks).

Everything is a deterministic function of the seed. A project is
  {"name", "files": {relpath: text}, "sources": [relpaths on the command line], "opts": [cppcheck options],
   "desc": text}
"""
import random

TEMPLATE = "F|{file}|{line}|{column}|{severity}|{inconclusive:inconclusive}|{id}|{message}"

# (id, severity, C snippet with {n}; finding is on the FIRST line of the snippet)
SNIPPETS = [
    ("zerodiv", "error", "int zd{n}(int x) {{ return x / 0; }}\n"),
    ("arrayIndexOutOfBounds", "error", "int ai{n}(void) {{ int a[2]; a[3] = 0; return a[0]; }}\n"),
    ("nullPointer", "error", "int np{n}(void) {{ int *p = 0; return *p; }}\n"),
    ("uninitvar", "error", "int uv{n}(void) {{ int x; return x; }}\n"),
    ("unreadVariable", "style", "void ur{n}(void) {{ int v; v = {n}; }}\n"),
    ("nullPointerRedundantCheck", "warning", "int rc{n}(int *p) {{ int v = *p; if (p) return v; return 0; }}\n"),
    ("AssignmentAddressToInteger", "portability", "int pa{n}(int *p) {{ int x; x = p; return x; }}\n"),
    ("memleak", "error", "void ml{n}(void) {{ char *p = malloc(10); }}\n"),
]
SNIP = {s[0]: s for s in SNIPPETS}

HEADER_SNIPPET = ("arrayIndexOutOfBounds", "error", "static int hdr{n}(void) {{ int h[2]; h[4] = 0; return h[0]; }}\n")


def gen_project(seed, nfiles=None, with_header=None, with_inline=None, severities=True):
    rnd = random.Random(seed)
    rnd2 = random.Random(seed * 7919 + 13)
    nfiles = nfiles or rnd.choice([2, 3, 3, 4, 5])
    with_header = rnd.random() < 0.6 if with_header is None else with_header
    with_inline = rnd.random() < 0.7 if with_inline is None else with_inline
    files = {}
    sources = []
    located = []     # (file, line, id, severity)
    supprs = []      # structural description of every suppression: id, file, line (-1 none), inline
    hdr_lines = []
    asym = False
    asym_line = 0
    if with_header:
        h = "#ifndef H_H\n#define H_H\n"
        line = 3
        nh = rnd.choice([1, 1, 2])
        for i in range(nh):
            plain = rnd.random() < 0.4
            # (own random stream so that the projects of earlier seeds keep their shape) a begin/end block instead of a
            # plain inline suppression: the entry carries a line range, which no list copy or pipe frame may lose
            block = rnd2.random() < 0.35
            if block:
                h += "// cppcheck-suppress-begin arrayIndexOutOfBounds\n"
                supprs.append({"id": "arrayIndexOutOfBounds", "file": "h.h", "line": line, "inline": True, "glob": False, "type": "block"})
                line += 1
            elif plain:
                h += "// cppcheck-suppress arrayIndexOutOfBounds\n"
                line += 1
                hdr_lines.append(("inline", line))
                supprs.append({"id": "arrayIndexOutOfBounds", "file": "h.h", "line": line, "inline": True, "glob": False})
            h += HEADER_SNIPPET[2].format(n=i)
            located.append(("h.h", line, HEADER_SNIPPET[0], HEADER_SNIPPET[1]))
            line += 1
            if block:
                h += "// cppcheck-suppress-end arrayIndexOutOfBounds\n"
                line += 1
        # (own random stream) code of the header that only SOME of the including files compile: every file defines HXV, with
        # the value 1 or 2, and the header has a suppressed finding under `#if HXV == 2`. The translation units then learn
        # different things about the same inline suppression (matched in one, not even consulted in another), which the
        # executors have to merge
        asym = rnd2.random() < 0.45
        if asym:
            h += "#if HXV == 2\n// cppcheck-suppress arrayIndexOutOfBounds\n"
            line += 2
            supprs.append({"id": "arrayIndexOutOfBounds", "file": "h.h", "line": line, "inline": True, "glob": False})
            h += "static int hx(void) { int g[2]; g[5] = 0; return g[0]; }\n#endif\n"
            asym_line = line
            line += 2
        h += "#endif\n"
        files["h.h"] = h
    n = 0
    inline_unmatched = []
    for fi in range(nfiles):
        name = "f%d.c" % fi
        text = "#include <stdlib.h>\n"
        line = 2
        if with_header and rnd.random() < 0.75:
            if asym:
                hxv = rnd2.choice([1, 2])
                text += "#define HXV %d\n" % hxv
                line += 1
                if hxv == 2 and ("h.h", asym_line, HEADER_SNIPPET[0], HEADER_SNIPPET[1]) not in located:
                    located.append(("h.h", asym_line, HEADER_SNIPPET[0], HEADER_SNIPPET[1]))
            text += '#include "h.h"\n'
            line += 1
        k = rnd.choice([0, 1, 2, 2, 3])
        for _ in range(k):
            sid, sev, code = rnd.choice(SNIPPETS)
            n += 1
            r = rnd.random()
            if with_inline and r < 0.25:
                text += "// cppcheck-suppress %s\n" % sid
                line += 1
                supprs.append({"id": sid, "file": name, "line": line, "inline": True, "glob": False})
            elif with_inline and r < 0.35:
                other = rnd.choice([s[0] for s in SNIPPETS if s[0] != sid])
                text += "// cppcheck-suppress %s\n" % other      # will be unmatched
                line += 1
                inline_unmatched.append((name, line))
                supprs.append({"id": other, "file": name, "line": line, "inline": True, "glob": False})
            elif with_inline and r < 0.42:
                text += "\n"
                line += 1
            text += code.format(n=n)
            located.append((name, line, sid, sev))
            line += 1
        if rnd.random() < 0.15:
            # duplicate finding text inside one file is impossible (different columns); same message, other line
            text += SNIP["zerodiv"][2].format(n=1000 + fi)
            located.append((name, line, "zerodiv", "error"))
            line += 1
        files[name] = text
        sources.append(name)
    if rnd.random() < 0.2:
        # stress for the inter-process encoding: a 70 kB message (pipe frames larger than the pipe buffer), a file name
        # with a space, ';' and a tab inside a string literal next to a finding
        long_name = "v" + "x" * 70000
        files["sp ace.c"] = ("int lf(void) { int %s; return %s; }\n" % (long_name, long_name) +
                             "int sf(const char *s) { if (s == \"a;b\\tc\") return 1 / 0; return 0; }\n")
        sources.append("sp ace.c")
        located.append(("sp ace.c", 1, "uninitvar", "error"))
        located.append(("sp ace.c", 2, "zerodiv", "error"))
    opts = ["--template=" + TEMPLATE, "-q"]
    if with_inline:
        opts.append("--inline-suppr")
    en = rnd.choice([[], ["warning"], ["style"], ["all"], ["warning", "portability"], ["information"], ["style", "information"], ["all"]])
    if not severities:
        en = []
    if en:
        opts.append("--enable=" + ",".join(en))
    if rnd.random() < 0.3:
        opts.append("--inconclusive")
    # command line suppressions
    supp = []
    ids = sorted(set(l[2] for l in located)) or ["zerodiv"]
    for _ in range(rnd.choice([0, 1, 1, 2, 3])):
        r = rnd.random()
        sid = rnd.choice(ids + ["memleak", "doesNotExist"])
        f, ln, _i, _s = rnd.choice(located) if located else ("f0.c", 2, "", "")
        if r < 0.25:
            supp.append(sid)
            supprs.append({"id": sid, "file": "", "line": -1, "inline": False, "glob": False})
        elif r < 0.5:
            supp.append("%s:%s" % (sid, f))
            supprs.append({"id": sid, "file": f, "line": -1, "inline": False, "glob": False})
        elif r < 0.7:
            supp.append("%s:%s:%d" % (sid, f, ln))
            supprs.append({"id": sid, "file": f, "line": ln, "inline": False, "glob": False})
        elif r < 0.8:
            supp.append("%s:%s:%d" % (sid, f, ln + 7))
            supprs.append({"id": sid, "file": f, "line": ln + 7, "inline": False, "glob": False})
        elif r < 0.9:
            supp.append("*:%s" % f)
            supprs.append({"id": "*", "file": f, "line": -1, "inline": False, "glob": True})
        else:
            supp.append("%s:*.c" % sid)
            supprs.append({"id": sid, "file": "*.c", "line": -1, "inline": False, "glob": True})
    for i, s in enumerate(supp):
        if s in supp[:i]:
            continue        # cppcheck refuses a command line that names the same suppression twice
        opts.append("--suppress=" + s)
    xs = []
    if rnd.random() < 0.35:
        xs.append(rnd.choice(ids))
        if rnd.random() < 0.3:
            xs.append(rnd.choice(ids) + ":f0.c")
    if xs:
        files["nofail.txt"] = "".join(s + "\n" for s in xs)
        opts.append("--exitcode-suppressions=nofail.txt")
    ec = rnd.choice([None, None, 1, 3, 7, 0])
    if ec is not None:
        opts.append("--error-exitcode=%d" % ec)
    if rnd.random() < 0.12:
        opts.append("--emit-duplicates")
    return {"name": "p%d" % seed, "files": files, "sources": sources, "opts": opts,
            "desc": "seed=%d files=%d header=%s inline=%s" % (seed, nfiles, with_header, with_inline),
            "located": located, "supprs": supprs, "enabled": en, "inline": with_inline}


def gen_special(k):
    """Handcrafted projects for situations a random project hits too rarely. Name "p-<k>" (negative seed).
    1, 2: two translation units DISAGREE about an inline suppression of a shared header (it matches in the unit that defines
          SLOT 2, it is not even consulted in the other) and finish at very different times: 1 = the matching unit is the slow
          one, 2 = the matching unit is the fast one. Whatever arrives first, the merged state must say "matched"."""
    if k not in (1, 2):
        raise ValueError("no special project %s" % k)
    shared = ("#ifndef SHARED_H\n#define SHARED_H\nstatic int put(int v) {\n    int buf[2];\n    buf[0] = 0;\n"
              "    // cppcheck-suppress arrayIndexOutOfBounds\n    buf[SLOT] = v;\n    return buf[0];\n}\n#endif\n")
    filler = "".join("int fill%d(int x) { int a[4]; a[0] = x; a[1] = a[0] + %d; a[2] = a[1] * 2; a[3] = a[2] - x; return a[3] + a[x & 3]; }\n" % (i, i)
                     for i in range(250))
    big_slot, small_slot = (2, 1) if k == 1 else (1, 2)
    files = {"shared.h": shared,
             "big.c": "#define SLOT %d\n#include \"shared.h\"\nint big(void) { return put(1); }\n" % big_slot + filler,
             "small.c": "#define SLOT %d\n#include \"shared.h\"\nint small(void) { return put(2); }\n" % small_slot}
    opts = ["--template=" + TEMPLATE, "-q", "--inline-suppr", "--enable=information", "--error-exitcode=3"]
    return {"name": "p-%d" % k, "files": files, "sources": ["big.c", "small.c"], "opts": opts,
            "desc": "special %d: header suppression matched by the %s unit only" % (k, "slow" if k == 1 else "fast"),
            "located": [("shared.h", 7, "arrayIndexOutOfBounds", "error")],
            "supprs": [{"id": "arrayIndexOutOfBounds", "file": "shared.h", "line": 7, "inline": True, "glob": False}],
            "enabled": ["information"], "inline": True}


def materialize(proj, root):
    import os
    for rel, text in proj["files"].items():
        p = os.path.join(root, rel)
        os.makedirs(os.path.dirname(p), exist_ok=True)
        with open(p, "w") as f:
            f.write(text)


def parse_findings(stderr_text):
    """Findings printed with TEMPLATE -> list of dict(id, key, file, line, col, sev, inc, msg)."""
    res = []
    for line in stderr_text.splitlines():
        if not line.startswith("F|"):
            continue
        parts = line.split("|", 7)
        if len(parts) < 8:
            continue
        _f, file, ln, col, sev, inc, fid, msg = parts
        if len(msg) > 300:
            import hashlib
            msg = msg[:80] + "#sha1:" + hashlib.sha1(msg.encode("utf-8", "replace")).hexdigest()
            parts[7] = msg
        res.append({"id": fid, "key": "|".join(parts[1:]), "file": file, "line": int(ln), "col": int(col),
                    "sev": sev, "inc": inc == "inconclusive", "msg": msg})
    return res


def stray_output(stderr_text):
    """Lines on stderr that are not findings in the template (e.g. '#### ...' diagnostics of the executors)."""
    return [l for l in stderr_text.splitlines() if l.strip() and not l.startswith("F|")]
